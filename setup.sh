#!/bin/sh
# Offline setup: regenerate tables from /repo, generate the Coq makefile, full .vo build.
set -e
HERE="$(cd "$(dirname "$0")" && pwd)"
cd "$HERE"
export PYTHONPATH="${VERIF_REPO:-/repo}:$HERE/harness" PYTHONHASHSEED=0 PYTHONDONTWRITEBYTECODE=1
/venv/bin/python - <<'PY'
import common, sys
r = common.build(None, timeout=3000, target_all=True)
print(r.log[-3000:])
print("setup build:", "ok" if r.ok else "FAILED (checks rebuild what they need and report)")
PY
exit 0
