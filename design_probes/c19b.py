import numpy as np, warnings, tempfile, os, datetime
warnings.simplefilter("ignore")
from openfisca_core import periods, holders
from openfisca_core.entities import Entity, build_entity
from openfisca_core.periods import DateUnit
from openfisca_core.simulations import SimulationBuilder
from openfisca_core.taxbenefitsystems import TaxBenefitSystem
from openfisca_core.variables import Variable
from openfisca_core.indexed_enums import Enum
from openfisca_core.tools.simulation_dumper import dump_simulation, restore_simulation
from openfisca_core.experimental import MemoryConfig
Person = build_entity(key="person", plural="persons", label="", is_person=True)
House = build_entity(key="house", plural="houses", label="", roles=[{"key":"adult","plural":"adults","max":2},{"key":"child","plural":"children"}])
class E(Enum):
    A="a"; B="b"
class vs(Variable):
    value_type=str; entity=Person; definition_period=DateUnit.MONTH
class vd(Variable):
    value_type=datetime.date; entity=Person; definition_period=DateUnit.ETERNITY
class ve(Variable):
    value_type=Enum; possible_values=E; default_value=E.A; entity=House; definition_period=DateUnit.YEAR
class vw(Variable):
    value_type=int; entity=Person; definition_period=DateUnit.WEEK
class vb(Variable):
    value_type=bool; entity=Person; definition_period=DateUnit.DAY
class vf(Variable):
    value_type=float; entity=House; definition_period=DateUnit.MONTH
    def formula(h, period): return h.sum(h.members("vw", period.first_week))
def mk(ents=(Person,House)):
    tbs = TaxBenefitSystem(list(ents)); tbs.add_variables(*[v for v in (vs,vd,ve,vw,vb,vf) if v.entity in ents]); return tbs
tbs = mk()
d = {"persons": {"a": {"vd": {"ETERNITY":"1980-05-05"}, "vw": {"2018-W01": 3}, "vb": {"2018-01-01": True}}, "b": {"vw": {"2018-W01": 4}}, "c": {}},
     "houses": {"h1": {"adults": ["c"], "children": ["a"], "ve": {"2018":"B"}}, "h2": {"adults": ["b"]}}}
s = SimulationBuilder().build_from_dict(tbs, d)
print(s.calculate("vf", "2018-01"))
tmp = tempfile.mkdtemp(); dd = os.path.join(tmp, "dump")
try:
    dump_simulation(s, dd); print(sorted(os.listdir(dd)), [sorted(os.listdir(os.path.join(dd,x))) for x in sorted(os.listdir(dd))])
    r = restore_simulation(dd, tbs)
    for pop in s.populations.values():
        rp = r.populations[pop.entity.key]
        print(pop.entity.key, list(pop.ids), list(rp.ids), pop.count, rp.count, type(pop.ids), type(rp.ids))
        if not pop.entity.is_person:
            print(pop.members_entity_id, rp.members_entity_id, pop.members_role, rp.members_role, pop.members_position, rp.members_position)
        for v,h in pop._holders.items():
            for p in h.get_known_periods():
                a = h.get_array(p); b = r.get_array(v, p)
                print(v, p, a, b, None if b is None else (a.dtype, b.dtype, type(a).__name__, type(b).__name__))
except Exception as e:
    import traceback; traceback.print_exc()
# persons-only
tbs1 = mk((Person,))
s1 = SimulationBuilder().build_from_dict(tbs1, {"persons": {"a": {"vw": {"2018-W01": 3}}}})
dd1 = os.path.join(tmp, "d1")
try:
    dump_simulation(s1, dd1); r1 = restore_simulation(dd1, tbs1); print("persons-only ok", r1.get_array("vw","2018-W01"))
except Exception as e: print("persons-only ERR", type(e).__name__, e)
# memory config with str
s2 = SimulationBuilder().build_from_dict(tbs, d) if False else None
tb = mk()
sim = SimulationBuilder().build_default_simulation(tb, count=2)
sim.memory_config = MemoryConfig(max_memory_occupation=0)
for v, p, val in [("vs","2018-01",["x","yy"]), ("vd","eternity",["1980-01-01","1990-02-02"]), ("ve","2018",["B","A"]), ("vb","2018-01-01",[True,False])]:
    try:
        sim.set_input(v, p, val); a = sim.calculate(v, p); print("disk", v, a, a.dtype, type(a).__name__)
    except Exception as e: print("disk ERR", v, type(e).__name__, str(e)[:80])
