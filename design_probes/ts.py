import numpy as np
from openfisca_core import taxscales as ts
a = ts.MarginalRateTaxScale(); a.add_bracket(10, .1)
b = ts.MarginalRateTaxScale(); b.add_bracket(0, .2)
c = a.copy(); c.add_tax_scale(b)
print(c.thresholds, c.rates, c.calc(np.array([5., 20.])), a.calc(np.array([5.,20.]))+b.calc(np.array([5.,20.])))
# combine where other has low threshold below self's first
a = ts.MarginalRateTaxScale(); a.add_bracket(0, .1); a.add_bracket(10,.2)
b = ts.MarginalRateTaxScale(); b.add_bracket(5, .3); b.add_bracket(10, .0); 
c = a.copy(); c.add_tax_scale(b)
x = np.array([0,3.,5,7,10,20])
print(c.thresholds, c.rates, c.calc(x), a.calc(x)+b.calc(x))
# threshold_high = 0?  other with thresholds [-5, 0]? non-negative only. other first threshold 0 and second...
a = ts.MarginalRateTaxScale(); a.add_bracket(0, .1)
b = ts.MarginalRateTaxScale(); b.add_bracket(0, .3); b.add_bracket(0.0, .0)
# empty self
e = ts.MarginalRateTaxScale()
try:
    e.add_tax_scale(a); print(e.thresholds, e.rates)
except Exception as ex: print("ERR", type(ex), ex)
# inverse
s = ts.MarginalRateTaxScale(); s.add_bracket(0,0.); s.add_bracket(100,.25); s.add_bracket(200,.5)
g = np.array([0,50,100,150,200,300.])
net = g - s.calc(g)
print(net, s.inverse().calc(net), s.inverse().thresholds, s.inverse().rates)
# to_average and back
av = s.to_average(); print(av.thresholds, av.rates, av.calc(g), s.calc(g)); m = av.to_marginal(); print(m.thresholds, m.rates, m.calc(g))
s2 = ts.MarginalRateTaxScale(); s2.add_bracket(0,0.1); 
av = s2.to_average(); print(av.thresholds, av.rates, av.calc(g), s2.calc(g)); m = av.to_marginal(); print(m.thresholds, m.rates, m.calc(g))
s3 = ts.MarginalRateTaxScale(); s3.add_bracket(10,0.1); s3.add_bracket(20,0.3)
av = s3.to_average(); print(av.thresholds, av.rates, av.calc(g), s3.calc(g)); m = av.to_marginal(); print(m.thresholds, m.rates, m.calc(g))
# linear average beyond last
l = ts.LinearAverageRateTaxScale(); l.add_bracket(0,0.); l.add_bracket(100,.1); print(l.calc(np.array([-5,0,50,100,150.])))
# bracket indices at threshold
print(s.bracket_indices(g), s.marginal_rates(g), s.bracket_indices(np.array([-1.,0])))
