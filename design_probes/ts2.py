import numpy as np
from openfisca_core import taxscales as ts
g = np.array([0,5,10,15,20,50,100,150,200,300.])
def rt(s):
    try:
        av = s.to_average(); m = av.to_marginal()
        print("orig", s.thresholds, s.rates, "avg", av.thresholds, av.rates, "back", m.thresholds, m.rates)
        print("   ", s.calc(g), m.calc(g), np.allclose(s.calc(g), m.calc(g)))
    except Exception as ex: print("ERR", type(ex).__name__, ex)
s2 = ts.MarginalRateTaxScale(); s2.add_bracket(0,0.1); rt(s2)
s3 = ts.MarginalRateTaxScale(); s3.add_bracket(10,0.1); s3.add_bracket(20,0.3); rt(s3)
s4 = ts.MarginalRateTaxScale(); rt(s4)
l = ts.LinearAverageRateTaxScale(); l.add_bracket(0,0.); l.add_bracket(100,.1); print(l.calc(np.array([-5,0,50,100,150.])))
s = ts.MarginalRateTaxScale(); s.add_bracket(0,0.); s.add_bracket(100,.25); s.add_bracket(200,.5)
print(s.bracket_indices(g), s.marginal_rates(g), s.bracket_indices(np.array([-1.,0])), s.marginal_rates(np.array([-1.,0])))
# inverse with scale not starting at 0
try:
    print(s3.inverse().thresholds)
except Exception as ex: print("ERR inverse", type(ex).__name__, ex)
# multiply
m = s.multiply_thresholds(2, inplace=False); print(m.thresholds, s.thresholds, m.calc(2*g), 2*s.calc(g))
m = s.multiply_rates(2, inplace=False); print(m.rates, s.rates, m.calc(g), 2*s.calc(g))
c = s.copy(); c.add_bracket(300,.1); print(s.thresholds, c.thresholds)
# scale_tax_scales
m = s.scale_tax_scales(3); print(m.thresholds, s.thresholds)
# amounts
ma = ts.MarginalAmountTaxScale(); ma.add_bracket(0, 1); ma.add_bracket(10, 2); ma.add_bracket(20, 4)
print(ma.calc(np.array([-1,0,5,10,15,20,25.])))
sa = ts.SingleAmountTaxScale(); sa.add_bracket(0, 1); sa.add_bracket(10, 2); sa.add_bracket(20, 4)
print(sa.calc(np.array([-1,0,5,10,15,20,25.])), sa.calc(np.array([-1,0,5,10,15,20,25.]), right=True))
# insertion order, same threshold twice
o = ts.MarginalRateTaxScale(); o.add_bracket(200,.5); o.add_bracket(0,0.); o.add_bracket(100,.25); print(o.thresholds,o.rates)
# int vs float threshold equal
o.add_bracket(100.0, .1); print(o.thresholds, o.rates)
# calc with factor, round
print(s.calc(g, factor=2), s.calc(g, round_base_decimals=0))
# calc on int base array
print(s.calc(np.array([0,150,300])), s.calc(np.array([150], dtype=np.float32)))
