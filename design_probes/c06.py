import random, datetime, warnings, collections
warnings.simplefilter("ignore")
from openfisca_core import periods
from openfisca_core.parameters import Parameter, ParameterNode
R = random.Random(3); bad = []
base = datetime.date(2000,1,1).toordinal()
def ds(k): return datetime.date.fromordinal(base+k).isoformat()
for it in range(4000):
    n = R.randrange(0,6); ks = sorted(R.sample(range(0,60,3), n))
    data = {ds(k): {"value": R.choice([None, 1, 2, 3, 4.5])} for k in ks}
    if not data: data = {ds(30): {"value": 1}}; ks=[30]
    if R.random()<.2: data[ds(61)] = "expected"
    p = Parameter("p", {"values": data} if R.random()<.5 else data)
    def snap(): return [p(ds(k)) for k in range(-2, 70)]
    for _ in range(R.randrange(1,4)):
        before = snap()
        a = R.randrange(-1, 66); b = R.randrange(a, 68); v = R.choice([None, 10, 20, 30.5]); mode = R.choice("pso")
        if mode == "p":
            per = periods.period(f"day:{ds(a)}:{b-a+1}"); p.update(period=per, value=v)
        elif mode == "s": p.update(start=periods.instant(ds(a)), stop=periods.instant(ds(b)), value=v)
        else: p.update(start=periods.instant(ds(a)), value=v); b = 10**6
        after = snap()
        for i,k in enumerate(range(-2,70)):
            exp = v if a <= k <= b else before[i]
            if after[i] != exp: bad.append((data, mode, a, b, v, k, before[i], after[i])); break
        dates = [x.instant_str for x in p.values_list]
        if dates != sorted(set(dates), reverse=True): bad.append(("order", dates))
print(len(bad), bad[:3])
