"""Trial of the planned repairs (DESIGN.md section 8) on a SCRATCH COPY of the repo.

Usage (never on /repo itself; the real repairs are separate `fix:` commits):

    rsync -a --exclude .git /repo/ /root/scratch_repo/
    cd /root/scratch_repo && python3 /verif/design_probes/trial_repairs.py
    PYTHONPATH=/root/scratch_repo /venv/bin/python -m pytest -q -p no:cacheprovider
    rm -rf /root/scratch_repo

Result when DESIGN.md was written: 440 passed (the 4 baseline always_fail tests fail
as in the baseline), and the probes c02/c03/c12/c12b/c13/c14b/c15/c16/c19/c20/ts2 and
yt/t1.yaml (5 failed = the five WRONG expectations, 8 passed) show the repaired
behaviour.  Not yet trialled: F13 (disk stores), F15 (foreign enum members).
"""

import pathlib


def patch(path, old, new, count=1):
    p = pathlib.Path(path)
    s = p.read_text()
    assert s.count(old) >= 1, (path, old[:40])
    p.write_text(s.replace(old, new, count))


# F7 bincount minlength
patch(
    "openfisca_core/populations/group_population.py",
    "return numpy.bincount(self.members_entity_id, weights=array)",
    "return numpy.bincount(\n            self.members_entity_id, weights=array, minlength=self.count\n        )",
)
patch(
    "openfisca_core/populations/group_population.py",
    "return numpy.bincount(self.members_entity_id)",
    "return numpy.bincount(self.members_entity_id, minlength=self.count)",
)

# F14 TaxBenefitSystem.clone copies and re-binds its own entities
patch(
    "openfisca_core/taxbenefitsystems/tax_benefit_system.py",
    """        for entity in new_dict["entities"]:
            entity.set_tax_benefit_system(new)
""",
    """        new_dict["entities"] = [copy.copy(entity) for entity in self.entities]
        new_dict["person_entity"] = next(
            entity for entity in new_dict["entities"] if entity.is_person
        )
        new_dict["group_entities"] = [
            entity for entity in new_dict["entities"] if not entity.is_person
        ]
        for entity in new_dict["entities"]:
            entity.set_tax_benefit_system(new)
""",
)

# F4 per-instance at-instant cache, dropped when the parameter root changes
patch(
    "openfisca_core/taxbenefitsystems/tax_benefit_system.py",
    "    @functools.lru_cache\n    def get_parameters_at_instant(",
    "    def get_parameters_at_instant(",
)
patch(
    "openfisca_core/taxbenefitsystems/tax_benefit_system.py",
    """        if self.parameters is None:
            return None

        return self.parameters.get_at_instant(key)
""",
    """        if self.parameters is None:
            return None

        # The cache is only valid for the parameter tree it was built from.
        cache = self.__dict__.get("_parameters_at_instant_cache")
        if cache is None or self.__dict__.get("_cached_parameters") is not self.parameters:
            cache = self._parameters_at_instant_cache = {}
            self._cached_parameters = self.parameters

        parameters_at_instant = cache.get(key)
        if parameters_at_instant is None:
            parameters_at_instant = self.parameters.get_at_instant(key)
            cache[key] = parameters_at_instant

        return parameters_at_instant
""",
)

# F13 clone owns its stores; group holders / members bound to the clone (memory part)
patch(
    "openfisca_core/holders/holder.py",
    """        new_dict["population"] = population
        new_dict["simulation"] = population.simulation
""",
    """        new_dict["population"] = population
        new_dict["simulation"] = population.simulation

        # The clone owns its values: writes and deletions must not be shared.
        new_dict["_memory_storage"] = storage.InMemoryStorage(is_eternal=self._eternal)
        new_dict["_memory_storage"]._arrays = dict(self._memory_storage._arrays)
""",
)
patch(
    "openfisca_core/populations/group_population.py",
    "result = GroupPopulation(self.entity, self.members)",
    "result = GroupPopulation(self.entity, simulation.persons)",
)
patch(
    "openfisca_core/populations/group_population.py",
    "variable: holder.clone(self) for (variable, holder) in self._holders.items()",
    "variable: holder.clone(result)\n            for (variable, holder) in self._holders.items()",
)

# F16 dispatch rule gives every unknown tile the input value
patch(
    "openfisca_core/holders/helpers.py",
    """        if existing_array is None:
            holder._set(sub_period, array)
        else:
            # The array of the current sub-period is reused for the next ones.
            # TODO: refactor or document this behavior
            array = existing_array
""",
    """        if existing_array is None:
            holder._set(sub_period, array)
""",
)

# F10 integer amounts
patch(
    "openfisca_core/holders/helpers.py",
    """    if not isinstance(array, numpy.ndarray):
        array = numpy.array(array)
    period_size = period.size""",
    """    array = holder._to_array(array)
    period_size = period.size""",
)

# F8 buffer looked up under the canonical period text
patch(
    "openfisca_core/simulations/simulation_builder.py",
    "array = self.get_input(variable.name, str(period_str))\n",
    "array = self.get_input(variable.name, str(periods.period(period_str)))\n",
)

# F9 numeric flush order
patch(
    "openfisca_core/simulations/simulation_builder.py",
    "sorted_periods = sorted(unsorted_periods, key=periods.key_period_size)",
    "sorted_periods = sorted(\n                unsorted_periods,\n                key=lambda period: (periods.unit_weight(period.unit), period.size),\n            )",
)

# F15 negative indices (foreign members: still to do)
patch(
    "openfisca_core/indexed_enums/_utils.py",
    "return values[values < indices.size].astype(t.EnumDType)",
    "return values[(values >= 0) & (values < indices.size)].astype(t.EnumDType)",
)

# F1 reading a tainted entry taints the readers
patch(
    "openfisca_core/simulations/simulation.py",
    """        if cached_array is not None:
            return cached_array
""",
    """        if cached_array is not None:
            # A value tainted by a spiral taints whatever is derived from it.
            if Cache(variable_name, period) in self.invalidated_caches:
                for frame in self.tracer.stack:
                    self.invalidate_cache_entry(str(frame["name"]), frame["period"])
            return cached_array
""",
)

# F2 ADD over eternity
patch(
    "openfisca_core/simulations/simulation.py",
    """        if variable.definition_period not in (
            periods.DateUnit.isoformat + periods.DateUnit.isocalendar
        ):
            msg = (
                f"Unable to ADD constant variable '{variable.name}' over \"""",
    """        if period.unit == periods.DateUnit.ETERNITY:
            msg = (
                f"Unable to ADD variable '{variable.name}' over the period "
                f"{period}: a variable can't be summed over eternity."
            )
            raise ValueError(
                msg,
            )

        if variable.definition_period not in (
            periods.DateUnit.isoformat + periods.DateUnit.isocalendar
        ):
            msg = (
                f"Unable to ADD constant variable '{variable.name}' over \"""",
)

# F3 unit check for every definition period
patch(
    "openfisca_core/simulations/simulation.py",
    """        if period.size != 1:
            msg = f"Unable to compute variable '{variable.name}' for period {period}: '{variable.name}' must be computed for a whole {variable.definition_period}.""",
    """        if variable.definition_period != period.unit:
            msg = f"Unable to compute variable '{variable.name}' for period {period}: '{variable.name}' must be computed for a whole {variable.definition_period}."
            raise ValueError(
                msg,
            )

        if period.size != 1:
            msg = f"Unable to compute variable '{variable.name}' for period {period}: '{variable.name}' must be computed for a whole {variable.definition_period}.""",
)

# F19 Variable.clone keeps the baseline variable
patch(
    "openfisca_core/variables/variable.py",
    "        return self.__class__()\n",
    "        return self.__class__(baseline_variable=self.baseline_variable)\n",
)

# F5 combine_bracket below the lowest threshold
patch(
    "openfisca_core/taxscales/marginal_rate_tax_scale.py",
    """            index = bisect.bisect_right(self.thresholds, threshold_low) - 1
            self.add_bracket(threshold_low, self.rates[index])""",
    """            index = bisect.bisect_right(self.thresholds, threshold_low) - 1
            self.add_bracket(threshold_low, self.rates[index] if index >= 0 else 0)""",
)

# F6 to_average: one-bracket scales, non-zero first threshold
patch(
    "openfisca_core/taxscales/marginal_rate_tax_scale.py",
    """            previous_rate = self.rates[0]

            for threshold, rate in""",
    """            previous_rate = self.rates[0]

            if previous_threshold != 0:
                average_tax_scale.add_bracket(previous_threshold, 0)

            for threshold, rate in""",
)
patch(
    "openfisca_core/taxscales/marginal_rate_tax_scale.py",
    'average_tax_scale.add_bracket(float("Inf"), rate)',
    'average_tax_scale.add_bracket(float("Inf"), self.rates[-1])',
)

# F11 variables-only shape: shortest periods first
patch(
    "openfisca_core/simulations/_build_from_variables.py",
    "from openfisca_core import errors\n",
    "from openfisca_core import errors, periods\n",
)
patch(
    "openfisca_core/simulations/_build_from_variables.py",
    "                for period, dated_value in dated_variable.items():\n",
    "                for period, dated_value in sorted(\n                    dated_variable.items(),\n                    key=lambda item: _period_length_key(item[0]),\n                ):\n",
)
patch(
    "openfisca_core/simulations/_build_from_variables.py",
    "def _person_count(params: Variables) -> int:",
    "def _period_length_key(period_like) -> tuple[int, int]:\n    period = periods.period(period_like)\n    return periods.unit_weight(period.unit), period.size\n\n\ndef _person_count(params: Variables) -> int:",
)

# F12 unknown entity next to known ones
patch(
    "openfisca_core/simulations/simulation_builder.py",
    "            return self.build_from_variables(tax_benefit_system, params)\n        return None\n",
    "            return self.build_from_variables(tax_benefit_system, params)\n\n        # Unknown entities are reported by ``build_from_entities``.\n        return self.build_from_entities(tax_benefit_system, input_dict)\n",
)

# F17 strings on disk
patch(
    "openfisca_core/data_storage/on_disk_storage.py",
    "        array: t.Array[t.DTypeGeneric] = numpy.load(file)\n",
    "        array: t.Array[t.DTypeGeneric] = numpy.load(file)\n\n        # Strings are stored as unicode (object arrays would need pickle).\n        if array.dtype.kind == \"U\":\n            array = array.astype(object)\n",
)
patch(
    "openfisca_core/data_storage/on_disk_storage.py",
    "        numpy.save(path, value)\n",
    "        if value.dtype == object:\n            value = value.astype(str)\n        numpy.save(path, value)\n",
)

# F18 restore: counts from the stored id arrays
patch(
    "openfisca_core/tools/simulation_dumper.py",
    """    population.ids = numpy.load(os.path.join(path, "id.npy"))

    if population.entity.is_person:""",
    """    population.ids = numpy.load(os.path.join(path, "id.npy"))
    population.count = len(population.ids)

    if population.entity.is_person:""",
)
patch(
    "openfisca_core/tools/simulation_dumper.py",
    "    population.count = max(population.members_entity_id) + 1\n",
    "",
)
patch(
    "openfisca_core/tools/simulation_dumper.py",
    "        _restore_entity(population, entities_dump_dir)\n        population.count = person_count\n",
    "        _restore_entity(population, entities_dump_dir)\n",
)

# F21 YAML runner: keep the array type when selecting an instance
patch(
    "openfisca_core/tools/test_runner.py",
    "            actual_value = actual_value[entity_index]\n",
    "            # Slicing keeps the array type (e.g. EnumArray) of the selection.\n            actual_value = actual_value[entity_index : entity_index + 1]\n",
)

# F22 dates rendered as ISO text
patch("openfisca_web_api/handlers.py", "import dpath\n", "import datetime\n\nimport dpath\n")
patch(
    "openfisca_web_api/handlers.py",
    "        elif variable.value_type == str:\n",
    "        elif variable.value_type == datetime.date:\n            entity_result = str(result[entity_index])\n        elif variable.value_type == str:\n",
)
patch(
    "openfisca_core/tracers/flat_trace.py",
    "        if isinstance(value, numpy.ndarray):\n            return value.tolist()\n",
    "        if isinstance(value, numpy.ndarray) and numpy.issubdtype(\n            value.dtype,\n            numpy.datetime64,\n        ):\n            return value.astype(numpy.dtype(str)).tolist()\n\n        if isinstance(value, numpy.ndarray):\n            return value.tolist()\n",
)

print("patched")
