import numpy as np, warnings, tempfile, os, datetime
warnings.simplefilter("ignore")
from openfisca_core import periods, holders
from openfisca_core.entities import build_entity
from openfisca_core.periods import DateUnit
from openfisca_core.simulations import SimulationBuilder
from openfisca_core.taxbenefitsystems import TaxBenefitSystem
from openfisca_core.variables import Variable
from openfisca_core.reforms import Reform
Person = build_entity(key="person", plural="persons", label="", is_person=True)
House = build_entity(key="house", plural="houses", label="", roles=[{"key":"adult","plural":"adults","max":2},{"key":"child","plural":"children"}])
class x(Variable):
    value_type=int; entity=Person; definition_period=DateUnit.MONTH
class y(Variable):
    value_type=int; entity=Person; definition_period=DateUnit.MONTH
    def formula(p, period): return p("x", period) * 2
class hx(Variable):
    value_type=int; entity=House; definition_period=DateUnit.MONTH
class hy(Variable):
    value_type=int; entity=House; definition_period=DateUnit.MONTH
    def formula(h, period, parameters): return h("hx", period) + h.sum(h.members("y", period)) + parameters(period).p
def mk():
    tbs = TaxBenefitSystem([Person, House]); tbs.add_variables(x,y,hx,hy)
    from openfisca_core.parameters import ParameterNode
    tbs.parameters = ParameterNode("", data={"p": {"values": {"2000-01-01": {"value": 1}, "2020-01-01": {"value": 5}}}})
    return tbs
tbs = mk()
def sim(tb=tbs):
    return SimulationBuilder().build_from_dict(tb, {"persons": {"a": {"x": {"2018-01": 1}}, "b": {"x": {"2018-01": 2}}}, "houses": {"h": {"adults": ["a","b"], "hx": {"2018-01": 10}}}})
print("=== C13")
s = sim(); s.calculate("y", "2018-01")
c = s.clone()
print("holder sim/pop identity person:", c.person.get_holder("x").simulation is c, c.person.get_holder("x").population is c.person)
print("holder sim/pop identity house:", c.house.get_holder("hx").simulation is c, c.house.get_holder("hx").population is c.house)
c.set_input("x", "2018-02", [7, 8]); print("orig sees clone input:", s.get_array("x", "2018-02"))
c.delete_arrays("y"); print("orig y after clone delete:", s.get_array("y", "2018-01"))
c.delete_arrays("x", "2018-01"); print("orig x after clone delete period:", s.get_array("x", "2018-01"))
c.set_input("hx", "2018-02", [99]); print("orig hx:", s.get_array("hx", "2018-02"))
c.calculate("hy", "2018-01"); print("orig hy known:", s.get_known_periods("hy"))
print("members share:", c.house.members is c.person, c.house.members is s.person)
print("=== C14 clone")
base = mk()
s0 = sim(base); r0 = s0.calculate("hy","2018-01"); print("base before", r0)
cl = base.clone()
print("entity shared:", cl.person_entity is base.person_entity, base.person_entity._tax_benefit_system is base, base.person_entity._tax_benefit_system is cl)
cl.neutralize_variable("y")
class z(Variable):
    value_type=int; entity=Person; definition_period=DateUnit.MONTH
cl.add_variable(z)
class y2(Variable):
    value_type=int; entity=Person; definition_period=DateUnit.MONTH
    def formula(p, period): return p("x", period) * 100
y2.__name__ = "y"
cl.replace_variable(y2) if False else None
s1 = sim(base); 
try: print("base after", s1.calculate("hy","2018-01"), s1.calculate("y","2018-01"))
except Exception as e: print("base after ERR", type(e).__name__, str(e)[:100])
print("base has z:", base.get_variable("z"), "entity resolves z:", base.person_entity.get_variable("z"))
print("=== C14 reform")
base = mk()
class R(Reform):
    def apply(self):
        self.neutralize_variable("y")
        def mod(p): p.p.update(start=periods.instant("2010-01-01"), value=1000); return p
        self.modify_parameters(mod)
r = R(base)
print("base", sim(base).calculate("hy","2018-01"), "reform", sim(r).calculate("hy","2018-01"), "base again", sim(base).calculate("hy","2018-01"))
print("=== C07")
base = mk()
print(base.get_parameters_at_instant("2018-01-01").p, base.parameters.p("2018-01-01"))
base.parameters.p.update(start=periods.instant("2010-01-01"), value=42)
print("after in-place update:", base.get_parameters_at_instant("2018-01-01").p, base.parameters.p("2018-01-01"))
class R2(Reform):
    def apply(self):
        print("  in apply before:", self.get_parameters_at_instant("2018-01-01").p)
        def mod(p): p.p.update(start=periods.instant("2010-01-01"), value=1000); return p
        self.modify_parameters(mod)
        print("  in apply after:", self.get_parameters_at_instant("2018-01-01").p, self.parameters.p("2018-01-01"))
base = mk(); r2 = R2(base); print("reform view:", r2.get_parameters_at_instant("2018-01-01").p, "direct:", r2.parameters.p("2018-01-01"), "calc:", sim(r2).calculate("hy","2018-01"))
import yaml
d = tempfile.mkdtemp(); open(os.path.join(d,"p.yaml"),"w").write("values:\n  2000-01-01:\n    value: 3\n")
base = mk(); print(base.get_parameters_at_instant("2018-01-01").p); base.load_parameters(d); print("after load:", base.get_parameters_at_instant("2018-01-01").p, base.parameters.p("2018-01-01"))
