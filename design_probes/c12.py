import numpy as np, warnings
warnings.simplefilter("ignore")
from openfisca_country_template import CountryTaxBenefitSystem
from openfisca_core.simulations import SimulationBuilder
tbs = CountryTaxBenefitSystem()
def build(d):
    return SimulationBuilder().build_from_dict(tbs, d)
# 1 spelling
s = build({"persons": {"a": {"salary": {"month:2018-01": 100}}, "b": {"salary": {"month:2018-01": 200}}}, "households": {"h": {"adults": ["a","b"]}}})
print("spelling:", s.get_array("salary", "2018-01"))
s = build({"persons": {"a": {"salary": {"2018-01": 100}}, "b": {"salary": {"2018-01": 200}}}, "households": {"h": {"adults": ["a","b"]}}})
print("canonical:", s.get_array("salary", "2018-01"))
s = build({"persons": {"a": {"birth": {"eternity": "1980-01-01"}}, "b": {"birth": {"eternity": "1990-01-01"}}}})
print("eternity:", s.get_array("birth", "eternity"))
# 2 sorting sizes
try:
    s = build({"persons": {"a": {"salary": {"month:2018-01:10": 10000, "month:2018-01:2": 500}}}})
    print([float(s.get_array("salary", f"2018-{m:02d}")[0]) for m in range(1,11)])
except Exception as e: print("ERR", type(e).__name__, str(e)[:80])
try:
    s = build({"persons": {"a": {"salary": {"month:2018-01:9": 9000, "month:2018-01:2": 500}}}})
    print([float(s.get_array("salary", f"2018-{m:02d}")[0]) for m in range(1,10)])
except Exception as e: print("ERR", type(e).__name__, str(e)[:80])
# 3 empty group
s = build({"persons": {"a": {"salary": {"2018-01": 100}}, "b": {"salary": {"2018-01": 200}}}, "households": {"h1": {"adults": ["a","b"]}, "h2": {}}})
hh = s.household
sal = s.calculate("salary","2018-01")
print("count", hh.count, hh.ids, hh.members_entity_id)
for name, f in [("sum", lambda: hh.sum(sal)), ("nb", lambda: hh.nb_persons()), ("max", lambda: hh.max(sal)), ("any", lambda: hh.any(sal>0)), ("all", lambda: hh.all(sal>0)), ("min", lambda: hh.min(sal)), ("nth", lambda: hh.value_nth_person(0, sal)), ("sumrole", lambda: hh.sum(sal, role=hh.entity.flattened_roles[0])),("vfp", lambda: hh.value_from_first_person(sal))]:
    try: print(name, f())
    except Exception as e: print(name, "ERR", type(e).__name__, str(e)[:80])
try:
    print(s.calculate("total_taxes", "2018-01"))
except Exception as e: print("calc ERR", type(e).__name__, str(e)[:100])
# empty group in the middle
s = build({"persons": {"a": {}, "b": {}}, "households": {"h1": {"adults": ["a"]}, "h2": {}, "h3": {"adults":["b"]}}})
hh = s.household; sal = np.array([1.,2.])
print(hh.sum(sal), hh.nb_persons(), hh.max(sal), hh.min(sal), hh.all(sal>0), hh.value_nth_person(0, sal))
