import numpy as np, warnings
warnings.simplefilter("ignore")
from openfisca_country_template import CountryTaxBenefitSystem
from openfisca_core.simulations import SimulationBuilder
tbs = CountryTaxBenefitSystem()
A = {"persons": {"a1": {"salary": {"2018-01": 3000}, "birth": {"ETERNITY": "1980-01-01"}}, "a2": {"salary": {"2018-01": 500}}}, "households": {"ha": {"adults": ["a1"], "children": ["a2"], "rent": {"2018-01": 300}}}}
B = {"persons": {"b1": {"salary": {"2018-01": 1000}}}, "households": {"hb": {"adults": ["b1"], "housing_occupancy_status": {"2018-01": "owner"}}}}
M = {"persons": {"b1": B["persons"]["b1"], "a2": A["persons"]["a2"], "a1": A["persons"]["a1"]}, "households": {"hb": B["households"]["hb"], "ha": A["households"]["ha"]}}
def run(d, vars_):
    s = SimulationBuilder().build_from_dict(tbs, d); out = {}
    for v, p in vars_:
        r = s.calculate(v, p); pop = s.get_variable_population(v)
        out[v] = dict(zip(list(pop.ids), r.tolist()))
    return out
V = [("income_tax","2018-01"),("disposable_income","2018-01"),("housing_allowance","2018-01"),("total_benefits","2018-01"),("total_taxes","2018-01"),("age","2018-01"),("basic_income","2018-01"),("housing_tax","2018")]
ra, rb, rm = run(A,V), run(B,V), run(M,V)
for v,_ in V:
    sep = {**ra[v], **rb[v]}
    print(v, "OK" if sep == rm[v] else ("DIFF", sep, rm[v]))
