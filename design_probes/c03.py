import numpy as np, warnings, itertools
warnings.simplefilter("ignore")
from openfisca_core import periods
from openfisca_core.entities import build_entity
from openfisca_core.periods import DateUnit, Period, Instant
from openfisca_core.simulations import SimulationBuilder
from openfisca_core.taxbenefitsystems import TaxBenefitSystem
from openfisca_core.variables import Variable
from openfisca_core.reforms import Reform
from openfisca_core import populations
Person = build_entity(key="person", plural="persons", label="", is_person=True)
vs = {}
for u in DateUnit:
    def formula(p, period, u=u):
        s = period.start
        return p.filled_array(s.year*10000 + s.month*100 + s.day)
    vs[u] = type(f"v_{u.value}", (Variable,), {"value_type": float, "entity": Person, "definition_period": u, "formula": formula})
tbs = TaxBenefitSystem([Person]); tbs.add_variables(*vs.values())
s = SimulationBuilder().build_default_simulation(tbs, count=1)
reqs = ["2018", "year:2018-03", "year:2018:2", "2018-02", "month:2018-01:3", "2018-02-10", "day:2018-02-10:3", "2018-W05", "week:2018-W05:2", "2018-W05-3", "weekday:2018-W05-3:2", "ETERNITY", "2020-02", "2020"]
print("%-22s" % "req", *["%-9s" % u.value for u in DateUnit])
for mode in ("plain", "ADD", "DIV"):
    print("--", mode)
    for r in reqs:
        row = []
        for u in DateUnit:
            name = f"v_{u.value}"
            try:
                if mode == "plain": x = s.calculate(name, r)
                elif mode == "ADD": x = s.calculate_add(name, r)
                else: x = s.calculate_divide(name, r)
                row.append("ok")
            except Exception as e:
                row.append("E:" + type(e).__name__[:6])
        print("%-22s" % r, *["%-9s" % x for x in row])
print(s.calculate_add("v_year", "year:2018-03"), s.calculate("v_year", "year:2018-03"))
print(s.calculate_add("v_month", "month:2018-01-15:2"), [str(p) for p in periods.period("month:2018-01-15:2").get_subperiods(DateUnit.MONTH)])
print(s.calculate_divide("v_year", "2020-02-03"), s.calculate_divide("v_month", "2020-02-03"), s.calculate_divide("v_week", "2020-W03-2"))
p = s.persons
for opt in ([populations.ADD, populations.DIVIDE], ["LAGRANGIAN"], "add", [populations.ADD], None, []):
    try: print(opt, p("v_month", "2018", opt))
    except Exception as e: print(opt, "ERR", type(e).__name__)
