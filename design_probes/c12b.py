import numpy as np, warnings
warnings.simplefilter("ignore")
from openfisca_country_template import CountryTaxBenefitSystem
from openfisca_core.simulations import SimulationBuilder
tbs = CountryTaxBenefitSystem()
def build(d):
    return SimulationBuilder().build_from_dict(tbs, d)
for d in [{"salary": {"2018": 12000, "2018-01": 500}}, {"salary": {"2018-01": 500, "2018": 12000}}, {"salary": {"2018-01": [500, 100], "2018": [12000, 2400]}},
          {"persons": {"a": {"salary": {"2018": 12000, "2018-01": 500}}}}]:
    try:
        s = build(d); print([s.get_array("salary", f"2018-{m:02d}").tolist() for m in (1,2,12)], s.persons.count, s.household.count)
    except Exception as e: print("ERR", type(e).__name__, str(e)[:80])
# error kinds
import openfisca_core.errors as E
bad = [
 {"persons": {"a": {"salary": {"2018-01": "abc"}}}},
 {"persons": {"a": {"salary": {"2018-13": 1}}}},
 {"persons": {"a": {"salary": {"2018": 1}}, "b": {}}, "households": {"h": {"adults": ["a","a"]}}},
 {"persons": {"a": {}}, "households": {"h": {"adults": ["a","zz"]}}},
 {"persons": {"a": {}, "b":{}, "c":{}}, "households": {"h": {"adults": ["a","b","c"]}}},
 {"persons": {"a": {"nonexistent": {"2018-01": 1}}}},
 {"persons": {"a": {"housing_tax": {"2018": 1}}}},
 {"persons": {"a": {"birth": {"ETERNITY": "1980-02-30"}}}},
 {"persons": {"a": {"age": {"2018": 1}}}},
 {"persons": {"a": {"age": {"2018-01": 1.5}}}},
 {"persons": {"a": {"age": {"2018-01": "1+1"}}}},
 {"persons": {"a": {"age": {"2018-01": True}}}},
 {"persons": {"a": {"age": {"2018-01": [1]}}}},
 {"persons": {"a": {"age": {"2018-01": 2**40}}}},
 {"persons": {"a": {"salary": {"2018-01": {"x":1}}}}},
 {"persons": {"a": {}}, "households": {"h": {"adults": ["a"], "housing_occupancy_status": {"2018-01": "nope"}}}},
 {"persons": {"a": {}}, "households": {"h": {"adults": ["a"], "housing_occupancy_status": {"2018-01": 7}}}},
 {"persons": {"a": {}}, "households": {"h": {"adults": ["a"], "housing_occupancy_status": {"2018-01": "owner"}}}},
 {"persons": {"a": {}}, "families": {}},
 {"persons": {"a": {"salary": {"ETERNITY": 5}}}},
 {"persons": {"a": {"birth": {"2018-01": "1980-01-01"}}}},
 {"persons": {"a": {"salary": {"2018-W01": 5}}}},
 {"persons": {"a": {"salary": 5}}},
]
for d in bad:
    try:
        s = build(d); 
        out = {}
        for pop in s.populations.values():
            for v,h in pop._holders.items():
                out[v] = {str(p): h.get_array(p).tolist() for p in h.get_known_periods()}
        print("OK ", str(d)[:90], "->", str(out)[:100])
    except E.SituationParsingError as e: print("SPE", str(d)[:90], str(e.error)[:70])
    except Exception as e: print("ERR", type(e).__name__, str(d)[:90], str(e)[:70])
