import numpy as np
from openfisca_core.indexed_enums import Enum
class H(Enum):
    OWNER="o"; TENANT="t"; FREE="f"
class G(Enum):
    A="a"; B="b"; C="c"; D="d"; E="e"
def t(label, x):
    try:
        r = H.encode(x); 
        try: d = r.decode().tolist()
        except Exception as e: d = "DECODE-ERR %s" % type(e).__name__
        print(label, "->", r.view(np.ndarray).tolist(), d)
    except Exception as e: print(label, "ERR", type(e).__name__)
t("neg list", [-1, 0]); t("neg arr", np.array([-1,0])); t("neg int8", np.array([-1,0],dtype=np.int8)); t("high", [3]); t("high arr", np.array([300]))
t("other enum list", [G.A, G.E]); t("other enum arr", np.array([G.A, G.E])); t("mixed enum arr", np.array([H.OWNER, G.E])); t("mixed enum list", [H.OWNER, G.E])
t("names", ["TENANT","OWNER"]); t("names arr", np.array(["FREE","OWNER"])); t("bad name", ["TENANT","X"]); t("bool", [True, False]); t("mixed", [1, "TENANT"]); t("empty", []); t("float", [1.0]); t("obj str", np.array(["TENANT"], dtype=object))
t("uint64 big", np.array([2**63], dtype=np.uint64)); t("2d", np.array([[0,1],[1,2]])); t("tuple", (0,1)); t("str scalar", "TENANT"); t("none", [None])
t("lower", ["tenant"]); t("prefix", ["TEN"]); t("values", ["t"])
e = H.encode([0,1,2]); print(H.encode(e) is e, G.encode(e) is e)
