import numpy as np, warnings
warnings.simplefilter("ignore")
from openfisca_core import periods
from openfisca_core.entities import build_entity
from openfisca_core.periods import DateUnit
from openfisca_core.simulations import SimulationBuilder
from openfisca_core.taxbenefitsystems import TaxBenefitSystem
from openfisca_core.variables import Variable
from openfisca_core.reforms import Reform
Person = build_entity(key="person", plural="persons", label="", is_person=True)
class x(Variable):
    value_type=int; entity=Person; definition_period=DateUnit.MONTH; default_value=3; label="lbl"
    def formula_2010(p, period): return p.filled_array(2010)
    def formula_2015(p, period): return p.filled_array(2015)
def mk():
    tbs = TaxBenefitSystem([Person]); tbs.add_variables(x); return tbs
def X():
    class x(Variable):
        def formula_2018(p, period): return p.filled_array(period.start.month)
    return x
def vals(tb):
    s = SimulationBuilder().build_default_simulation(tb, 1)
    return [int(s.calculate("x", p)[0]) for p in ("2009-01","2012-03","2016-03","2019-03","2019-01")]
class R1(Reform):
    def apply(self): self.update_variable(X())
class R2(Reform):
    def apply(self): self.update_variable(X()); self.annualize_variable("x")
class R3(Reform):
    def apply(self): self.update_variable(X()); self.neutralize_variable("x")
class R4(Reform):
    def apply(self): self.annualize_variable("x")
base = mk(); print("base", vals(base))
for R in (R1,R2,R3,R4):
    try: r = R(base); print(R.__name__, vals(r), r.get_variable("x").label, r.get_variable("x").default_value)
    except Exception as e: print(R.__name__, "ERR", type(e).__name__, str(e)[:80])
print("base after", vals(base))
# chained
class R5(Reform):
    def apply(self): self.neutralize_variable("x")
try:
    r = R5(R1(base)); print("R5(R1)", vals(r))
except Exception as e: print("R5(R1) ERR", type(e).__name__, str(e)[:60])
print("base after", vals(base))
# C18 sanity
class a(Variable):
    value_type=int; entity=Person; definition_period=DateUnit.MONTH
    def formula(p, period): return p("b", period) + p("c", period)
class b(Variable):
    value_type=int; entity=Person; definition_period=DateUnit.MONTH
    def formula(p, period): return p.filled_array(5)
class c(Variable):
    value_type=int; entity=Person; definition_period=DateUnit.MONTH
    def formula(p, period):
        if FAIL[0]: raise RuntimeError("boom")
        return p("b", period.last_month) + 1
FAIL=[True]
tb = TaxBenefitSystem([Person]); tb.add_variables(a,b,c)
for tr in (False, True):
    s = SimulationBuilder().build_default_simulation(tb, 1); s.trace = tr
    FAIL[0]=True
    try: s.calculate("a","2018-01")
    except Exception as e: print("raised", type(e).__name__)
    print("stack", s.tracer.stack, {v: [str(p) for p in s.get_known_periods(v)] for v in "abc"}, getattr(s.tracer, "_current_node", "n/a"))
    FAIL[0]=False
    print(s.calculate("a","2018-01"), s.tracer.stack)
