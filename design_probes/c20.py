import json, warnings
warnings.simplefilter("ignore")
from openfisca_country_template import CountryTaxBenefitSystem
from openfisca_web_api.app import create_app
tbs = CountryTaxBenefitSystem()
app = create_app(tbs).test_client()
def post(path, d):
    r = app.post(path, data=json.dumps(d), content_type="application/json"); return r.status_code, json.loads(r.data)
d = {"persons": {"a": {"birth": {"ETERNITY": None}, "salary": {"2018-01": 1234.56, "2018-02": None}, "age": {"2018-01": None}, "income_tax": {"2018-01": None}}, "b": {"birth": {"ETERNITY": "1990-03-04"}, "age": {"2018-01": None}}},
     "households": {"h": {"adults": ["a", "b"], "housing_occupancy_status": {"2018-01": None}, "housing_tax": {"2018": None}, "accommodation_size": {"2018-01": 77}}}}
print(post("/calculate", d))
code, t = post("/trace", d); print(code, list(t["trace"].items())[:3], t["requestedCalculations"])
print(post("/calculate", {"persons": {"a": {"salary": {"month:2018-01": 100, "2018-01": None}}}}))
print(post("/calculate", {"persons": {"a": {"salary": {"2018": None}}}}))
print(post("/calculate", {"persons": {"a": {"salary": {"2018-01": None}}}, "households": {"h": {"adults": ["a"]}, "h2": {}}}))
