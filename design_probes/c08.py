import random, itertools, numpy as np, warnings
warnings.simplefilter("ignore")
from openfisca_core import taxscales as ts
R = random.Random(4); bad = []
def rnd_scale(cls, val):
    n = R.randrange(1,7); th = sorted(R.sample([0, 0, 8, 16, 24, 32, 64, 100, 128, -16, -8], n)); th = sorted(set(th))
    br = [(t, val()) for t in th]; s = cls(); order = br[:]; R.shuffle(order)
    for t, v in order: s.add_bracket(t, v)
    return s, br
rate = lambda: R.choice([0, .125, .25, .5, .75, 1.0]); amt = lambda: R.choice([0, 1, 2, 4, 7.5])
for it in range(3000):
    bases = np.array([R.choice([-20,-16,-8,-1,0,0.5,4,8,12,16,24,31.75,32,64,100,128,200]) for _ in range(6)], dtype=float)
    s, br = rnd_scale(ts.MarginalRateTaxScale, rate)
    if s.thresholds != [t for t,_ in br] or s.rates != [r for _,r in br]: bad.append(("order", br, s.thresholds, s.rates))
    exp = [sum(r*max(0, min(b, (br[i+1][0] if i+1<len(br) else float("inf"))) - t) for i,(t,r) in enumerate(br)) for b in bases]
    got = s.calc(bases)
    if not np.allclose(got, exp, rtol=1e-9, atol=1e-9): bad.append(("mr", br, bases.tolist(), got.tolist(), exp))
    one = [float(s.calc(np.array([b]))[0]) for b in bases]
    if not np.array_equal(np.array(one), got): bad.append(("vec", br))
    # bracket indices for bases >= first threshold (strictly inside or at with lower-bracket convention)
    idx = s.bracket_indices(bases)
    for b, i in zip(bases, idx):
        if b < br[0][0] or (b == br[0][0] and b != 0): continue
        e = max(k for k,(t,_) in enumerate(br) if (t < b) or (t == b and (t <= 0)))  # lower bracket at positive thresholds; eps shift moves negative thresholds down
        if i != e: bad.append(("idx", br, b, int(i), e))
    s, br = rnd_scale(ts.MarginalAmountTaxScale, amt); got = s.calc(bases); exp = [sum(a for t,a in br if t < b) for b in bases]
    if not np.allclose(got, exp): bad.append(("ma", br, bases.tolist(), got.tolist(), exp))
    s, br = rnd_scale(ts.SingleAmountTaxScale, amt); got = s.calc(bases)
    exp = []
    for b in bases:
        v = 0
        for i,(t,a) in enumerate(br):
            nx = br[i+1][0] if i+1 < len(br) else float("inf")
            if t <= b < nx: v = a
        exp.append(v)
    if not np.allclose(got, exp): bad.append(("sa", br, bases.tolist(), got.tolist(), exp))
    s, br = rnd_scale(ts.LinearAverageRateTaxScale, rate)
    if len(br) >= 2:
        got = s.calc(bases); 
        for b, g in zip(bases, got):
            if not (br[0][0] <= b < br[-1][0]): continue
            for i in range(len(br)-1):
                (t0,r0),(t1,r1) = br[i], br[i+1]
                if t0 <= b < t1:
                    e = b*(r0 + (b-t0)*(r1-r0)/(t1-t0))
                    if abs(g-e) > 1e-9: bad.append(("la", br, b, g, e))
import collections; print(len(bad), collections.Counter(b[0] for b in bad)); print(bad[:5])
