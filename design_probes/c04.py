import random, datetime, calendar, warnings
warnings.simplefilter("ignore")
from openfisca_core import periods
from openfisca_core.periods import Period, Instant, DateUnit as U
R = random.Random(1)
def D(i): return datetime.date(*i)
def addm(d, n):
    t = d.year*12 + d.month-1 + n; y, m = divmod(t, 12); m += 1
    return datetime.date(y, m, min(d.day, calendar.monthrange(y, m)[1]))
def end(u, s, n):  # exclusive end
    d = D(s)
    if u == U.YEAR: return addm(d, 12*n)
    if u == U.MONTH: return addm(d, n)
    if u == U.WEEK: return d + datetime.timedelta(7*n)
    return d + datetime.timedelta(n)
def days(p):
    a = D(p.start); b = end(p.unit, p.start, p.size); return a.toordinal(), b.toordinal()-1
bad = []
def chk(c, *info):
    if not c: bad.append(info)
dates = []
for y in (1999, 2000, 2001, 2004, 2015, 2016, 2020, 2021, 2100):
    for m, d in ((1,1),(1,4),(1,31),(2,28),(2,29),(3,1),(3,31),(4,30),(6,15),(12,28),(12,29),(12,30),(12,31)):
        try: datetime.date(y,m,d); dates.append((y,m,d))
        except ValueError: pass
for _ in range(300): 
    o = R.randrange(datetime.date(1900,1,1).toordinal(), datetime.date(2300,1,1).toordinal()); x = datetime.date.fromordinal(o); dates.append((x.year,x.month,x.day))
units = [U.YEAR, U.MONTH, U.DAY, U.WEEK, U.WEEKDAY]
for s in dates:
    for u in units:
        for n in (1,2,3,7,12,13,40):
            p = Period((u, Instant(s), n)); lo, hi = days(p)
            chk(D(p.stop).toordinal() == hi, "stop", p)
            chk(p.days == hi-lo+1, "days", p)
            if u in (U.YEAR, U.MONTH, U.DAY, U.WEEK, U.WEEKDAY): chk(p.size_in_days == hi-lo+1, "size_in_days", p, p.size_in_days, hi-lo+1)
            if u in (U.WEEK, U.WEEKDAY): chk(p.size_in_weekdays == hi-lo+1, "size_in_weekdays", p)
            # offset inverse
            for k in (1, 5, -3):
                q = p.offset(k).offset(-k)
                clip = u in (U.YEAR, U.MONTH) and s[2] > 28
                if not clip: chk(q == p, "offset", p, k, q)
            # subperiods
            for v in units:
                fam = (u, v) in {(U.YEAR,U.YEAR),(U.YEAR,U.MONTH),(U.YEAR,U.DAY),(U.MONTH,U.MONTH),(U.MONTH,U.DAY),(U.DAY,U.DAY),(U.WEEK,U.WEEK),(U.WEEK,U.WEEKDAY),(U.WEEKDAY,U.WEEKDAY)}
                if not fam: continue
                aligned = (v == U.YEAR and s[1:] == (1,1)) or (v == U.MONTH and s[2] == 1) or v in (U.DAY, U.WEEKDAY) or (v == U.WEEK and D(s).isoweekday() == 1)
                if not aligned or n > 13: continue
                sp = p.get_subperiods(v)
                cur = lo; ok = True
                for q in sp:
                    a, b = days(q)
                    ok &= (q.size == 1 and q.unit == v and a == cur); cur = b+1
                chk(ok and cur == hi+1, "subperiods", p, v, [str(q) for q in sp][:4])
    # named
    p = Period((U.DAY, Instant(s), 1)); d = D(s)
    chk(p.this_year == Period((U.YEAR, Instant((s[0],1,1)),1)), "this_year", p)
    chk(p.first_month == Period((U.MONTH, Instant((s[0],s[1],1)),1)), "first_month", p)
    lm = addm(datetime.date(s[0],s[1],1), -1); chk(p.last_month == Period((U.MONTH, Instant((lm.year,lm.month,1)),1)), "last_month", p)
    chk(p.last_year == Period((U.YEAR, Instant((s[0]-1,1,1)),1)), "last_year", p); chk(p.n_2 == Period((U.YEAR, Instant((s[0]-2,1,1)),1)), "n_2", p)
    mon = d - datetime.timedelta(d.isoweekday()-1); chk(p.first_week == Period((U.WEEK, Instant((mon.year,mon.month,mon.day)),1)), "first_week", p)
# contains / intersection
ps = [Period((u, Instant(R.choice(dates)), R.choice((1,2,3,12)))) for u in units for _ in range(40)]
for p in ps:
    for q in ps[:60]:
        a,b = days(p); c,d_ = days(q)
        chk(p.contains(q) == (a <= c and d_ <= b), "contains", p, q)
    for _ in range(6):
        x = R.choice(dates); y = R.choice(dates)
        if D(x) > D(y): x, y = y, x
        for (st, en) in ((Instant(x), Instant(y)), (None, Instant(y)), (Instant(x), None)):
            r = p.intersection(st, en); a,b = days(p)
            lo2 = max(a, D(st).toordinal()) if st else a; hi2 = min(b, D(en).toordinal()) if en else b
            if lo2 > hi2: chk(r is None, "inter-none", p, st, en, r)
            else:
                chk(r is not None and days(r) == (lo2, hi2), "inter", p, st, en, r)
print(len(bad)); 
import collections; print(collections.Counter(b[0] for b in bad)); print(bad[:8])
