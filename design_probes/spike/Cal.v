From Coq Require Import ZArith List Bool Lia ZifyBool.
Ltac Zify.zify_post_hook ::= Z.to_euclidean_division_equations.
Open Scope Z_scope.
Definition leap (y:Z) : bool := ((y mod 4 =? 0) && negb (y mod 100 =? 0)) || (y mod 400 =? 0).
Definition dim (y m:Z) : Z :=
  if m =? 2 then (if leap y then 29 else 28)
  else if (m =? 4) || (m =? 6) || (m =? 9) || (m =? 11) then 30 else 31.
Definition cum (m:Z) : Z := (* days before month m in a non-leap year *)
  if m =? 1 then 0 else if m =? 2 then 31 else if m =? 3 then 59 else if m =? 4 then 90 else if m =? 5 then 120
  else if m =? 6 then 151 else if m =? 7 then 181 else if m =? 8 then 212 else if m =? 9 then 243 else if m =? 10 then 273
  else if m =? 11 then 304 else 334.
Definition ybase (y:Z) : Z := 365*(y-1) + (y-1)/4 - (y-1)/100 + (y-1)/400.
Definition ord (y m d:Z) : Z := ybase y + cum m + (if (2 <? m) && leap y then 1 else 0) + d.
Definition valid (y m d:Z) : Prop := 1 <= m <= 12 /\ 1 <= d <= dim y m.
Definition next_day (y m d:Z) : Z*Z*Z :=
  if d <? dim y m then (y,m,d+1) else if m <? 12 then (y,m+1,1) else (y+1,1,1).
Lemma ybase_succ y : ybase (y+1) = ybase y + 365 + (if leap y then 1 else 0).
Proof. unfold ybase, leap. destruct (y mod 4 =? 0) eqn:E4; destruct (y mod 100 =? 0) eqn:E100; destruct (y mod 400 =? 0) eqn:E400; cbn [andb orb negb]; lia. Qed.
Lemma ord_next y m d : valid y m d -> let '(y',m',d') := next_day y m d in ord y' m' d' = ord y m d + 1.
Proof.
  intros [Hm Hd]. unfold next_day.
  destruct (d <? dim y m) eqn:E1; [unfold ord; lia|].
  destruct (m <? 12) eqn:E2.
  - assert (d = dim y m) by lia. subst d. unfold ord, dim, cum.
    assert (m=1\/m=2\/m=3\/m=4\/m=5\/m=6\/m=7\/m=8\/m=9\/m=10\/m=11) as Hc by lia.
    destruct (leap y); destruct Hc as [->|[->|[->|[->|[->|[->|[->|[->|[->|[->| ->]]]]]]]]]]; cbn; lia.
  - assert (m = 12) by lia. subst m. assert (d = 31) by (unfold dim in *; cbn in *; lia). subst d.
    unfold ord. rewrite ybase_succ. unfold cum. cbn. destruct (leap y); cbn; lia.
Qed.
Print Assumptions ord_next.
