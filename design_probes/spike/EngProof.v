From Coq Require Import ZArith List Bool Lia.
Import ListNotations.
Require Import Eng.
Open Scope Z_scope.

Section P.
Variable sy : sys.
Variable inp : list (key*Z).
Hypothesis Hr : ranked sy = true.

(* deps of variable v are < v *)
Lemma ranked_from_nth : forall s n i x, ranked_from n s = true -> nth_error s i = Some x ->
  match formula x with None => True | Some e => deps_below (n+i) e = true end.
Proof.
  induction s as [|y r IH]; intros n i x H Hn; [destruct i; discriminate|].
  cbn in H. apply andb_true_iff in H as [H1 H2]. destruct i as [|i]; cbn in Hn.
  - inversion Hn; subst. rewrite Nat.add_0_r. destruct (formula x); auto.
  - specialize (IH (S n) i x H2 Hn). replace (n + S i)%nat with (S n + i)%nat by lia. exact IH.
Qed.
Lemma ranked_nth : forall v x, nth_error sy v = Some x ->
  match formula x with None => True | Some e => deps_below v e = true end.
Proof. intros v x H. exact (ranked_from_nth sy 0 v x Hr H). Qed.

(* fuel irrelevance of den above the rank *)
Lemma eval_ext : forall (r1 r2 : nat -> Z -> res) n e p,
  deps_below n e = true -> (forall v q, (v < n)%nat -> r1 v q = r2 v q) -> eval r1 p e = eval r2 p e.
Proof.
  induction e as [z|v sh|a IHa b IHb|]; intros p Hd Hx; cbn in *; auto.
  - apply Hx. apply Nat.ltb_lt; exact Hd.
  - apply andb_true_iff in Hd as [Ha Hb]. rewrite (IHa p Ha Hx), (IHb p Hb Hx). reflexivity.
Qed.
Lemma den_fuel : forall v f1 f2 p, (v < f1)%nat -> (v < f2)%nat -> den f1 sy inp v p = den f2 sy inp v p.
Proof.
  induction v as [v IH] using lt_wf_ind. intros f1 f2 p H1 H2.
  destruct f1 as [|f1]; [lia|]. destruct f2 as [|f2]; [lia|]. cbn [den].
  destruct (nth_error sy v) as [x|] eqn:Ex; auto.
  destruct (lookup (v,p) inp); auto.
  pose proof (ranked_nth v x Ex) as Hd. destruct (formula x) as [e|]; auto.
  apply (eval_ext _ _ v e p Hd). intros w q Hw. apply IH; lia.
Qed.
Definition D (v:nat) (p:Z) : res := den (S v) sy inp v p.

Definition Inv (s:st) : Prop :=
  (forall k z, lookup k (cache s) = Some z -> D (fst k) (snd k) = Ok z) /\
  (forall k z, lookup k inp = Some z -> lookup k (cache s) = Some z) /\ invalid s = [].
Definition above (v:nat) (stk:list key) : Prop := forall k, In k stk -> (v < fst k)%nat.

Lemma prev_nil v stk : above v stk -> prev_periods v stk = [].
Proof.
  unfold prev_periods. induction stk as [|k r IH]; intro H; cbn; auto.
  assert (v < fst k)%nat by (apply H; left; auto). destruct (Nat.eqb_spec (fst k) v); [lia|].
  apply IH. intros k' Hk. apply H. right; auto.
Qed.
Lemma key_eqb_eq a b : key_eqb a b = true <-> a = b.
Proof. unfold key_eqb. destruct a, b; cbn. rewrite andb_true_iff, Nat.eqb_eq, Z.eqb_eq. split; [intros [-> ->]; auto|intro H; inversion H; auto]. Qed.
Lemma lookup_put {A} k k' (z:A) c : lookup k ((k',z)::c) = if key_eqb k k' then Some z else lookup k c.
Proof. unfold lookup. cbn. destruct (key_eqb k k'); auto. Qed.
Lemma purge_pop_push k s : invalid s = [] -> purge (pop (push k s)) = purge s.
Proof. destruct s; reflexivity. Qed.
Lemma filter_true {A} (l:list A) : filter (fun _ => true) l = l.
Proof. induction l; cbn; congruence. Qed.
Lemma purge_inv_nil s : invalid s = [] -> cache (purge s) = cache s /\ stack (purge s) = stack s /\ invalid (purge s) = [].
Proof. intros H. unfold purge. destruct (stack s) eqn:E; cbn; rewrite ?H; cbn; rewrite ?filter_true; auto. Qed.

(* the result of one calc step: what the theorem promises *)
Definition good (s:st) (v:nat) (p:Z) (out:st*res) : Prop :=
  snd out = D v p /\ Inv (fst out) /\ stack (fst out) = stack s.

Lemma evalm_good : forall f v e p s,
  (forall w q s0, (w < v)%nat -> Inv s0 -> above w (stack s0) -> good s0 w q (calc f sy s0 w q)) ->
  deps_below v e = true -> Inv s -> above (pred v) (stack s) \/ True ->
  (forall k, In k (stack s) -> (v <= fst k)%nat) ->
  let out := evalm (calc f sy) s p e in
  snd out = eval D p e /\ Inv (fst out) /\ stack (fst out) = stack s.
Proof.
  intros f v e. induction e as [z|w sh|a IHa b IHb|]; intros p s IH Hd HI _ Hst; cbn in *.
  - auto.
  - apply Nat.ltb_lt in Hd. apply IH; auto. intros k Hk. specialize (Hst k Hk). lia.
  - apply andb_true_iff in Hd as [Ha Hb].
    destruct (IHa p s IH Ha HI (or_intror I) Hst) as (R1 & I1 & S1).
    destruct (evalm (calc f sy) s p a) as [s1 r1] eqn:E1; cbn in *. subst r1.
    destruct (eval D p a) eqn:Ea; cbn [fst snd]; try (split; [reflexivity | split; assumption]).
    assert (Hst1 : forall k, In k (stack s1) -> (v <= fst k)%nat) by (rewrite S1; exact Hst).
    destruct (IHb p s1 IH Hb I1 (or_intror I) Hst1) as (R2 & I2 & S2).
    destruct (evalm (calc f sy) s1 p b) as [s2 r2] eqn:E2; cbn [fst snd] in *. subst r2.
    rewrite S1 in S2.
    destruct (eval D p b); cbn [fst snd]; (split; [reflexivity | split; assumption]).
  - auto.
Qed.

Theorem calc_refines_den : forall f v p s, (v < f)%nat -> Inv s -> above v (stack s) ->
  good s v p (calc f sy s v p).
Proof.
  induction f as [|f IHf]; intros v p s Hf HI Hab; [lia|].
  destruct HI as (Hc & Hi & Hn). unfold good. cbn [calc].
  set (s0 := push (v,p) s).
  assert (P0 : forall s1, invalid s1 = [] -> stack s1 = stack s0 ->
            cache (purge (pop s1)) = cache s1 /\ stack (purge (pop s1)) = stack s /\ invalid (purge (pop s1)) = []).
  { intros s1 H1 H2. destruct (purge_inv_nil (pop s1)) as (A & B & C); [exact H1|].
    rewrite A, B, C. cbn. rewrite H2. cbn. auto. }
  destruct (nth_error sy v) as [x|] eqn:Ex.
  2:{ destruct (P0 s0 Hn eq_refl) as (A & B & C). cbn [fst snd]. unfold D. cbn [den]. rewrite Ex.
      repeat split; auto; unfold Inv; rewrite ?A, ?C; cbn; auto. }
  change (cache s0) with (cache s).
  destruct (lookup (v,p) (cache s)) as [z|] eqn:El.
  { destruct (P0 s0 Hn eq_refl) as (A & B & C). cbn [fst snd].
    repeat split; auto; unfold Inv; rewrite ?A, ?C; cbn; auto. symmetry. exact (Hc (v,p) z El). }
  change (tl (stack s0)) with (stack s). rewrite (prev_nil v (stack s) Hab). cbn [existsb length Nat.leb L].
  assert (Hin : lookup (v,p) inp = None).
  { destruct (lookup (v,p) inp) eqn:E; auto. rewrite (Hi _ _ E) in El. discriminate. }
  pose proof (ranked_nth v x Ex) as Hd.
  assert (HD : D v p = match formula x with None => Ok (dflt x) | Some e => eval D p e end).
  { unfold D at 1. cbn [den]. rewrite Ex, Hin. destruct (formula x) as [e|]; auto.
    apply (eval_ext _ _ v e p Hd). intros w q Hw. unfold D. apply den_fuel; lia. }
  destruct (formula x) as [e|].
  - (* formula *)
    assert (I0 : Inv s0) by (unfold Inv; cbn; auto).
    assert (Hst0 : forall k, In k (stack s0) -> (v <= fst k)%nat).
    { cbn. intros k [<-|Hk]; cbn; [lia|]. specialize (Hab k Hk). lia. }
    assert (IHc : forall w q s1, (w < v)%nat -> Inv s1 -> above w (stack s1) -> good s1 w q (calc f sy s1 w q)).
    { intros w q s1 Hw H1 H2. apply IHf; auto; lia. }
    destruct (evalm_good f v e p s0 IHc Hd I0 (or_intror I) Hst0) as (R & I1 & S1).
    destruct (evalm (calc f sy) s0 p e) as [s1 r1] eqn:E1; cbn [fst snd] in *. subst r1.
    destruct I1 as (Hc1 & Hi1 & Hn1).
    destruct (eval D p e) as [z| | | |] eqn:Ee.
    + assert (H2 : stack (put (v,p) z s1) = stack s0) by (cbn; exact S1).
      destruct (P0 (put (v,p) z s1) Hn1 H2) as (A & B & C). cbn [fst snd].
      repeat split; auto; unfold Inv; rewrite ?A, ?C; cbn [cache put]; auto.
      * intros k z' Hk. rewrite lookup_put in Hk. destruct (key_eqb k (v,p)) eqn:Ek.
        -- apply key_eqb_eq in Ek. subst k. inversion Hk; subst. cbn. exact HD.
        -- exact (Hc1 k z' Hk).
      * intros k z' Hk. rewrite lookup_put. destruct (key_eqb k (v,p)) eqn:Ek.
        -- apply key_eqb_eq in Ek. subst k. rewrite Hin in Hk. discriminate.
        -- exact (Hi1 k z' Hk).
    + destruct (P0 s1 Hn1 S1) as (A & B & C). cbn [fst snd]. repeat split; auto; unfold Inv; rewrite ?A, ?C; auto.
    + destruct (P0 s1 Hn1 S1) as (A & B & C). cbn [fst snd]. repeat split; auto; unfold Inv; rewrite ?A, ?C; auto.
    + destruct (P0 s1 Hn1 S1) as (A & B & C). cbn [fst snd]. repeat split; auto; unfold Inv; rewrite ?A, ?C; auto.
    + destruct (P0 s1 Hn1 S1) as (A & B & C). cbn [fst snd]. repeat split; auto; unfold Inv; rewrite ?A, ?C; auto.
  - (* no formula: default, cached *)
    assert (H2 : stack (put (v,p) (dflt x) s0) = stack s0) by reflexivity.
    destruct (P0 (put (v,p) (dflt x) s0) Hn H2) as (A & B & C). cbn [fst snd].
    repeat split; auto; unfold Inv; rewrite ?A, ?C; cbn [cache put s0 push]; auto.
    + intros k z' Hk. rewrite lookup_put in Hk. destruct (key_eqb k (v,p)) eqn:Ek.
      * apply key_eqb_eq in Ek. subst k. inversion Hk; subst. cbn. exact HD.
      * exact (Hc k z' Hk).
    + intros k z' Hk. rewrite lookup_put. destruct (key_eqb k (v,p)) eqn:Ek.
      * apply key_eqb_eq in Ek. subst k. rewrite Hin in Hk. discriminate.
      * exact (Hi k z' Hk).
Qed.
End P.
Print Assumptions calc_refines_den.
