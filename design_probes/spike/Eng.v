From Coq Require Import ZArith List Bool Lia.
Import ListNotations.
Open Scope Z_scope.

(* --- rule systems (scalar values: the cache logic does not depend on arrays) --- *)
Inductive expr := Const (z:Z) | Dep (v:nat) (shift:Z) | Add (a b:expr) | Raise.
Record var := { formula : option expr; dflt : Z }.
Definition sys := list var.
Inductive res := Ok (z:Z) | ErrCycle | ErrRaise | ErrNotFound | OutOfFuel.

Definition key := (nat * Z)%type.
Definition key_eqb (a b:key) := Nat.eqb (fst a) (fst b) && Z.eqb (snd a) (snd b).
Definition lookup {A} (k:key) (m:list (key*A)) : option A :=
  option_map snd (find (fun kv => key_eqb k (fst kv)) m).

(* --- meaning --- *)
Section Eval.
  Variable rec : nat -> Z -> res.
  Fixpoint eval (p:Z) (e:expr) : res :=
    match e with
    | Const z => Ok z
    | Dep v sh => rec v (p+sh)
    | Add a b => match eval p a with Ok x => match eval p b with Ok y => Ok (x+y) | r => r end | r => r end
    | Raise => ErrRaise
    end.
End Eval.
Fixpoint den (fuel:nat) (s:sys) (inp:list (key*Z)) (v:nat) (p:Z) : res :=
  match fuel with O => OutOfFuel | S f =>
   match nth_error s v with None => ErrNotFound | Some x =>
    match lookup (v,p) inp with Some z => Ok z | None =>
     match formula x with None => Ok (dflt x) | Some e => eval (den f s inp) p e end end end end.

(* --- machine --- *)
Record st := { cache : list (key*Z); stack : list key; invalid : list key }.
Definition L := 1%nat. (* max_spiral_loops *)
Definition prev_periods (v:nat) (stk:list key) : list Z := map snd (filter (fun k => Nat.eqb (fst k) v) stk).
Fixpoint mark (v:nat) (cnt:nat) (stk:list key) : list key :=
  match stk with [] => [] | k::r => k :: (if Nat.eqb (fst k) v then (if Nat.ltb L (S cnt) then [] else mark v (S cnt) r) else mark v cnt r) end.
Definition purge (s:st) : st :=
  match stack s with [] => {| cache := filter (fun kv => negb (existsb (key_eqb (fst kv)) (invalid s))) (cache s); stack := []; invalid := [] |}
  | _ => s end.
Section EvalM.
  Variable rec : st -> nat -> Z -> st * res.
  Fixpoint evalm (s:st) (p:Z) (e:expr) : st * res :=
    match e with
    | Const z => (s, Ok z)
    | Dep v sh => rec s v (p+sh)
    | Add a b => match evalm s p a with (s1, Ok x) => match evalm s1 p b with (s2, Ok y) => (s2, Ok (x+y)) | r => r end | r => r end
    | Raise => (s, ErrRaise)
    end.
End EvalM.
Definition push k (s:st) := {| cache := cache s; stack := k :: stack s; invalid := invalid s |}.
Definition pop (s:st) := {| cache := cache s; stack := tl (stack s); invalid := invalid s |}.
Definition put k z (s:st) := {| cache := (k,z) :: cache s; stack := stack s; invalid := invalid s |}.
Fixpoint calc (fuel:nat) (sy:sys) (s:st) (v:nat) (p:Z) : st * res :=
  match fuel with O => (s, OutOfFuel) | S f =>
   let s0 := push (v,p) s in
   let '(s1, r) :=
     match nth_error sy v with None => (s0, ErrNotFound) | Some x =>
      match lookup (v,p) (cache s0) with Some z => (s0, Ok z) | None =>
       let prev := prev_periods v (tl (stack s0)) in
       if existsb (Z.eqb p) prev then (s0, ErrCycle)
       else if Nat.leb L (length prev) then
         ({| cache := cache s0; stack := stack s0; invalid := mark v 0 (stack s0) ++ invalid s0 |}, Ok (dflt x))
       else match formula x with
            | None => (put (v,p) (dflt x) s0, Ok (dflt x))
            | Some e => match evalm (calc f sy) s0 p e with (s', Ok z) => (put (v,p) z s', Ok z) | r => r end
            end end end in
   (purge (pop s1), r) end.

(* --- ranked systems: every dependency points to a strictly smaller index --- *)
Fixpoint deps_below (n:nat) (e:expr) : bool :=
  match e with Dep v _ => Nat.ltb v n | Add a b => deps_below n a && deps_below n b | _ => true end.
Fixpoint ranked_from (n:nat) (s:sys) : bool :=
  match s with [] => true | x::r => (match formula x with None => true | Some e => deps_below n e end) && ranked_from (S n) r end.
Definition ranked s := ranked_from 0 s.

Definition example : sys :=
  [ {| formula := None; dflt := 7 |};
    {| formula := Some (Add (Dep 0 0) (Dep 0 (-1))); dflt := 0 |};
    {| formula := Some (Add (Dep 1 0) (Add (Dep 1 1) (Const 1))); dflt := 0 |} ].
Definition init (inp:list (key*Z)) := {| cache := inp; stack := []; invalid := [] |}.
Eval vm_compute in (ranked example, den 5 example [((0%nat,3),100)] 2 3, snd (calc 10 example (init [((0%nat,3),100)]) 2 3)).
(* spiral example: v0 depends on itself at p-1 *)
Definition spiral : sys := [ {| formula := Some (Add (Dep 0 (-1)) (Const 1)); dflt := 0 |} ].
Eval vm_compute in (let '(s,r) := calc 10 spiral (init []) 0 5 in (r, cache s, stack s, invalid s)).
