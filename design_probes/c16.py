import numpy as np, warnings
warnings.simplefilter("ignore")
from openfisca_core import periods, holders
from openfisca_core.entities import Entity
from openfisca_core.periods import DateUnit
from openfisca_core.simulations import SimulationBuilder
from openfisca_core.taxbenefitsystems import TaxBenefitSystem
from openfisca_core.variables import Variable
Person = Entity("person","persons","","")
class disp(Variable):
    value_type=int; entity=Person; definition_period=DateUnit.MONTH; set_input=holders.set_input_dispatch_by_period
class div(Variable):
    value_type=float; entity=Person; definition_period=DateUnit.MONTH; set_input=holders.set_input_divide_by_period
class divday(Variable):
    value_type=float; entity=Person; definition_period=DateUnit.DAY; set_input=holders.set_input_divide_by_period
class divyear(Variable):
    value_type=float; entity=Person; definition_period=DateUnit.YEAR; set_input=holders.set_input_divide_by_period
tbs = TaxBenefitSystem([Person]); tbs.add_variables(disp, div, divday, divyear)
def sim(n=1): return SimulationBuilder().build_default_simulation(tbs, count=n)
s = sim()
s.set_input("disp", "2018-03", [5])
s.set_input("disp", "2018", [10])
print([int(s.get_array("disp", f"2018-{m:02d}")[0]) for m in range(1,13)])
s = sim()
s.set_input("div", "2018-03", [500])
try:
    s.set_input("div", "2018", [12000]); print([float(s.get_array("div", f"2018-{m:02d}")[0]) for m in range(1,13)], s.calculate_add("div","2018"))
except Exception as e: print("ERR", type(e).__name__, e)
s = sim()
s.set_input("div", "2018-03", [500])
s.set_input("div", "2018", np.array([12000.])); print([float(s.get_array("div", f"2018-{m:02d}")[0]) for m in range(1,13)], s.calculate_add("div","2018"))
s = sim(); s.set_input("div", "2018", [12000]); print(s.calculate_add("div","2018"))
s = sim(); s.set_input("divday", "2020-02", [29*4.]); print(s.calculate_add("divday","2020-02"), len(s.get_known_periods("divday")))
s = sim(); s.set_input("divday", "year:2019-03", [366.]); print(s.calculate_add("divday","year:2019-03"), len(s.get_known_periods("divday")))
s = sim(); s.set_input("divyear", "year:2019:3", [366.]); print(s.calculate_add("divyear","year:2019:3"), s.get_known_periods("divyear"))
s = sim(); s.set_input("divyear", "2019-03", [366.]); print(s.get_known_periods("divyear"))
s = sim(); s.set_input("div", "2018", [1200.]); 
try: s.set_input("div", "2018", [1300.])
except Exception as e: print("ERR", type(e).__name__, str(e)[:50])
s.set_input("div", "2018", [1200.]); print("same ok")
# order effects between several long inputs
s = sim(); s.set_input("div", "year:2018:2", [2400.]); s.set_input("div", "2018", [600.]) if False else None
s = sim(); s.set_input("div", "2018", [600.]); s.set_input("div", "year:2018:2", [2400.]); print(s.calculate_add("div","2018"), s.calculate_add("div","2019"), s.calculate_add("div","year:2018:2"))
