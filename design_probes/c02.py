import numpy as np
from openfisca_core import periods
from openfisca_core.entities import Entity
from openfisca_core.periods import DateUnit
from openfisca_core.simulations import SimulationBuilder
from openfisca_core.taxbenefitsystems import TaxBenefitSystem
from openfisca_core.variables import Variable

Person = Entity("person","persons","","")
def mk():
    class V(Variable):
        value_type=int; entity=Person; definition_period=DateUnit.MONTH
        def formula(p, period): return p("W", period) + 1
    class W(Variable):
        value_type=int; entity=Person; definition_period=DateUnit.MONTH
        def formula(p, period): return p("V", period.last_month) + 1
    class C(Variable):
        value_type=int; entity=Person; definition_period=DateUnit.MONTH
        def formula(p, period): return p("W", period) * 10
    class A(Variable):
        value_type=int; entity=Person; definition_period=DateUnit.MONTH
        def formula(p, period): return p("V", period) + p("C", period)
    tbs = TaxBenefitSystem([Person])
    tbs.add_variables(V,W,C,A)
    return tbs
tbs = mk()
def sim():
    s = SimulationBuilder().build_default_simulation(tbs, count=1)
    return s
p = periods.period("2013-01")
s = sim()
print("A", s.calculate("A", p))
for v in "VWCA":
    print(v, {str(k): a.tolist() for k,a in zip(s.get_known_periods(v), [s.get_array(v,k) for k in s.get_known_periods(v)])})
s2 = sim()
print("fresh C", s2.calculate("C", p))
print("retained C", s.get_array("C", p))
