import random, datetime, warnings, collections
warnings.simplefilter("ignore")
from openfisca_core import periods
from openfisca_core.periods import Period, Instant, DateUnit as U
import importlib.util; spec = importlib.util.spec_from_file_location("c04", "/tmp/exp/c04.py")
R = random.Random(2); bad = []
def D(i): return datetime.date(*i)
def rnd_date(u):
    o = R.randrange(datetime.date(1000,1,8).toordinal(), datetime.date(8000,1,1).toordinal()); d = datetime.date.fromordinal(o)
    if R.random() < .3: d = datetime.date(R.choice((1000,1999,2000,2015,2016,2020,2021,7999)), R.choice((1,2,12)), R.choice((1,28,29,30,31)) if False else 1)
    if u == U.YEAR: d = d.replace(month=R.choice((1,1,1,2,7,12)), day=1)
    elif u == U.MONTH: d = d.replace(day=1)
    elif u == U.WEEK: d = d - datetime.timedelta(d.isoweekday()-1)
    return (d.year, d.month, d.day)
seen = collections.defaultdict(dict)
from calendar import monthrange
def daysof(p):
    import calendar
    def addm(d, n):
        t = d.year*12 + d.month-1 + n; y, m = divmod(t, 12); m += 1
        return datetime.date(y, m, min(d.day, calendar.monthrange(y, m)[1]))
    d = D(p.start); n = p.size; u = p.unit
    e = addm(d,12*n) if u==U.YEAR else addm(d,n) if u==U.MONTH else d+datetime.timedelta(7*n) if u==U.WEEK else d+datetime.timedelta(n)
    return d.toordinal(), e.toordinal()-1
for u in (U.YEAR, U.MONTH, U.DAY, U.WEEK, U.WEEKDAY):
    for _ in range(3000):
        n = R.choice((1,1,1,2,3,7,11,12,13,24,52,53,100,365,1000))
        p = Period((u, Instant(rnd_date(u)), n)); s = str(p)
        try: q = periods.period(s)
        except Exception as e: bad.append(("parse", p, s, type(e).__name__)); continue
        exp_unit = U.YEAR if (u == U.MONTH and n == 12) else u
        if not (daysof(q) == daysof(p) and q.unit == exp_unit and str(q) == s): bad.append(("rt", p, s, q))
        if s in seen[u] and seen[u][s] != p: bad.append(("collide", p, seen[u][s], s))
        seen[u][s] = p
    for _ in range(500):
        i = Instant(rnd_date(U.DAY)); 
        if periods.instant(str(i)) != i: bad.append(("inst", i))
e = Period.eternity(); assert periods.period(str(e)) == e
print(len(bad), collections.Counter(b[0] for b in bad), bad[:6])
