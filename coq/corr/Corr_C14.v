(** Correspondence glue for C14: a case is a base rule system, a population, inputs and a
    script of derivations (clone / reform / modification in place), evaluations on any system
    of the world (on a fresh simulation, or on the one long-lived simulation of that system)
    and looks at the variable table (through the system and through its entities) and the
    parameters of any system.  One observation per step. *)
From Coq Require Import ZArith List Bool String.
From Verif Require Import Base Obs Cal Tables Period Np Group Param Engine CorrEng Systems.
Import ListNotations.
Open Scope Z_scope.

Inductive step :=
  | SDerive (o : dop)
  | SEval (i : nat) (fresh : bool) (rs : list request)
  | SLook (i : nat) (nnames : nat) (ds : list Z).

Inductive case :=
  | CCase (y0 : Z) (ny : nat) (sy : sys) (pp : popu) (inputs : list request) (steps : list step)
  | CSkip.

(** long-lived simulations: system number -> state *)
Definition sims := list (nat * st).

Definition find_sim (m : sims) (i : nat) : option st :=
  option_map snd (find (fun kv => Nat.eqb (fst kv) i) m).
Definition drop_sim (m : sims) (i : nat) : sims :=
  filter (fun kv => negb (Nat.eqb (fst kv) i)) m.

Definition run_step (alias : bool) (y0 : Z) (ny : nat) (pp : popu) (inputs : list request)
           (w : world) (m : sims) (s : step) : world * sims * obs :=
  match s with
  | SDerive o =>
      (* the harness discards the long-lived simulation of a system modified in place *)
      let m' := match target_of o with Some j => drop_sim m j | None => m end in
      match apply_dop alias w o with
      | Ok w' => (w', m', ONone)
      | Err e => (w, m', OErr e)
      end
  | SEval i true rs => (w, m, eval_fresh y0 ny w i pp inputs rs)
  | SEval i false rs =>
      let '(s0, rs') := match find_sim m i with
                        | Some s0 => (s0, rs)
                        | None => (init [], inputs ++ rs)
                        end in
      match eval_on y0 ny w i pp s0 rs' with
      | None => (w, m, OErr ENotFound)
      | Some (s1, l) => (w, (i, s1) :: drop_sim m i, OL (map oanswer l))
      end
  | SLook i nnames ds => (w, m, look w i nnames ds)
  end.

Fixpoint run_steps (alias : bool) (y0 : Z) (ny : nat) (pp : popu) (inputs : list request)
         (w : world) (m : sims) (ss : list step) : list obs :=
  match ss with
  | [] => []
  | s :: r =>
      let '(w1, m1, o) := run_step alias y0 ny pp inputs w m s in
      o :: run_steps alias y0 ny pp inputs w1 m1 r
  end.

Definition run (c : case) : obs :=
  match c with
  | CCase y0 ny sy pp inputs steps => OL (run_steps false y0 ny pp inputs (initial (of_sys sy)) [] steps)
  | CSkip => OS "skip"%string
  end.
