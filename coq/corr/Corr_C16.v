(** Correspondence glue for C16: a case is one variable, a population size and a history of
    [simulation.set_input(var, period, array)] (and [delete_arrays(var, period)]) calls.  After every call the harness records
    ok / error kind, the holder's known periods with their arrays (in storage order; compared as the
    number of known periods and the entries that are new or changed) and, where asked, [calculate_add(var, period)]. *)
From Coq Require Import ZArith QArith List Bool String.
From Verif Require Import Base Obs Cal Tables Period SetInput.
Import ListNotations.
Open Scope Z_scope.

(* one call of the history:
   [SSet P a add keys_only]: set_input(var, P, a); [add]: also run calculate_add(var, P);
     [keys_only]: compare known periods only (the step is not exact in binary32 and ends its history);
   [SDel P]: delete_arrays(var, P);
   [SCalc P]: calculate(var, t) for every definition-period piece t of P *)
Inductive step :=
  | SSet (P : period) (a : arr) (add keys_only : bool)
  | SDel (P : option period)
  | SCalc (P : period).

(* [KClone v n k steps]: the simulation is cloned before step [k]; the steps from [k] on are run on the
   original and on the clone, which therefore both see the whole history *)
Inductive case :=
  | KHist (v : var) (n : Z) (steps : list step)
  | KClone (v : var) (n : Z) (k : nat) (steps : list step).

Definition unit_code (u : unit_t) : Z :=
  match u with Weekday => 0 | Week => 1 | Day => 2 | Month => 3 | Year => 4 | Eternity => 5 end.

(* compact rendering of a period: unit code, yyyymmdd (eternity: -10101), size *)
Definition operiod (p : period) : obs :=
  let '(u, (y, m, d), n) := p in OL [OZ (unit_code u); OZ (y * 10000 + m * 100 + d); OZ n].

Definition oarr (a : arr) : obs := OL (map OQ a).
Definition oholder (h : holder) : obs := OL (map (fun kv => OL [operiod (fst kv); oarr (snd kv)]) h).

Definition okeys (h : holder) : obs := OL (map (fun kv => operiod (fst kv)) h).

(* What a call changed: the entries of [h'] (storage order) that are new or hold another
   array than in [h].  The harness computes the same difference on the real holder's
   content before and after the call; the number of known periods is compared as well. *)
Definition arr_eqb (a b : arr) : bool :=
  Nat.eqb (List.length a) (List.length b) && forallb (fun xy => Qeq_bool (fst xy) (snd xy)) (combine a b).
Definition hdiff (h h' : holder) : holder :=
  filter (fun kv => match get h (fst kv) with
                    | Some a => negb (arr_eqb a (snd kv))
                    | None => true
                    end) h'.

Fixpoint run_hist (v : var) (n : Z) (h : holder) (steps : list step) : list obs :=
  match steps with
  | [] => []
  | SSet P a want_add keys_only :: rest =>
      let r := sim_set_input v n h P a in
      let h' := match r with Ok h' => h' | Err _ => h end in
      let status := match r with Ok _ => OZ 0 | Err e => OErr e end in
      let add := if want_add then ores oarr (calculate_add v n h' P) else ONone in
      let size := OZ (Z.of_nat (List.length h')) in
      (if keys_only then OL [status; size; okeys (hdiff h h'); ONone]
       else OL [status; size; oholder (hdiff h h'); add])
        :: run_hist v n h' rest
  | SCalc P :: rest =>
      let r := calculate_each v n h P in
      let h' := match r with Ok h' => h' | Err _ => h end in
      let status := match r with Ok _ => OZ 0 | Err e => OErr e end in
      OL [status; OZ (Z.of_nat (List.length h')); oholder (hdiff h h'); ONone] :: run_hist v n h' rest
  | SDel P :: rest =>
      let h' := delete_arrays v h P in
      OL [OZ 0; OZ (Z.of_nat (List.length h')); okeys h'; ONone] :: run_hist v n h' rest
  end.

Definition run (c : case) : obs :=
  match c with
  | KHist v n steps => OL (run_hist v n [] steps)
  | KClone v n k steps =>
      let hist := run_hist v n [] steps in OL [OL hist; OL (skipn k hist)]
  end.
