(** C03 uses the shared engine correspondence (CorrEng.v). *)
From Verif Require Export CorrEng.
