(** Correspondence glue for C13 (clone isolation): a case is a rule system, a population,
    the storage flags of the variables, and a sequence of operations over a growing world
    of simulations (requests on any simulation, clone of any simulation, trace toggles).
    After every operation the observation lists the answer and, for EVERY simulation of
    the world, the whole content of its holders, its invalidated_caches set, its trace
    flag and its entity structure.  In a [lazy] case nothing is looked at before the first
    clone (looking creates the holders). *)
From Coq Require Import ZArith List Bool String.
From Verif Require Import Base Obs Cal Tables Period Np Group Param Engine CorrEng Heap.
Import ListNotations.
Open Scope Z_scope.

Inductive case :=
  | CWorld (sy : sys) (pp : popu) (disk : list bool) (tr : bool) (lazy : bool) (os : list op)
  | CSkip.

Fixpoint insert_uniq (e : list Z) (l : list (list Z)) : list (list Z) :=
  match l with
  | [] => [e]
  | h :: t =>
      if lex_leb e h then (if lex_leb h e then l else e :: l)
      else h :: insert_uniq e t
  end.

Definition oinvalid (ks : list key) : obs :=
  OL (map (olist OZ) (fold_right insert_uniq [] (map key_code ks))).

Definition opop (pp : popu) : obs :=
  OL [OZ (Z.of_nat (g_count (grp pp)));
      olist (fun n => OZ (Z.of_nat n)) (g_ids (grp pp));
      olist (fun n => OZ (Z.of_nat n)) (g_roles (grp pp))].

Definition osim (w : world) (sm : simu) : obs :=
  OL [ocache (sim_cache w sm); oinvalid (sim_invalid w sm); OB (s_trace sm); opop (s_pop sm)].

Definition oworld (w : world) : obs := OL (map (osim w) (sims w)).

Definition is_clone (o : op) : bool := match o with OpClone _ _ => true | _ => false end.

Fixpoint run_obs (pol : policy) (sy : sys) (w : world) (quiet : bool) (os : list op) : list obs :=
  match os with
  | [] => []
  | o :: rest =>
      let '(w1, a) := wstep pol sy w o in
      let quiet1 := quiet && negb (is_clone o) in
      OL [oanswer a; if quiet1 then ONone else oworld w1] :: run_obs pol sy w1 quiet1 rest
  end.

Definition run (c : case) : obs :=
  match c with
  | CWorld sy pp disk tr lazy os =>
      OL (run_obs (clone_policy disk) sy (winit (List.length (vars sy)) pp tr) lazy os)
  | CSkip => OS "skip"%string
  end.
