(** Correspondence glue for C13 (clone isolation): a case is a rule system, a population,
    the storage flags of the variables, and a sequence of operations over a growing world
    of simulations (requests on any simulation, clone of any simulation, trace toggles).
    After every operation the observation lists the answer and, for EVERY simulation of
    the world, the whole content of its holders, its invalidated_caches set, its trace
    flag and its entity structure, and the back-pointers of every population, holder and
    tracer (model/HeapRefs.v).  In a [lazy] case nothing is looked at before the first
    clone (looking creates the holders). *)
From Coq Require Import ZArith List Bool String.
From Verif Require Import Base Obs Cal Tables Period Np Group Param Engine CorrEng Heap HeapRefs.
Import ListNotations.
Open Scope Z_scope.

Inductive case :=
  | CWorld (sy : sys) (pp : popu) (disk : list bool) (tr : bool) (lazy : bool) (os : list op)
  | CSkip.

Fixpoint insert_uniq (e : list Z) (l : list (list Z)) : list (list Z) :=
  match l with
  | [] => [e]
  | h :: t =>
      if lex_leb e h then (if lex_leb h e then l else e :: l)
      else h :: insert_uniq e t
  end.

Definition oinvalid (ks : list key) : obs :=
  OL (map (olist OZ) (fold_right insert_uniq [] (map key_code ks))).

Definition opop (pp : popu) : obs :=
  OL [OZ (Z.of_nat (g_count (grp pp)));
      olist (fun n => OZ (Z.of_nat n)) (g_ids (grp pp));
      olist (fun n => OZ (Z.of_nat n)) (g_roles (grp pp))].

Definition osim (w : world) (sm : simu) : obs :=
  OL [ocache (sim_cache w sm); oinvalid (sim_invalid w sm); OB (s_trace sm); opop (s_pop sm)].

Definition oworld (w : world) : obs := OL (map (osim w) (sims w)).

Definition is_clone (o : op) : bool := match o with OpClone _ _ => true | _ => false end.

(** Back-pointers in canonical form: an object is named by the number of the simulation it
    belongs to (0 = the original, 1 = the first clone ...; -1 = none), a population also by
    its kind (0 persons, 1 household).  The harness names the real objects the same way. *)
Fixpoint index_of (f : rsim -> bool) (l : list rsim) (j : Z) : Z :=
  match l with
  | [] => -1
  | s :: r => if f s then j else index_of f r (j + 1)
  end.

Definition osim_ref (rw : rworld) (x : oid) : obs :=
  OZ (index_of (fun s => Nat.eqb (r_id s) x) (rsims rw) 0).
Definition otracer_ref (rw : rworld) (x : oid) : obs :=
  OZ (index_of (fun s => Nat.eqb (r_tracer s) x) (rsims rw) 0).
Definition opop_ref (rw : rworld) (x : oid) : obs :=
  let jp := index_of (fun s => Nat.eqb (p_id (r_persons s)) x) (rsims rw) 0 in
  if 0 <=? jp then OL [OZ jp; OZ 0]
  else let jg := index_of (fun s => Nat.eqb (p_id (r_group s)) x) (rsims rw) 0 in
       if 0 <=? jg then OL [OZ jg; OZ 1] else OL [OZ (-1); OZ (-1)].

Definition find_holder (s : rsim) (v : nat) : option rholder :=
  match find (fun vh => Nat.eqb (fst vh) v) (p_holders (r_persons s)) with
  | Some vh => Some (snd vh)
  | None => option_map snd (find (fun vh => Nat.eqb (fst vh) v) (p_holders (r_group s)))
  end.

Definition orefs_sim (nv : nat) (rw : rworld) (s : rsim) : obs :=
  OL [osim_ref rw (p_sim (r_persons s)); osim_ref rw (p_sim (r_group s));
      oopt (opop_ref rw) (p_members (r_group s)); otracer_ref rw (r_tracer s);
      OL (map (fun v => oopt (fun h => OL [osim_ref rw (h_sim h); opop_ref rw (h_pop h)]) (find_holder s v))
              (seq 0 nv))].

Definition orefs (nv : nat) (rw : rworld) : obs := OL (map (orefs_sim nv rw) (rsims rw)).

Fixpoint run_obs (pol : policy) (sy : sys) (w : world) (rw : rworld) (quiet : bool) (os : list op) : list obs :=
  match os with
  | [] => []
  | o :: rest =>
      let '(w1, a) := wstep pol sy w o in
      let rw1 := rstep backpointer_policy rw o in
      let quiet1 := quiet && negb (is_clone o) in
      OL [oanswer a; if quiet1 then ONone else oworld w1;
          if quiet1 then ONone else orefs (List.length (vars sy)) rw1]
      :: run_obs pol sy w1 rw1 quiet1 rest
  end.

Definition run (c : case) : obs :=
  match c with
  | CWorld sy pp disk tr lazy os =>
      OL (run_obs (clone_policy disk) sy (winit (List.length (vars sy)) pp tr) (rinit sy) lazy os)
  | CSkip => OS "skip"%string
  end.
