(** Correspondence glue for C08: the tax-scale operations the harness runs on the real
    classes, evaluated on the model.

    A scale is always given as the list of its add_bracket calls in call order, so that
    [add_bracket] is exercised by every case.

    Real-valued results carry one [mode] per base, decided by the harness from the case
    alone (Fraction arithmetic, before the implementation is run):
      0  every intermediate of the computation is representable in binary64: the
         implementation's float, converted to a rational, must EQUAL the model's rational;
      1  compared after quantisation to the grid of step 10^-6 offset by 1/3 * 10^-6 (no
         dyadic rational lies on a cell boundary); only used when the exact value is at
         least 10^-8 away from a boundary;
      2  not compared here (the oracle still compares it with tolerance). *)
From Coq Require Import ZArith QArith Qround List Bool String.
From Verif Require Import Base Obs Scale.
Import ListNotations.
Open Scope Q_scope.

Definition cell (v : Q) : Z := Qfloor (v * inject_Z 1000000 - (1 # 3)).

Definition oval (mode : Z) (v : Q) : obs :=
  if (mode =? 0)%Z then OQ v else if (mode =? 1)%Z then OZ (cell v) else ONone.

Fixpoint ovals (modes : list Z) (vs : list Q) : list obs :=
  match vs with
  | [] => []
  | v :: vs' => match modes with
                | m :: ms => oval m v :: ovals ms vs'
                | [] => oval 0 v :: ovals [] vs'
                end
  end.

Definition oscale (s : scale) : obs := OL [olist OQ (thresholds s); olist OQ (rates s)].

Inductive case :=
  (* thresholds and rates/amounts after the calls *)
  | KBuild (calls : list (Q * Q))
  (* RateTaxScaleLike.bracket_indices(bases, factor, round_decimals) *)
  | KIndices (eps factor : Q) (round : option Z) (calls : list (Q * Q)) (bases : list Q)
  (* MarginalRateTaxScale.marginal_rates(bases, factor, round_base_decimals) *)
  | KMarginalRates (eps factor : Q) (round : option Z) (calls : list (Q * Q)) (bases : list Q)
  (* rate_from_tax_base / threshold_from_tax_base *)
  | KRateFrom (eps : Q) (calls : list (Q * Q)) (bases : list Q)
  | KThresholdFrom (eps : Q) (calls : list (Q * Q)) (bases : list Q)
  (* MarginalRateTaxScale.calc(bases, factor, round_base_decimals) *)
  | KCalcMR (eps factor : Q) (round : option Z) (calls : list (Q * Q)) (bases : list Q) (modes : list Z)
  (* MarginalAmountTaxScale.calc, SingleAmountTaxScale.calc(right) *)
  | KCalcMA (calls : list (Q * Q)) (bases : list Q)
  | KCalcSA (right : bool) (calls : list (Q * Q)) (bases : list Q)
  (* LinearAverageRateTaxScale.calc *)
  | KCalcLA (calls : list (Q * Q)) (bases : list Q) (modes : list Z)
  (* a sequence of operations on ONE scale object: each observing step is given with the
     bracket list the object must have at that point (calls since the last in-place
     transformation applied to the transformed brackets) *)
  | KSeq (steps : list case).

Fixpoint run (c : case) : obs :=
  match c with
  | KBuild calls => oscale (build calls)
  | KIndices eps f rd calls bases => ores (olist OZ) (bracket_indices eps f rd (build calls) bases)
  | KMarginalRates eps f rd calls bases => ores (olist OQ) (marginal_rates eps f rd (build calls) bases)
  | KRateFrom eps calls bases => ores (olist OQ) (rate_from_tax_base eps (build calls) bases)
  | KThresholdFrom eps calls bases => ores (olist OQ) (threshold_from_tax_base eps (build calls) bases)
  | KCalcMR eps f rd calls bases modes => OL (ovals modes (calc_marginal eps f rd (build calls) bases))
  | KCalcMA calls bases => olist OQ (calc_marginal_amount (build calls) bases)
  | KCalcSA rgt calls bases => olist OQ (calc_single_amount rgt (build calls) bases)
  | KCalcLA calls bases modes =>
      ores (fun l => OL (ovals modes l)) (calc_linear_average (to_escale (build calls)) bases)
  | KSeq steps => OL (map run steps)
  end.
