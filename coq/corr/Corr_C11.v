(** Correspondence for C11: one case = one rule system, two situations (population and
    inputs each), an interleaving of their persons and of their groups, a placement
    (permutation) of the persons and groups of situation 1, and a request list.  The
    model runs the engine (CorrEng.run_obs: answer, stack depth and holders after every
    request) on (1) situation 1 alone, (2) situation 2 alone, (3) the population and
    inputs MERGED BY Merge.merge / Merge.merge_inputs, (4) situation 1 PERMUTED BY
    Merge.permute / Merge.permute_inputs.  harness/c11.py builds the merged and permuted
    populations and input arrays itself (by scattering) for the real engine; the four
    observations are compared exactly. *)
From Coq Require Import ZArith List Bool String.
From Verif Require Import Base Obs Cal Tables Period Np Group Param Engine CorrEng Merge.
Import ListNotations.
Open Scope Z_scope.

Inductive case :=
  | CInd (sy : sys) (pp1 pp2 : popu) (inp1 inp2 : inputs)
         (f1 f2 g1 g2 : list nat) (sp sg : list nat) (rs : list request)
  | CSkip.

(** inputs are given to a fresh simulation with Simulation.set_input *)
Definition sets (inp : inputs) : list request :=
  map (fun kv => RSetInput (fst (fst kv)) (snd (fst kv)) (snd kv)) inp.

Definition run1 (sy : sys) (pp : popu) (inp : inputs) (rs : list request) : obs :=
  OL (run_obs (enough_fuel sy) sy pp (init []) (sets inp ++ rs)).

Definition run (c : case) : obs :=
  match c with
  | CInd sy pp1 pp2 inp1 inp2 f1 f2 g1 g2 sp sg rs =>
      OL [ run1 sy pp1 inp1 rs;
           run1 sy pp2 inp2 rs;
           run1 sy (merge f1 f2 g1 g2 pp1 pp2) (merge_inputs sy f1 f2 g1 g2 inp1 inp2) rs;
           run1 sy (permute sp sg pp1) (permute_inputs sy sp sg inp1) rs ]
  | CSkip => OS "skip"%string
  end.
