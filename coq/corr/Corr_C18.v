(** Correspondence for C18.  A case is a population and a list of segments: each segment is a
    rule system and the requests run under it.  Within a segment the rule system only
    changes through [RSwitch]; between two segments harness/c18.py replaced the class of a
    variable on the live tax-benefit system (TaxBenefitSystem.replace_variable /
    update_variable): the machine state - cache, stack, invalidated set - is carried over
    and the next segment's rule system has the new formulas.  The pseudo request "fix" of
    the harness is already resolved to the set_input it stands for.

    The observation lists, for every request, the answer (value or error kind), the depth
    of the evaluation stack afterwards and the whole content of the holders afterwards; a
    segment boundary is observed like a request answering nothing. *)
From Coq Require Import ZArith List Bool String.
From Verif Require Import Base Obs Cal Tables Period Np Group Param Engine.
From Verif Require Export CorrEng.
Import ListNotations.
Open Scope Z_scope.

Inductive case :=
  | CSeq (pp : popu) (segs : list (sys * list request))
  | CSkip.

Definition ostate (a : answer) (s : st) : obs :=
  OL [oanswer a; OZ (Z.of_nat (List.length (stack s))); ocache (cache s)].

Fixpoint run_obs_st (fuel : nat) (sy : sys) (pp : popu) (s : st) (rs : list request) : st * list obs :=
  match rs with
  | [] => (s, [])
  | r :: rest =>
      let '(s1, a) := step fuel sy pp s r in
      let '(s2, l) := run_obs_st fuel (sys_after sy r) pp s1 rest in
      (s2, ostate a s1 :: l)
  end.

Fixpoint run_segs (pp : popu) (s : st) (first : bool) (segs : list (sys * list request)) : list obs :=
  match segs with
  | [] => []
  | (sy, rs) :: rest =>
      let '(s1, l) := run_obs_st (enough_fuel sy) sy pp s rs in
      (if first then [] else [ostate ANone s]) ++ l ++ run_segs pp s1 false rest
  end.

Definition run (c : case) : obs :=
  match c with
  | CSeq pp segs => OL (run_segs pp (init []) true segs)
  | CSkip => OS "skip"%string
  end.
