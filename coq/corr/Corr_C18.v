(** C18 uses the shared engine correspondence (CorrEng.v): a case is a rule system with an
    injected failure, a population and the request sequence actually run by harness/c18.py
    (the pseudo request "fix" already resolved to the set_input it stands for); the
    observation lists, for every request, the answer (value or error kind), the depth of
    the evaluation stack afterwards and the whole content of the holders afterwards. *)
From Verif Require Export CorrEng.

Definition run : case -> Obs.obs := CorrEng.run.
