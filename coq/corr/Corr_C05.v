(** Correspondence glue for C05: the printing / parsing operations the harness runs on
    both sides, and how their results are rendered as observations. *)
From Coq Require Import ZArith List Bool String.
From Verif Require Import Base Obs Cal Tables Period PeriodStr.
Import ListNotations.
Open Scope Z_scope.

Inductive step :=
  | KShow (p : period)             (* str(Period(...)) *)
  | KShowInst (c : date)           (* str(Instant(...)) *)
  | KParse (s : string)            (* periods.period(s) *)
  | KParseInst (s : string)        (* periods.instant(s) *)
  | KRound (p : period)            (* text, period(text), str(period(text)) *)
  | KRoundInst (c : date)          (* text, instant(text) *)
  | KShowMany (l : list period)    (* texts of several periods (collision search) *)
  | KDisk (l : list period)        (* OnDiskStorage: file name of each period, key restored from it *)
  | KParseShow (s : string)        (* q = periods.period(s); then str(q), period(str(q)), str again *)
  | KParseShowInst (s : string)    (* i = periods.instant(s); then str(i), instant(str(i)) *)
  | KBuildShow (v : input)         (* q = periods.period(v) for any argument type; then as KParseShow *)
  | KBuildShowInst (v : input).    (* i = periods.instant(v) for any argument type; then as KParseShowInst *)

Definition unit_code (u : unit_t) : Z :=
  match u with Weekday => 0 | Week => 1 | Day => 2 | Month => 3 | Year => 4 | Eternity => 5 end.

Definition operiod (p : period) : obs :=
  let '(u, s, n) := p in OL [OZ (unit_code u); odate s; OZ n].

Definition round_obs (p : period) : obs :=
  match show_period p with
  | Err e => OErr e
  | Ok s =>
      match parse_period s with
      | Err e => OL [OS s; OErr e]
      | Ok q => OL [OS s; operiod q; ores OS (show_period q)]
      end
  end.

Definition round_inst_obs (d : date) : obs :=
  match show_instant d with
  | Err e => OErr e
  | Ok s => OL [OS s; ores odate (parse_instant s)]
  end.

Definition run_step (c : step) : obs :=
  match c with
  | KShow p => ores OS (show_period p)
  | KShowInst d => ores OS (show_instant d)
  | KParse s => ores operiod (parse_period s)
  | KParseInst s => ores odate (parse_instant s)
  | KRound p => round_obs p
  | KRoundInst d => round_inst_obs d
  | KShowMany l => OL (map (fun p => ores OS (show_period p)) l)
  | KDisk l =>
      OL (map (fun p => match show_period p with
                        | Err e => OErr e
                        | Ok s => OL [OS s; ores operiod (parse_period s)]
                        end) l)
    | KParseShow t =>
      match parse_period t with
      | Err e => OErr e
      | Ok q => OL [operiod q; round_obs q]
      end
  | KParseShowInst t =>
      match parse_instant t with
      | Err e => OErr e
      | Ok d => OL [odate d; round_inst_obs d]
      end
  | KBuildShow v =>
      match period_of v with
      | Err e => OErr e
      | Ok q => OL [operiod q; round_obs q]
      end
  | KBuildShowInst v =>
      match instant_of v with
      | Err e => OErr e
      | Ok d => OL [odate d; round_inst_obs d]
      end
  end.

(** A case is one operation, or a sequence of operations run in ONE process of the
    implementation, in order.  The model has no state: printing and parsing must not depend
    on what was parsed or printed before. *)
Inductive case :=
  | KOne (s : step)
  | KSeq (l : list step).

Definition run (c : case) : obs :=
  match c with
  | KOne s => run_step s
  | KSeq l => OL (map run_step l)
  end.
