(** Correspondence glue for C17: one rule system, population and request sequence run
    under several configurations.  A configuration is (trace on?, for every variable:
    does its holder skip the store?).  Disk storage and priority variables have no
    counterpart in the model state (the cache of the model is the union of the memory
    and disk stores, which is also what the harness observes), so for them the model is
    the plain machine.

    Observation per configuration: per request the answer and the stack depth; after the
    last request the holders' content and, with trace on, FullTracer.trees, the flat trace
    (keys, dependencies, values; left out beyond 1000 trees, where the first-occurrence
    scan is quadratic - the harness still checks it on the implementation) and whether the
    cursor is back to None. *)
From Coq Require Import ZArith List Bool String.
From Verif Require Import Base Obs Cal Tables Period Np Group Param Engine EngineTrace CorrEng.
Import ListNotations.
Open Scope Z_scope.

Inductive case :=
  | CCfg (sy : sys) (pp : popu) (rs : list request) (cfgs : list (bool * list bool))
  | CSkip17.

Fixpoint onode (n : tnode) : obs :=
  match n with
  | TNode k a c => OL [olist OZ (key_code k); oopt (olist OZ) a; OL (map onode c)]
  end.

Definition oflat (e : flat_entry) : obs :=
  let '(k, deps, a) := e in
  OL [olist OZ (key_code k); OL (map (fun d => olist OZ (key_code d)) deps); oopt (olist OZ) a].

(** per request: answer and stack depth; the holders' content once, after the last request
    (CorrEng.run_obs, used by C01, compares it after every request of the plain
    configuration; here it would be most of the text Coq has to read) *)
Fixpoint run_obs_p (fuel : nat) (sy : sys) (pp : popu) (s : st) (rs : list request) : list obs * st :=
  match rs with
  | [] => ([], s)
  | r :: rest =>
      let '(s1, a) := step fuel sy pp s r in
      let '(l, s2) := run_obs_p fuel (sys_after sy r) pp s1 rest in
      (OL [oanswer a; OZ (Z.of_nat (List.length (stack s1)))] :: l, s2)
  end.

Fixpoint run_obs_t (fuel : nat) (sy : sys) (pp : popu) (s : st * tracer) (rs : list request)
  : list obs * (st * tracer) :=
  match rs with
  | [] => ([], s)
  | r :: rest =>
      let '(s1, a) := step_t fuel sy pp s r in
      let '(l, s2) := run_obs_t fuel (sys_after sy r) pp s1 rest in
      (OL [oanswer a; OZ (Z.of_nat (List.length (stack (fst s1))))] :: l, s2)
  end.

Definition run_cfg (sy : sys) (pp : popu) (rs : list request) (cfg : bool * list bool) : obs :=
  let sy' := with_nostore (snd cfg) sy in
  if fst cfg then
    let '(l, (s, tr)) := run_obs_t (enough_fuel sy') sy' pp (init [], tr_init) rs in
    OL [OL l; ocache (cache s);
        OL [OL (map onode (trees tr)); (if Nat.ltb 1000 (List.length (trees tr)) then ONone else OL (map oflat (flat_trace (trees tr))));
            OZ (Z.of_nat (List.length (opened tr)))]]
  else
    let '(l, s) := run_obs_p (enough_fuel sy') sy' pp (init []) rs in
    OL [OL l; ocache (cache s); ONone].

Definition run (c : case) : obs :=
  match c with
  | CCfg sy pp rs cfgs => OL (map (run_cfg sy pp rs) cfgs)
  | CSkip17 => OS "skip"%string
  end.
