(** Correspondence glue for C15: the operations of indexed_enums the harness runs on
    both sides, and how the model's answers are rendered as observations. *)
From Coq Require Import String ZArith List Bool.
From Verif Require Import Base Obs EnumModel.
Import ListNotations.
Open Scope Z_scope.

Inductive case :=
  | KEncode (e : enum) (x : input)        (* E.encode(x): index list or error kind *)
  | KRound (e : enum) (x : input)         (* a = E.encode(x); a.decode(); a.decode_to_str(); E.encode(a) *)
  | KDecode (a : enum_array)              (* EnumArray(a, pv).decode() / .decode_to_str() *)
  | KIntToIndex (e : enum) (l : list Z)   (* _utils._int_to_index(E, l) *)
  | KStrToIndex (e : enum) (l : list string)  (* _utils._str_to_index(E, l) *)
  | KEnumToIndex (l : list member)        (* _utils._enum_to_index(l) *)
  | KArgsort (e : enum)                   (* numpy.argsort(E.names) *)
  | KSearch (e : enum) (s : string)       (* numpy.searchsorted(E.names, s, sorter=argsort) *)
  | KViews (e : enum) (x : input) (sel : list (list nat))
                                          (* a = E.encode(x), decoded both ways; then parts and reorderings of a
                                             (slices, masks, fancy indexing, copies: each given by the positions
                                             of a it keeps, in order), each decoded both ways; then a again.
                                             The model has no state: the decoding of a part is the decoding of
                                             the indices at those positions *)
  | KLong (e : enum) (runs : list (Z * elem))
                                          (* E.encode of a long list / tuple given run by run (count, element);
                                             the answer is the run-length compression of the index array *)
  | KMulti (l : list (enum * input)).     (* the KRound operation on several enumerations that share their
                                             class name, one after the other in one process; the model has
                                             no state: every step is answered by its own enumeration *)

Definition omember (m : member) : obs := OL [OZ (mid m); OZ (Z.of_nat (midx m)); OS (mname m)].
Definition ozs (l : list Z) : obs := olist OZ l.

Definition round_obs (e : enum) (x : input) : obs :=
  match encode e x with
  | Err k => OErr k
  | Ok a => OL [ozs (indices a);
                ores (olist omember) (decode a);
                ores (olist OS) (decode_to_str a);
                ores (fun b => ozs (indices b)) (encode e (Encoded a))]
  end.

Definition decode_obs (a : enum_array) : obs :=
  OL [ozs (indices a); ores (olist omember) (decode a); ores (olist OS) (decode_to_str a)].

Definition expand (runs : list (Z * elem)) : list elem :=
  flat_map (fun r => repeat (snd r) (Z.to_nat (fst r))) runs.

(** run-length compression: (value, number of consecutive occurrences) *)
Fixpoint rle (l : list Z) : list (Z * Z) :=
  match l with
  | [] => []
  | x :: r => match rle r with
              | (y, c) :: t => if x =? y then (y, c + 1) :: t else (x, 1) :: (y, c) :: t
              | [] => [(x, 1)]
              end
  end.

Definition take (l : list Z) (ps : list nat) : list Z := map (fun p => nth p l (-1)) ps.

Definition run (c : case) : obs :=
  match c with
  | KEncode e x => ores (fun a => ozs (indices a)) (encode e x)
  | KRound e x => round_obs e x
  | KViews e x sel =>
      match encode e x with
      | Err k => OErr k
      | Ok a => OL (decode_obs a
                    :: map (fun ps => decode_obs (mkArr (possible_values a) (take (indices a) ps))) sel
                    ++ [decode_obs a])
      end
  | KLong e runs =>
      ores (fun a => olist (fun p => OL [OZ (snd p); OZ (fst p)]) (rle (indices a)))
           (encode e (Seq (expand runs)))
  | KMulti l => OL (map (fun p => round_obs (fst p) (snd p)) l)
  | KDecode a => OL [ores (olist omember) (decode a); ores (olist OS) (decode_to_str a)]
  | KIntToIndex e l => ozs (int_to_index e l)
  | KStrToIndex e l => ores ozs (str_to_index e l)
  | KEnumToIndex l => ozs (enum_to_index l)
  | KArgsort e => olist (fun i => OZ (Z.of_nat i)) (argsort (names e))
  | KSearch e s => ores (fun p => OZ (Z.of_nat p)) (searchsorted (names e) (argsort (names e)) s)
  end.
