(** Correspondence glue of C19 (dump and restore).

    A case: a rule system, whether the tax-benefit system has the group entity, a
    population (group count, members_entity_id, roles, person ids, group ids), whether the
    target directory already holds a file, the requests before the dump and the requests
    after it (run on the original and on the restored simulation).  The observation also
    says whether the state that is dumped satisfies the decidable form of the hypotheses of
    restore_dump_identity ([dumpable_b]); the harness expects [true] for every case.

    File names: the model's [show]/[parse] are instantiated here with a concrete, total,
    injective text encoding of periods ([show_enc] / [parse_enc]; round trip proved in
    proofs/DumpProofs.v for EVERY period).  The real names are str(period); their round
    trip on storable periods is C05's theorem and a hypothesis of the C19 theorems.  File
    names themselves are never compared between model and implementation, only how many
    files every variable directory holds. *)
From Coq Require Import ZArith List Bool String Ascii.
From Verif Require Import Base Obs Cal Tables Period Np Group Param Engine CorrEng Dump.
Import ListNotations.
Local Notation length := List.length.

(** * An injective text encoding of periods *)

Fixpoint enc_pos (p : positive) : string :=
  match p with
  | xH => "e"%string
  | xO q => String "0"%char (enc_pos q)
  | xI q => String "1"%char (enc_pos q)
  end.

Definition enc_z (z : Z) : string :=
  match z with
  | Z0 => "z"%string
  | Zpos p => String "p"%char (enc_pos p)
  | Zneg p => String "n"%char (enc_pos p)
  end.

Definition enc_unit (u : unit_t) : string :=
  match u with
  | Weekday => "w" | Week => "W" | Day => "D" | Month => "M" | Year => "Y" | Eternity => "E"
  end%string.

Definition show_enc (p : period) : string :=
  let '(u, (y, m, d), n) := p in
  (enc_unit u ++ enc_z y ++ enc_z m ++ enc_z d ++ enc_z n)%string.

Fixpoint dec_pos (s : string) : option (positive * string) :=
  match s with
  | EmptyString => None
  | String c r =>
      if Ascii.eqb c "e" then Some (xH, r)
      else if Ascii.eqb c "0" then match dec_pos r with Some (q, r') => Some (xO q, r') | None => None end
      else if Ascii.eqb c "1" then match dec_pos r with Some (q, r') => Some (xI q, r') | None => None end
      else None
  end.

Definition dec_z (s : string) : option (Z * string) :=
  match s with
  | EmptyString => None
  | String c r =>
      if Ascii.eqb c "z" then Some (0%Z, r)
      else if Ascii.eqb c "p" then match dec_pos r with Some (q, r') => Some (Zpos q, r') | None => None end
      else if Ascii.eqb c "n" then match dec_pos r with Some (q, r') => Some (Zneg q, r') | None => None end
      else None
  end.

Definition dec_unit (s : string) : option (unit_t * string) :=
  match s with
  | EmptyString => None
  | String c r =>
      if Ascii.eqb c "w" then Some (Weekday, r)
      else if Ascii.eqb c "W" then Some (Week, r)
      else if Ascii.eqb c "D" then Some (Day, r)
      else if Ascii.eqb c "M" then Some (Month, r)
      else if Ascii.eqb c "Y" then Some (Year, r)
      else if Ascii.eqb c "E" then Some (Eternity, r)
      else None
  end.

Definition parse_enc (s : string) : res period :=
  match dec_unit s with
  | None => Err EPeriod
  | Some (u, s1) =>
      match dec_z s1 with
      | None => Err EPeriod
      | Some (y, s2) =>
          match dec_z s2 with
          | None => Err EPeriod
          | Some (m, s3) =>
              match dec_z s3 with
              | None => Err EPeriod
              | Some (d, s4) =>
                  match dec_z s4 with
                  | Some (n, EmptyString) => Ok (u, (y, m, d), n)
                  | _ => Err EPeriod
                  end
              end
          end
      end
  end.

(** * Cases *)

Inductive case :=
  | CDump (sy : sys) (has_group : bool) (count : nat) (ids roles pids gids : list nat)
          (pos : option (list nat))   (* members_position set explicitly by the situation *)
          (dirty : bool) (before after : list request)
  | CSkip         (* a value that is not an exact small integer: not sent to the model *)
  | CRich.        (* oracle-only stream: enum / str / date variables, several group entities *)

Definition mk_simu0 (has_group : bool) (count : nat) (ids roles pids gids : list nat) : simu :=
  {| u_pcount := length pids; u_pids := pids;
     u_gcount := if has_group then count else 0;
     u_gids := if has_group then gids else [];
     u_members := if has_group then ids else [];
     u_roles := if has_group then roles else [];
     u_pos := None; u_st := init [] |}.

Definition with_pos (u : simu) (pos : option (list nat)) : simu :=
  {| u_pcount := u_pcount u; u_pids := u_pids u; u_gcount := u_gcount u; u_gids := u_gids u;
     u_members := u_members u; u_roles := u_roles u; u_pos := pos; u_st := u_st u |}.

Definition onats (l : list nat) : obs := olist (fun n => OZ (Z.of_nat n)) l.

(** ids, counts, memberships, roles, positions *)
Definition ostruct (og : option gentity) (u : simu) : obs :=
  OL [ onats (u_pids u); OZ (Z.of_nat (u_pcount u));
       match og with
       | None => ONone
       | Some _ => OL [ onats (u_gids u); OZ (Z.of_nat (u_gcount u)); onats (u_members u);
                        onats (u_roles u); ores onats (positions u) ]
       end ].

(** how many files every variable directory holds (directories without a file are not
    listed), and how many entity files there are *)
Definition ofiles (nvars : nat) (f : fs) : obs :=
  OL [ OL (flat_map (fun v => match length (listdir_var v f) with
                              | O => []
                              | n => [OL [OZ (Z.of_nat v); OZ (Z.of_nat n)]]
                              end) (seq 0 nvars));
       OZ (Z.of_nat (length (filter (fun e => match fst e with PVar _ _ => false | _ => true end) f))) ].

Definition oanswers (l : list answer) : obs := OL (map oanswer l).

Definition junk : fs := [(PVar 0 "junk"%string, CScalar)].

Definition run (c : case) : obs :=
  match c with
  | CSkip => OS "skip"%string
  | CRich => OS "oracle-only"%string
  | CDump sy hg count ids roles pids gids pos dirty before after =>
      let og := if hg then Some std_entity else None in
      let u0 := with_pos (mk_simu0 hg count ids roles pids gids) (if hg then pos else None) in
      let pp := pop_of og u0 in
      let fuel := enough_fuel sy in
      let '(s1, a1) := Engine.run fuel sy pp (init []) before in
      let u1 := with_st u0 s1 in
      OL [ oanswers a1; ocache (cache s1); ostruct og u1; OB (dumpable_b sy og u1);
           match dump_simulation show_enc sy og u1 (if dirty then junk else []) with
           | Err e => OErr e
           | Ok f =>
               OL [ ofiles (length (vars sy)) f;
                    match restore_simulation parse_enc sy og f with
                    | Err e => OErr e
                    | Ok u2 =>
                        let '(so, ao) := Engine.run fuel sy pp s1 after in
                        let '(sr, ar) := Engine.run fuel sy (pop_of og u2) (u_st u2) after in
                        OL [ ocache (cache (u_st u2)); ostruct og u2;
                             oanswers ao; oanswers ar; ocache (cache so); ocache (cache sr) ]
                    end ]
           end ]
  end.
