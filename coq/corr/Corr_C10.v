(** Correspondence glue for C10: the operations of GroupPopulation / Population /
    projectors the harness runs on both sides and how the model's answers are rendered
    as observations.  Depends on the model only.  The harness writes everything as [Z]
    (cases files are in Z_scope); [pop] converts. *)
From Coq Require Import String ZArith List Bool.
From Verif Require Import Base Obs Np Group.
Import ListNotations.
Open Scope string_scope.
Open Scope res_scope.

Definition pop (e : gentity) (count : Z) (ids roles : list Z) : gpop :=
  Build_gpop e (Z.to_nat count) (map Z.to_nat ids) (map Z.to_nat roles).

Definition role_row (key : string) (mx : option Z) (subs : list Z) (top : bool) : role_info :=
  Build_role_info key (option_map Z.to_nat mx) (map Z.to_nat subs) top.

Inductive case :=
  | KSum (w : simulation) (k : Z) (vals : list Z) (role : option Z)
  | KAny (w : simulation) (k : Z) (vals : list Z) (role : option Z)
  | KAll (w : simulation) (k : Z) (vals : list Z) (role : option Z)
  | KMin (w : simulation) (k : Z) (vals : list Z) (role : option Z)
  | KMax (w : simulation) (k : Z) (vals : list Z) (role : option Z)
  | KNb (w : simulation) (k : Z) (role : option Z)
  | KVfp (w : simulation) (k : Z) (vals : list Z) (role : Z) (default : Z)
  | KNth (w : simulation) (k : Z) (n : Z) (vals : list Z) (default : Z)
  | KFirst (w : simulation) (k : Z) (vals : list Z)
  | KProject (w : simulation) (k : Z) (vals : list Z) (role : option Z)
  | KPositions (w : simulation) (k : Z)
  | KOmm (w : simulation) (k : Z)
  | KRank (w : simulation) (k : Z) (crit : list Z) (cond : option (list bool))
  (* population.a.b.c then: term 0 = transform_and_bubble_up(vals), 1 = .sum(vals, role),
     2 = .nb_persons(role) *)
  | KChain (w : simulation) (start : option Z) (path : list string) (term : Z)
           (vals : list Z) (role : option Z).

Definition oext (x : ext) : obs :=
  match x with Fin z => OZ z | PInf => OS "inf" | NInf => OS "-inf" end.
Definition onat (n : nat) : obs := OZ (Z.of_nat n).
Definition orole (r : option Z) : option nat := option_map Z.to_nat r.

Definition with_group (w : simulation) (k : Z) (f : gpop -> obs) : obs :=
  match get_group w (Z.to_nat k) with Ok p => f p | Err e => OErr e end.

Definition start_ref (s : option Z) : popref :=
  match s with None => PersonPop | Some k => GroupPop (Z.to_nat k) end.

Definition run_chain (w : simulation) (start : option Z) (path : list string) (term : Z)
    (vals : list Z) (role : option Z) : res (list Z) :=
  let* cr := resolve w (start_ref start) path [] in
  let '(chain, cur) := cr in
  if (term =? 0)%Z then transform_and_bubble_up w chain vals
  else
    match cur with
    | PersonPop => Err EOther      (* Population has no sum / nb_persons: AttributeError *)
    | GroupPop k =>
        let* p := get_group w k in
        let* r := (if (term =? 1)%Z then sum p vals (orole role) else nb_persons p (orole role)) in
        transform_and_bubble_up w chain r
    end.

Definition run (c : case) : obs :=
  match c with
  | KSum w k vals role => with_group w k (fun p => ores (olist OZ) (sum p vals (orole role)))
  | KAny w k vals role => with_group w k (fun p => ores (olist OB) (any p vals (orole role)))
  | KAll w k vals role => with_group w k (fun p => ores (olist OB) (all p vals (orole role)))
  | KMin w k vals role => with_group w k (fun p => ores (olist oext) (min p vals (orole role)))
  | KMax w k vals role => with_group w k (fun p => ores (olist oext) (max p vals (orole role)))
  | KNb w k role => with_group w k (fun p => ores (olist OZ) (nb_persons p (orole role)))
  | KVfp w k vals role default =>
      with_group w k (fun p => ores (olist OZ) (value_from_person p vals (Z.to_nat role) default))
  | KNth w k n vals default =>
      with_group w k (fun p => ores (olist OZ) (value_nth_person p n vals default))
  | KFirst w k vals => with_group w k (fun p => ores (olist OZ) (value_from_first_person p vals))
  | KProject w k vals role => with_group w k (fun p => ores (olist OZ) (project p vals (orole role)))
  | KPositions w k => with_group w k (fun p => ores (olist onat) (members_position p))
  | KOmm w k => with_group w k (fun p => olist onat (ordered_members_map p))
  | KRank w k crit cond =>
      with_group w k (fun p =>
        let c := match cond with Some c => c | None => full (length crit) true end in
        ores (olist OZ) (get_rank p crit c))
  | KChain w start path term vals role => ores (olist OZ) (run_chain w start path term vals role)
  end.

(** Several operations requested one after the other on ONE simulation (the
    implementation may keep state between them -- caches of role filters, members maps;
    the model is pure, so the expected answers are those of the single operations). *)
Inductive mcase := One (c : case) | Multi (cs : list case).

Definition run_m (m : mcase) : obs :=
  match m with
  | One c => run c
  | Multi cs => OL (map run cs)
  end.
