(** Correspondence glue for C09: the tax-scale transformations the harness runs on the
    real classes, evaluated on the model (Scale.v + ScaleOps.v).

    A scale is given as the list of its add_bracket calls, in call order.

    Real-valued results.  The implementation computes in binary64, the model in Q.  Every
    case carries [hints]: the implementation's own numbers (converted exactly to
    rationals), one list per real-valued field of the observation.  A model number [m] is
    rendered
      - as itself when the field is compared exactly (thresholds that are copied, sums and
        products the harness has checked to be representable), and
      - as the hint [i] when |m - i| <= 1e-9 * max(1, |m|), as itself otherwise,
    so that the rendered observation equals the implementation's one exactly when every
    number agrees (exactly / within the tolerance), and shows the model's value where it
    does not.  Without hints (the implementation raised) the model's values are rendered
    as they are. *)
From Coq Require Import ZArith QArith Qminmax Qabs List Bool String.
From Verif Require Import Base Obs Scale ScaleOps.
Import ListNotations.
Open Scope Q_scope.

Definition tol : Q := 1 # 1000000000.
Definition approx (m i : Q) : bool := Qle_bool (Qabs (m - i)) (tol * Qmax 1 (Qabs m)).

Definition snap (exact : bool) (m i : Q) : obs :=
  if exact then OQ m else if approx m i then OQ i else OQ m.

Fixpoint snaps (exact : bool) (ms hints : list Q) : list obs :=
  match ms with
  | [] => []
  | m :: ms' => match hints with
                | i :: hs => snap exact m i :: snaps exact ms' hs
                | [] => OQ m :: snaps exact ms' []
                end
  end.

Definition hint (h : list (list Q)) (k : nat) : list Q := nth k h [].

(* a scale: thresholds then rates; the hints [kt], [kr] are used when not exact *)
Definition oscale (et er : bool) (s : scale) (h : list (list Q)) (kt kr : nat) : obs :=
  OL [OL (snaps et (thresholds s) (hint h kt)); OL (snaps er (rates s) (hint h kr))].
(* a scale that must be structurally the argument: no tolerance anywhere *)
Definition oscale_exact (s : scale) : obs := oscale true true s [] 0 0.

Definition oext (e : ext) : obs := match e with Fin q => OQ q | Inf => OS "inf" end.
Definition oescale (er : bool) (s : escale) (h : list (list Q)) (kr : nat) : obs :=
  OL [OL (map oext (ethresholds s)); OL (snaps er (erates s) (hint h kr))].

Definition oamounts (vs : list Q) (h : list (list Q)) (k : nat) : obs := OL (snaps false vs (hint h k)).

Definition ocall (et er : bool) (eps : Q) (c : call) (bases : list Q) (h : list (list Q)) : obs :=
  OL [oscale et er (returned c) h 0 1;
      oscale et er (self_after c) h 2 3;
      OB (aliased c);
      oamounts (calc_marginal eps 1 None (returned c) bases) h 4].

Definition calls := list (Q * Q).

Inductive case :=
  (* s1.add_tax_scale(s2): s1 after, s2 after, s1.calc(bases) *)
  | KCombine (eps : Q) (c1 c2 : calls) (bases : list Q) (h : list (list Q))
  (* s.add_tax_scale(o) for every o in turn *)
  | KCombineSeq (eps : Q) (c : calls) (others : list calls) (bases : list Q) (h : list (list Q))
  (* helpers.combine_tax_scales(node, combined): children None = not a marginal-rate scale *)
  | KCombineNode (eps : Q) (combined : option calls) (node : list (option calls)) (bases : list Q)
                 (h : list (list Q))
  (* inv = s.inverse(): inv, s after, inv.calc(g - s.calc(g)) for the gross amounts *)
  | KInverse (eps : Q) (c : calls) (gross : list Q) (h : list (list Q))
  (* s.multiply_thresholds(factor, decimals, inplace, new_name); calc at the given bases *)
  | KMulThr (eps factor : Q) (decimals : option Z) (inplace new_name exact : bool) (c : calls)
            (bases : list Q) (h : list (list Q))
  | KMulRates (eps factor : Q) (inplace new_name exact : bool) (c : calls) (bases : list Q)
              (h : list (list Q))
  | KScaleTS (eps factor : Q) (exact : bool) (c : calls) (bases : list Q) (h : list (list Q))
  (* s.to_average() *)
  | KToAverage (c : calls) (h : list (list Q))
  (* LinearAverageRateTaxScale built by add_bracket calls (thresholds may be inf).to_marginal() *)
  | KToMarginal (c : list (ext * Q)) (h : list (list Q))
  (* s.to_average().to_marginal(): result, s after, result.calc(bases) *)
  | KAvgMarg (eps : Q) (c : calls) (bases : list Q) (h : list (list Q))
  (* s.copy() *)
  | KCopy (eps : Q) (c : calls) (bases : list Q) (h : list (list Q)).

Definition run (k : case) : obs :=
  match k with
  | KCombine eps c1 c2 bases h =>
      let r := add_tax_scale (build c1) (build c2) in
      OL [oscale_exact r; oscale_exact (build c2); oamounts (calc_marginal eps 1 None r bases) h 0]
  | KCombineSeq eps c others bases h =>
      let r := add_tax_scales (build c) (map build others) in
      OL [oscale_exact r; olist oscale_exact (map build others);
          oamounts (calc_marginal eps 1 None r bases) h 0]
  | KCombineNode eps combined node bases h =>
      match combine_tax_scales (map (option_map build) node) (option_map build combined) with
      | None => ONone
      | Some r => OL [oscale_exact r; oamounts (calc_marginal eps 1 None r bases) h 0]
      end
  | KInverse eps c gross h =>
      let s := build c in
      match inverse s with
      | Err e => OErr e
      | Ok inv => OL [oscale true false inv h 0 0; oscale_exact s;
                      oamounts (map (fun g => calc_eps eps inv (net_of eps s g)) gross) h 1]
      end
  | KMulThr eps factor decimals inplace new_name exact c bases h =>
      ores (fun r => ocall exact true eps r bases h)
           (multiply_thresholds_call factor decimals inplace new_name (build c))
  | KMulRates eps factor inplace new_name exact c bases h =>
      ores (fun r => ocall true exact eps r bases h)
           (multiply_rates_call factor inplace new_name (build c))
  | KScaleTS eps factor exact c bases h =>
      ores (fun r => ocall exact true eps r bases h) (scale_tax_scales_call factor (build c))
  | KToAverage c h =>
      let s := build c in
      ores (fun a => OL [oescale false a h 0; oscale_exact s]) (to_average s)
  | KToMarginal c h =>
      ores (fun m => oscale true false m h 0 0) (to_marginal (ebuild c))
  | KAvgMarg eps c bases h =>
      let s := build c in
      ores (fun m => OL [oscale true false m h 0 0; oscale_exact s;
                         oamounts (calc_marginal eps 1 None m bases) h 1])
           (average_then_marginal s)
  | KCopy eps c bases h =>
      let r := copy_call (build c) in
      OL [oscale_exact (returned r); oscale_exact (self_after r); OB (aliased r);
          oamounts (calc_marginal eps 1 None (returned r) bases) h 0]
  end.
