(** Correspondence glue for C09: the tax-scale transformations the harness runs on the
    real classes, evaluated on the model (Scale.v + ScaleOps.v).

    A scale is given as the list of its add_bracket calls, in call order.

    Real-valued results.  The implementation computes in binary64, the model in Q.  Every
    case carries [hints]: the implementation's own numbers (converted exactly to
    rationals), one list per real-valued field of the observation.  A model number [m] is
    rendered
      - as itself when the field is compared exactly (thresholds that are copied, sums and
        products the harness has checked to be representable), and
      - as the hint [i] when |m - i| <= 1e-9 * max(1, |m|), as itself otherwise,
    so that the rendered observation equals the implementation's one exactly when every
    number agrees (exactly / within the tolerance), and shows the model's value where it
    does not.  Without hints (the implementation raised) the model's values are rendered
    as they are. *)
From Coq Require Import ZArith QArith Qminmax Qabs List Bool String.
From Verif Require Import Base Obs Scale ScaleOps.
Import ListNotations.
Open Scope Q_scope.

Definition tol : Q := 1 # 1000000000.
Definition approx (m i : Q) : bool := Qle_bool (Qabs (m - i)) (tol * Qmax 1 (Qabs m)).

Definition snap (exact : bool) (m i : Q) : obs :=
  if exact then OQ m else if approx m i then OQ i else OQ m.

Fixpoint snaps (exact : bool) (ms hints : list Q) : list obs :=
  match ms with
  | [] => []
  | m :: ms' => match hints with
                | i :: hs => snap exact m i :: snaps exact ms' hs
                | [] => OQ m :: snaps exact ms' []
                end
  end.

Definition hint (h : list (list Q)) (k : nat) : list Q := nth k h [].

(* a scale: thresholds then rates; the hints [kt], [kr] are used when not exact *)
Definition oscale (et er : bool) (s : scale) (h : list (list Q)) (kt kr : nat) : obs :=
  OL [OL (snaps et (thresholds s) (hint h kt)); OL (snaps er (rates s) (hint h kr))].
(* a scale that must be structurally the argument: no tolerance anywhere *)
Definition oscale_exact (s : scale) : obs := oscale true true s [] 0 0.

Definition oext (e : ext) : obs := match e with Fin q => OQ q | Inf => OS "inf" end.
Definition oescale (er : bool) (s : escale) (h : list (list Q)) (kr : nat) : obs :=
  OL [OL (map oext (ethresholds s)); OL (snaps er (erates s) (hint h kr))].

Definition oamounts (vs : list Q) (h : list (list Q)) (k : nat) : obs := OL (snaps false vs (hint h k)).

Definition ocall (et er : bool) (eps : Q) (c : call) (bases : list Q) (h : list (list Q)) : obs :=
  OL [oscale et er (returned c) h 0 1;
      oscale et er (self_after c) h 2 3;
      OB (aliased c);
      oamounts (calc_marginal eps 1 None (returned c) bases) h 4].

Definition calls := list (Q * Q).

(** One step of a program on the current scale object.  In place: the object is changed and
    stays the current one; not in place / copy / scale_tax_scales: the returned object
    becomes the current one and the old one must be left as it was. *)
Inductive step :=
  | SMulThr (factor : Q) (decimals : option Z) (inplace : bool)
  | SMulRates (factor : Q) (inplace : bool)
  | SCopy
  | SScaleTS (factor : Q)
  | SAddBracket (t r : Q)
  | SCombine (other : calls).          (* current.add_tax_scale(other) *)

Definition apply_step (st : step) (s : scale) : res call :=
  match st with
  | SMulThr f d inplace => multiply_thresholds_call f d inplace false s
  | SMulRates f inplace => multiply_rates_call f inplace false s
  | SCopy => Ok (copy_call s)
  | SScaleTS f => scale_tax_scales_call f s
  | SAddBracket t r =>
      let s' := add_bracket t r s in Ok {| self_after := s'; returned := s'; aliased := true |}
  | SCombine o =>
      let s' := add_tax_scale s (build o) in Ok {| self_after := s'; returned := s'; aliased := true |}
  end.

(* the bases at which the threshold-scaling law is observed after the step *)
Definition step_bases (st : step) (bases : list Q) : list Q :=
  match st with
  | SMulThr f _ _ | SScaleTS f => map (Qmult f) bases
  | _ => []
  end.

(* hints of stage k: fields 8k .. 8k+7 *)
Definition probe_obs (eps : Q) (probe : calls) (bases : list Q) (h : list (list Q)) (k : nat) (s : scale)
  : obs :=
  let b := (8 * k)%nat in
  OL [oscale_exact s;
      oamounts (calc_marginal eps 1 None s bases) h b;
      match inverse s with
      | Err e => OErr e
      | Ok inv => OL [oscale true false inv h (b + 1) (b + 1);
                      oamounts (map (fun g => calc_eps eps inv (Qred (net_of eps s g))) bases) h (b + 2)]
      end;
      ores (fun a => oescale false a h (b + 6)) (to_average s);
      ores (fun m => OL [oscale true false m h (b + 3) (b + 3);
                         oamounts (calc_marginal eps 1 None m bases) h (b + 4)])
           (average_then_marginal s);
      (let r := add_tax_scale (build probe) s in
       OL [oscale_exact r; oamounts (calc_marginal eps 1 None r bases) h (b + 5)])].

(* same scale, every number in lowest terms (nothing depends on the representation of a
   rational; without this numerators and denominators grow with every step) *)
Definition qred_scale (s : scale) : scale := map (fun tr => (Qred (fst tr), Qred (snd tr))) s.

Fixpoint run_prog (eps : Q) (probe : calls) (bases : list Q) (h : list (list Q)) (k : nat)
         (steps : list step) (s : scale) : list obs :=
  probe_obs eps probe bases h k s ::
  match steps with
  | [] => []
  | st :: rest =>
      match apply_step st s with
      | Err e => [OErr e]
      | Ok c =>
          OL [oscale_exact (self_after c); OB (aliased c);
              oamounts (calc_marginal eps 1 None (returned c) (step_bases st bases)) h (8 * k + 7)]
          :: run_prog eps probe bases h (S k) rest (qred_scale (returned c))
      end
  end.

Inductive case :=
  (* s1.add_tax_scale(s2): s1 after, s2 after, s1.calc(bases) *)
  | KCombine (eps : Q) (c1 c2 : calls) (bases : list Q) (h : list (list Q))
  (* s.add_tax_scale(o) for every o in turn *)
  | KCombineSeq (eps : Q) (c : calls) (others : list calls) (bases : list Q) (h : list (list Q))
  (* helpers.combine_tax_scales(node, combined): children None = not a marginal-rate scale *)
  | KCombineNode (eps : Q) (combined : option calls) (node : list (option calls)) (bases : list Q)
                 (h : list (list Q))
  (* inv = s.inverse(): inv, s after, inv.calc(g - s.calc(g)) for the gross amounts *)
  | KInverse (eps : Q) (c : calls) (gross : list Q) (h : list (list Q))
  (* s.multiply_thresholds(factor, decimals, inplace, new_name); calc at the given bases *)
  | KMulThr (eps factor : Q) (decimals : option Z) (inplace new_name exact : bool) (c : calls)
            (bases : list Q) (h : list (list Q))
  | KMulRates (eps factor : Q) (inplace new_name exact : bool) (c : calls) (bases : list Q)
              (h : list (list Q))
  | KScaleTS (eps factor : Q) (exact : bool) (c : calls) (bases : list Q) (h : list (list Q))
  (* s.to_average() *)
  | KToAverage (c : calls) (h : list (list Q))
  (* LinearAverageRateTaxScale built by add_bracket calls (thresholds may be inf).to_marginal() *)
  | KToMarginal (c : list (ext * Q)) (h : list (list Q))
  (* s.to_average().to_marginal(): result, s after, result.calc(bases) *)
  | KAvgMarg (eps : Q) (c : calls) (bases : list Q) (h : list (list Q))
  (* s.copy() *)
  | KCopy (eps : Q) (c : calls) (bases : list Q) (h : list (list Q))
  (* s.calc(big vector)[sampled indices]: the scale and the amounts at the sampled bases *)
  | KCalc (eps : Q) (c : calls) (bases : list Q) (h : list (list Q))
  (* a sequence of transformations of ONE scale object; before the first and after every
     step the current object is probed: calc, inverse (+ round trip), to_average,
     to_average().to_marginal(), and probe.add_tax_scale(current) *)
  | KProg (eps : Q) (c : calls) (probe : calls) (steps : list step) (bases : list Q)
          (h : list (list Q)).

Definition run (k : case) : obs :=
  match k with
  | KCombine eps c1 c2 bases h =>
      let r := add_tax_scale (build c1) (build c2) in
      OL [oscale_exact r; oscale_exact (build c2); oamounts (calc_marginal eps 1 None r bases) h 0]
  | KCombineSeq eps c others bases h =>
      let r := add_tax_scales (build c) (map build others) in
      OL [oscale_exact r; olist oscale_exact (map build others);
          oamounts (calc_marginal eps 1 None r bases) h 0]
  | KCombineNode eps combined node bases h =>
      match combine_tax_scales (map (option_map build) node) (option_map build combined) with
      | None => ONone
      | Some r => OL [oscale_exact r; oamounts (calc_marginal eps 1 None r bases) h 0]
      end
  | KInverse eps c gross h =>
      let s := build c in
      match inverse s with
      | Err e => OErr e
      | Ok inv => OL [oscale true false inv h 0 0; oscale_exact s;
                      oamounts (map (fun g => calc_eps eps inv (Qred (net_of eps s g))) gross) h 1]
      end
  | KMulThr eps factor decimals inplace new_name exact c bases h =>
      ores (fun r => ocall exact true eps r bases h)
           (multiply_thresholds_call factor decimals inplace new_name (build c))
  | KMulRates eps factor inplace new_name exact c bases h =>
      ores (fun r => ocall true exact eps r bases h)
           (multiply_rates_call factor inplace new_name (build c))
  | KScaleTS eps factor exact c bases h =>
      ores (fun r => ocall exact true eps r bases h) (scale_tax_scales_call factor (build c))
  | KToAverage c h =>
      let s := build c in
      ores (fun a => OL [oescale false a h 0; oscale_exact s]) (to_average s)
  | KToMarginal c h =>
      ores (fun m => oscale true false m h 0 0) (to_marginal (ebuild c))
  | KAvgMarg eps c bases h =>
      let s := build c in
      ores (fun m => OL [oscale true false m h 0 0; oscale_exact s;
                         oamounts (calc_marginal eps 1 None m bases) h 1])
           (average_then_marginal s)
  | KCopy eps c bases h =>
      let r := copy_call (build c) in
      OL [oscale_exact (returned r); oscale_exact (self_after r); OB (aliased r);
          oamounts (calc_marginal eps 1 None (returned r) bases) h 0]
  | KCalc eps c bases h =>
      let s := build c in OL [oscale_exact s; oamounts (calc_marginal eps 1 None s bases) h 0]
  | KProg eps c probe steps bases h => OL (run_prog eps probe bases h 0 steps (build c))
  end.
