(** Correspondence side of C12: what the harness asks the model of the situation builder.
    One case = one tax-benefit system, the external tables (tokenised period keys / date
    texts, numexpr evaluations, Python's set order of the person ids) and a list of situation
    documents; the observation is the list of the observations of each built simulation. *)
From Coq Require Import ZArith QArith List Bool String.
From Verif Require Import Base Obs Cal Period Builder.
Import ListNotations.
Open Scope Z_scope.

Inductive case :=
  | CBuild (s : sys) (toks : list (string * pkey)) (evals : list (string * Q))
           (order : list string) (docs : list json).

(* iteration order of a set of person ids: the restriction of the order of set(persons_ids) *)
Definition order_of (order : list string) (l : list string) : list string :=
  filter (fun p => mem_str p l) order ++ filter (fun p => negb (mem_str p order)) l.

Definition ext_of (toks : list (string * pkey)) (evals : list (string * Q)) (order : list string)
  : ext :=
  mkExt (fun s => match aget s toks with Some k => k | None => KGarbage end)
        (fun s => aget s evals)
        (order_of order).

Definition unit_code (u : unit_t) : Z :=
  match u with Weekday => 0 | Week => 1 | Day => 2 | Month => 3 | Year => 4 | Eternity => 5 end.

Definition ocell (c : cell) : obs :=
  match c with CInt z => OZ z | CFloat q => OQ q | CBool b => OB b | CStr s => OS s end.

Definition operiod (p : period) : obs :=
  let '(u, (y, m, d), n) := p in OL [OZ (unit_code u); OZ y; OZ m; OZ d; OZ n].

Definition oholder (h : holder) : obs :=
  OL (map (fun pa => OL [operiod (fst pa); OL (map ocell (snd pa))]) h).

(* GroupPopulation.members_position: rank of each person among the members of its group *)
Fixpoint positions (seen : list Z) (m : list Z) : list Z :=
  match m with
  | [] => []
  | g :: m' => Z.of_nat (List.length (filter (Z.eqb g) seen)) :: positions (g :: seen) m'
  end.

Definition opop (s : sys) (p : population) : obs :=
  OL [OS (p_entity p);
      OL (map OS (p_ids p));
      OL (map OZ (p_members p));
      OL (map OS (p_mroles p));
      OL (map OZ (positions [] (p_members p)));
      OL (map (fun v => OL [OS (v_name v);
                            oholder (match aget (v_name v) (p_holders p) with
                                     | Some h => h | None => [] end)])
              (filter (fun v => String.eqb (v_entity v) (p_entity p)) (s_vars s)))].

Definition osim (s : sys) (r : res simulation) : obs :=
  match r with Ok pops => OL (map (opop s) pops) | Err e => OErr e end.

Definition run (c : case) : obs :=
  match c with
  | CBuild s toks evals order docs =>
      let x := ext_of toks evals order in
      OL (map (fun d => osim s (build_from_dict x s d)) docs)
  end.
