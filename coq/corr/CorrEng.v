(** Correspondence glue shared by the engine properties (C01 C02 C03 C17 C18 ...):
    a case is a rule system, a population and a sequence of top-level requests; the
    observation lists, for every request, the answer, the depth of the evaluation stack
    afterwards and the whole content of the holders afterwards (sorted). *)
From Coq Require Import ZArith List Bool String.
From Verif Require Import Base Obs Cal Tables Period Np Group Param Engine.
Import ListNotations.
Open Scope Z_scope.

Definition std_entity : gentity :=
  {| e_key := "household"%string;
     e_roles := [ {| r_key := "parent"%string; r_max := Some 2%nat; r_subs := []; r_top := true |};
                  {| r_key := "child"%string; r_max := None; r_subs := []; r_top := true |};
                  {| r_key := "head"%string; r_max := Some 1%nat; r_subs := []; r_top := true |} ];
     e_containing := [] |}.

Definition mk_pop (count : nat) (ids roles : list nat) : popu :=
  {| grp := {| g_entity := std_entity; g_count := count; g_ids := ids; g_roles := roles |} |}.

Inductive case :=
  | CEng (sy : sys) (pp : popu) (rs : list request)
  | CSkip.

Definition unit_code (u : unit_t) : Z :=
  match u with Weekday => 0 | Week => 1 | Day => 2 | Month => 3 | Year => 4 | Eternity => 5 end.

Definition key_code (k : key) : list Z :=
  let '(v, (u, (y, m, d), n)) := k in [Z.of_nat v; unit_code u; y; m; d; n].

Fixpoint lex_leb (a b : list Z) : bool :=
  match a, b with
  | [], _ => true
  | _, [] => false
  | x :: a', y :: b' => if x <? y then true else if y <? x then false else lex_leb a' b'
  end.

Fixpoint insert_entry (e : list Z * val) (l : list (list Z * val)) : list (list Z * val) :=
  match l with
  | [] => [e]
  | h :: t => if lex_leb (fst e) (fst h) then e :: l else h :: insert_entry e t
  end.

Definition ocache (c : list (key * val)) : obs :=
  let entries := fold_right insert_entry [] (map (fun kv => (key_code (fst kv), snd kv)) c) in
  OL (map (fun e => OL [olist OZ (fst e); olist OZ (snd e)]) entries).

Definition oanswer (a : answer) : obs :=
  match a with
  | AVal x => olist OZ x
  | AQuot x d => OL [olist OZ x; OZ d]
  | ANone => ONone
  | AErr e => OErr e
  end.

Fixpoint run_obs (fuel : nat) (sy : sys) (pp : popu) (s : st) (rs : list request) : list obs :=
  match rs with
  | [] => []
  | r :: rest =>
      let '(s1, a) := step fuel sy pp s r in
      OL [oanswer a; OZ (Z.of_nat (List.length (stack s1))); ocache (cache s1)]
      :: run_obs fuel (sys_after sy r) pp s1 rest
  end.

Definition run (c : case) : obs :=
  match c with
  | CEng sy pp rs => OL (run_obs (enough_fuel sy) sy pp (init []) rs)
  | CSkip => OS "skip"%string
  end.
