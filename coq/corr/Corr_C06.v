(** Correspondence glue for C06: the operations on parameter histories, nodes and
    scales that the harness runs on both sides, and how the model's answers are
    rendered as observations.  Depends on model files only. *)
From Coq Require Import ZArith List Bool String.
From Verif Require Import Base Obs Cal Period Param.
Import ListNotations.
Open Scope Z_scope.
Open Scope string_scope.

(** One call of update(period=, start=, stop=, value=). *)
Inductive uarg :=
  | UPeriod (p : period) (v : option Z)
  | URange (s e : option Z) (v : option Z)
  | UMixed (p : period) (s e : option Z) (v : option Z)
  (* the same call with a value of a type that is not allowed instead of v *)
  | UBad (u : uarg).

(** one step on a live tree: read it at the query dates, or edit a leaf through the nodes *)
Inductive top :=
  | TRead
  | TUpd (path : list pstep) (u : uarg).

Inductive case :=
  (* construct from data, snapshot; then after each update snapshot again *)
  | KParam (wrapped : bool) (entries : list (Z * yentry Z)) (ups : list uarg) (queries : list Z)
  (* a tree evaluated at each query date *)
  | KTree (t : tree) (queries : list Z)
  (* a tree read at the query dates, then edited through its nodes (a call of update on
     the leaf at [path]) and read again at the same dates, any number of times *)
  | KTreeOps (t : tree) (ops : list top) (queries : list Z)
  (* a flat group evaluated at each query date, then asked for vectors of member names *)
  | KLookup (ch : list (string * tree)) (queries : list Z) (keys : list (list string)).

(** history of a leaf of a generated tree (only loadable entries are generated there) *)
Definition yparam (entries : list (Z * yentry Z)) : hist Z :=
  match of_yaml false entries with Ok h => h | Err _ => [] end.

Definition run_call (h : hist Z) (u : uarg) (bad : bool) : res (hist Z) :=
  let val v := if bad then UIllTyped else UVal v in
  match u with
  | UPeriod p v => update_checked h (Some p) None None (val v)
  | URange s e v => update_checked h None s e (val v)
  | UMixed p s e v => update_checked h (Some p) s e (val v)
  | UBad _ => Err EOther     (* not generated: UBad is not nested *)
  end.

Definition run_update (h : hist Z) (u : uarg) : res (hist Z) :=
  match u with
  | UBad u' => run_call h u' true
  | _ => run_call h u false
  end.

(** values_list as (date, value) pairs, then the value at every query date *)
Definition snapshot (h : hist Z) (qs : list Z) : obs :=
  OL [ OL (map (fun kv => OL [OZ (fst kv); oopt OZ (snd kv)]) h);
       OL (map (fun d => oopt OZ (get_at h d)) qs) ].

(** a failed update leaves the history as it was *)
Fixpoint steps (h : hist Z) (us : list uarg) (qs : list Z) : list obs :=
  match us with
  | [] => []
  | u :: r =>
      match run_update h u, u with
      | Ok h' , _ => snapshot h' qs :: steps h' r qs
      (* after a call with an ill-typed value the parameter is looked at again *)
      | Err e, UBad _ => OL [OErr e; snapshot h qs] :: steps h r qs
      | Err e, _ => OErr e :: steps h r qs
      end
  end.

Definition kind_code (k : scale_kind) : Z :=
  match k with SingleAmount => 0 | MarginalAmount => 1 | LinearAverageRate => 2 | MarginalRate => 3 end.

Fixpoint oview (v : view) : obs :=
  match v with
  | VValue z => OZ z
  | VScale k l => OL [OS "scale"; OZ (kind_code k); OL (map (fun tx => OL [OZ (fst tx); OZ (snd tx)]) l)]
  | VNode ch => OL [OS "node"; OL (map (fun nc => OL [OS (fst nc); oview (snd nc)]) ch)]
  end.

Definition read_tree (t : tree) (qs : list Z) : obs :=
  OL (map (fun d => oopt oview (at_instant t d)) qs).

(** a refused update leaves the tree as it was *)
Fixpoint tree_steps (t : tree) (ops : list top) (qs : list Z) : list obs :=
  match ops with
  | [] => []
  | TRead :: r => read_tree t qs :: tree_steps t r qs
  | TUpd path u :: r =>
      match edit_at path (fun h => run_update h u) t with
      | Ok t' => OS "ok" :: tree_steps t' r qs
      | Err e => OErr e :: tree_steps t r qs
      end
  end.

Definition run (c : case) : obs :=
  match c with
  | KParam w entries ups qs =>
      match of_yaml w entries with
      | Err e => OErr e
      | Ok h => OL (snapshot h qs :: steps h ups qs)
      end
  | KTree t qs => read_tree t qs
  | KTreeOps t ops qs => OL (tree_steps t ops qs)
  | KLookup ch qs keys =>
      OL (map (fun d =>
                 match at_instant (TNode ch) d with
                 | Some (VNode l) =>
                     OL (map (fun key => match vector_lookup l key with
                                         | Ok zs => OL (map OZ zs)
                                         | Err e => OErr e
                                         end) keys)
                 | _ => OErr EOther
                 end) qs)
  end.
