(** Correspondence glue for C04: the operations of Period/Instant the harness runs on
    both sides, and how their results are rendered as observations. *)
From Coq Require Import ZArith List Bool String.
From Verif Require Import Base Obs Cal Tables Period.
Import ListNotations.
Open Scope Z_scope.
Open Scope string_scope.

Inductive case :=
  | KStop (p : period)
  | KDays (p : period)
  | KSize (which : Z) (p : period)   (* 0 years, 1 months, 2 days, 3 weeks, 4 weekdays *)
  | KContains (p q : period)
  | KInter (p : period) (a b : option date)
  | KSub (p : period) (u : unit_t)
  | KOffset (p : period) (n : Z) (u : option unit_t)
  | KNamed (name : string) (p : period)
  | KInstOffset (c : date) (n : Z) (u : unit_t)
  | KFirstOf (c : date) (u : unit_t)
  | KLastOf (c : date) (u : unit_t)
  | KIsocal (c : date)
  | KLe (a b : date).

Definition unit_code (u : unit_t) : Z :=
  match u with Weekday => 0 | Week => 1 | Day => 2 | Month => 3 | Year => 4 | Eternity => 5 end.

Definition operiod (p : period) : obs :=
  let '(u, s, n) := p in OL [OZ (unit_code u); odate s; OZ n].

Definition named (name : string) (p : period) : res period :=
  if name =? "this_year" then this_year p
  else if name =? "first_month" then first_month p
  else if name =? "first_week" then first_week p
  else if name =? "first_day" then first_day p
  else if name =? "first_weekday" then first_weekday p
  else if name =? "last_year" then last_year p
  else if name =? "n_2" then n_2 p
  else if name =? "last_month" then last_month p
  else if name =? "last_3_months" then last_3_months p
  else if name =? "last_week" then last_week p
  else if name =? "last_fortnight" then last_fortnight p
  else if name =? "last_2_weeks" then last_2_weeks p
  else if name =? "last_26_weeks" then last_26_weeks p
  else if name =? "last_52_weeks" then last_52_weeks p
  else Err EOther.

Definition run (c : case) : obs :=
  match c with
  | KStop p => odate (stop p)
  | KDays p => OZ (days p)
  | KSize w p =>
      ores OZ (if (w =? 0)%Z then size_in_years p else if (w =? 1)%Z then size_in_months p
               else if (w =? 2)%Z then size_in_days p else if (w =? 3)%Z then size_in_weeks p
               else size_in_weekdays p)
  | KContains p q => OB (contains p q)
  | KInter p a b => oopt operiod (intersection p a b)
  | KSub p u => ores (olist operiod) (subperiods p u)
  | KOffset p n u => ores operiod (offset p n u)
  | KNamed name p => ores operiod (named name p)
  | KInstOffset c n u => ores odate (instant_offset c n u)
  | KFirstOf c u => ores (oopt odate) (instant_first_of c u)
  | KLastOf c u => ores (oopt odate) (instant_last_of c u)
  | KIsocal c => let '(y, w, d) := isocalendar c in OL [OZ y; OZ w; OZ d]
  | KLe a b => OB (date_leb a b)
  end.
