(** Correspondence glue for C07: one case is an initial parameter tree and a sequence of
    operations (reads by every route, replacements of the tree, new reforms), each on one
    of the systems of a world that starts with one baseline; the observation is the list
    of answers.  Depends on model files only. *)
From Coq Require Import ZArith List Bool String.
From Verif Require Import Base Obs Cal Param ParamCache.
Import ListNotations.
Open Scope Z_scope.
Open Scope string_scope.

Inductive case :=
  | KSeq (t0 : tree) (ops : list (nat * op))
  (* a case whose values the model cannot express (inf, -0.0, 1e300 ...): run on the
     implementation and judged by the oracle only *)
  | KSkip.

(** history of a leaf of a generated tree (only loadable entries are generated) *)
Definition yparam (entries : list (Z * yentry Z)) : hist Z :=
  match of_yaml false entries with Ok h => h | Err _ => [] end.

(** The order of the members of a group is not compared: directories are listed in file
    system order, record arrays are built in sorted order.  Members are rendered sorted
    by name on both sides. *)
Fixpoint insert_by_name {A} (x : string * A) (l : list (string * A)) : list (string * A) :=
  match l with
  | [] => [x]
  | y :: r => if String.ltb (fst x) (fst y) then x :: l else y :: insert_by_name x r
  end.

Definition sort_by_name {A} (l : list (string * A)) : list (string * A) :=
  fold_right insert_by_name [] l.

Definition kind_code (k : scale_kind) : Z :=
  match k with SingleAmount => 0 | MarginalAmount => 1 | LinearAverageRate => 2 | MarginalRate => 3 end.

Fixpoint oview (v : view) : obs :=
  match v with
  | VValue z => OZ z
  | VScale k l => OL [OS "scale"; OZ (kind_code k); OL (map (fun tx => OL [OZ (fst tx); OZ (snd tx)]) l)]
  | VNode ch =>
      OL [OS "node";
          OL (map (fun nc => OL [OS (fst nc); snd nc])
                  (sort_by_name
                     ((fix go (l : list (string * view)) : list (string * obs) :=
                         match l with [] => [] | (n, c) :: r => (n, oview c) :: go r end) ch)))]
  end.

Definition ord_ (r : rd) : obs :=
  match r with
  | RNone => ONone
  | RView v => oview v
  | RRows l => OL [OS "rows"; OL (map oview l)]
  end.

Definition oans (a : ans) : obs :=
  let '(r, lg) := a in
  OL [ores ord_ r; OL (map (fun nx => OL [OS (fst nx); ord_ (snd nx)]) lg)].

Definition run (c : case) : obs :=
  match c with
  | KSeq t0 ops => OL (map oans (wrun Fixed (init t0) ops))
  | KSkip => ONone
  end.
