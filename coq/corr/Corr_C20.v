(** Correspondence glue for C20: what the harness posts to one application instance
    (or writes into one YAML file) and how the model's answers are rendered.

    Table-backed operations carry the engine values the harness obtained from its own
    simulations (one per slot), so the model answers with the handlers' glue only;
    engine-backed operations carry the rule system and the population and the model
    computes the values itself on the machine of Engine.v. *)
From Coq Require Import ZArith QArith List Bool String.
From Verif Require Import Base Obs Cal Period PeriodStr Np Group Param Engine CorrEng Api.
Import ListNotations.
Open Scope string_scope.
Open Scope Z_scope.

Definition vtable := list (string * (jtype * string)).           (* variable |-> type, entity plural *)
Definition idtable := list (string * list string).               (* entity plural |-> ids *)
Definition etable := list ((string * string) * res (list raw)).  (* (variable, period key) |-> array *)

Definition slookup {A} (k : string) (l : list (string * A)) : option A :=
  option_map snd (find (fun kv => String.eqb k (fst kv)) l).

Definition tlookup (t : etable) (v pk : string) : res (list raw) :=
  match find (fun kv => String.eqb v (fst (fst kv)) && String.eqb pk (snd (fst kv))) t with
  | Some kv => snd kv
  | None => Err ENotFound
  end.

Inductive op :=
  | OCalc (ids : idtable) (t : etable) (d : doc)                       (* POST /calculate *)
  | OTrace (ids : idtable) (t : etable) (d : doc)                      (* POST /trace *)
  | OCalcEng (pp : popu) (pids gids : list string) (d : doc)           (* POST /calculate, values from Engine.v *)
  | OTraceEng (pp : popu) (pids gids : list string) (d : doc)
  | OParam (k : nat)                                                   (* GET /parameter/p<k> *)
  | OVar (i : nat).                                                    (* GET /variable/<name i> *)

Inductive case :=
  | KApi (vs : vtable) (plurals : list string) (sy : sys) (names : list string) (ops : list op)
  | KYaml (vs : vtable) (singulars : list string) (tests : list (idtable * etable * ytest)).

Definition oleaf (l : leaf) : obs :=
  match l with
  | Null => ONone
  | Num z => OZ z
  | Flt q => OQ q
  | Bool b => OB b
  | Str s => OS s
  end.

Definition odoc (r : reply doc) : obs :=
  match r with
  | Refused _ | Crashed _ => OZ (status_of r)
  | Done d => OL (map (fun e => let '((a, b, c, k), l) := e in OL [OS a; OS b; OS c; OS k; oleaf l]) d)
  end.

Definition otrace (r : reply trace_out) : obs :=
  match r with
  | Refused _ | Crashed _ => OZ (status_of r)
  | Done t => OL [ olist OS (requested t);
                 OL (map (fun e => OL [OS (fst e); olist OS (snd e)]) (described t));
                 OL (map (fun e => OL [OS (fst e); olist oleaf (snd e)]) (traced t)) ]
  end.


Definition run_op (vs : vtable) (plurals : list string) (sy : sys) (names : list string) (o : op) : obs :=
  match o with
  | OCalc ids t d =>
      odoc (api_calculate (fun v => slookup v vs) (fun pl => slookup pl ids) eng_is_role eng_period_ok
                          table_build (table_calc (tlookup t)) d)
  | OTrace ids t d =>
      otrace (api_trace (fun v => slookup v vs) (fun pl => slookup pl ids) eng_is_role eng_period_ok
                        table_build (table_calc (tlookup t)) plurals eng_canon d)
  | OCalcEng pp pids gids d => odoc (api_calculate_eng sy pp names pids gids d)
  | OTraceEng pp pids gids d => otrace (api_trace_eng sy pp names pids gids d)
  | OParam k =>
      match nth_error (params sy) k with
      | None => OZ 404
      | Some h => OL (map (fun e => OL [OS (fst e); oopt OZ (snd e)]) (api_parameter_values h))
      end
  | OVar i =>
      match nth_error (vars sy) i with
      | None => OZ 404
      | Some x =>
          let a := api_variable x in
          OL [ oleaf (a_default a); OS (a_value_type a); OS (a_definition_period a); OS (a_entity a);
               OL (map (fun e => OL [OS (fst e); OB (snd e)]) (a_formulas a)) ]
      end
  end.

Definition overdict (r : res bool) : obs :=
  match r with Ok b => OB b | Err e => OErr e end.

Definition run (c : case) : obs :=
  match c with
  | KApi vs plurals sy names ops => OL (map (run_op vs plurals sy names) ops)
  | KYaml vs singulars tests =>
      OL (map (fun it => let '(ids, t, y) := it in
                 overdict (check_output (fun v => option_map fst (slookup v vs))
                                        (fun k => existsb (String.eqb k) singulars)
                                        (fun pl => slookup pl ids) (tlookup t) y)) tests)
  end.
