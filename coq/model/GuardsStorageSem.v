(** The engine's storage operations re-assembled from the regenerated descriptions of the two
    storages (coq/gen/GuardsStorage.v, re-emitted by harness/gen_tables.py on every run from
    data_storage/in_memory_storage.py and on_disk_storage.py: get / put / delete, with
    get_known_periods pinned to "the keys of the dictionary").

    A holder's storages are built with [is_eternal = Holder._eternal] (pinned by the translator
    of coq/gen/GuardsHolder.v), i.e. [holder_eternal x]; the engine always passes a period to
    get / put, and to delete either a period or None.  props/GuardsTie.v and props/C17.v say
    that the two storages have the same description and that it is what [Engine.norm],
    [delete_one], [delete_arrays] do.  No proofs here. *)
From Coq Require Import ZArith List Bool.
From Verif Require Import Base Cal Tables Period Engine GuardsTypes GuardsStorage.
Import ListNotations.
Open Scope Z_scope.

Definition holder_eternal (x : var) : bool := unit_eqb (v_unit x) Eternity.

(** the period a value of [x] asked / stored for [p] is kept under *)
Definition src_get_period (x : var) (p : period) : period :=
  apply_key (gen_memory_get_key (holder_eternal x) false) p.
Definition src_put_period (x : var) (p : period) : period :=
  apply_key (gen_memory_put_key (holder_eternal x) false) p.

(** storage.delete on the slice of the cache that belongs to variable [v] *)
Definition apply_delete (r : delete_rule) (v : nat) (p : period) (c : list (key * val)) : list (key * val) :=
  match r with
  | DeleteAll => filter (fun kv => negb (Nat.eqb (fst (fst kv)) v)) c
  | DeleteContained k =>
      let q := apply_key k p in
      filter (fun kv => negb (Nat.eqb (fst (fst kv)) v && contains q (snd (fst kv)))) c
  end.

Definition src_delete_one (sy : sys) (k : key) (c : list (key * val)) : list (key * val) :=
  match nth_error (vars sy) (fst k) with
  | None => c
  | Some x => apply_delete (gen_memory_delete (holder_eternal x) false) (fst k) (snd k) c
  end.

(** Holder.delete_arrays(period) / delete_arrays() *)
Definition src_delete_arrays (sy : sys) (s : st) (v : nat) (p : option period) : st :=
  match p with
  | None => {| cache := apply_delete (gen_memory_delete false true) v eternity_period (cache s);
               stack := stack s; invalid := invalid s |}
  | Some q => {| cache := src_delete_one sy (v, q) (cache s); stack := stack s; invalid := invalid s |}
  end.
