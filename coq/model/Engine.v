(** Executable model of the lazy evaluator of openfisca-core:

      Simulation.calculate / _calculate / calculate_add / calculate_divide /
      _check_period_consistency / _check_for_cycle / invalidate_spiral_variables /
      purge_cache_of_invalid_values / _cast_formula_result / set_input / delete_arrays
                                                     (simulations/simulation.py)
      CorePopulation.__call__ (option dispatch)      (populations/_core_population.py)
      Holder.get_array / put_in_cache / _set / set_input / delete_arrays / default_array
                                                     (holders/holder.py)
      InMemoryStorage.get / put / delete             (data_storage/in_memory_storage.py)
      Variable.get_formula (dated formulas, end)     (variables/variable.py)
      SimpleTracer / FullTracer stack                (tracers/)

    A rule system is a list of variables whose formulas are terms of the small
    expression language [expr]; harness/rules.py compiles the same terms to real
    [Variable] subclasses whose formulas call the public API, so the real engine and this
    model run the same program.  Arrays are lists of [Z] (see DESIGN.md section 4:
    generated values stay exactly representable in int32 / float32; bool is 0/1).

    The expression evaluator is written once, generically in the type of the state that
    is threaded through dependency requests: instantiated with [unit] it gives the
    meaning [den] of a rule system (no cache, no stack), instantiated with the machine
    state [st] it gives the engine [calc].  No proofs here. *)
From Coq Require Import ZArith List Bool.
From Verif Require Import Base Cal Tables Period Np Group Param.
Import ListNotations.
Open Scope Z_scope.
Open Scope res_scope.

Definition val := list Z.

(** * Rule systems *)

Inductive vtype := TInt | TFloat | TBool.
Inductive ent := EPerson | EGroup.

Definition ent_eqb (a b : ent) : bool :=
  match a, b with EPerson, EPerson | EGroup, EGroup => true | _, _ => false end.

(** The period a dependency is requested for, relative to the formula's period. *)
Inductive ptrans :=
  | PSame | PThisYear | PFirstMonth | PFirstDay | PFirstWeek | PFirstWeekday
  | PLastMonth | PLastYear | PN2
  | POffset (n : Z)            (* period.offset(n) in the period's own unit *)
  | PFixed (q : period)        (* a literal period *)
  | PBad.                      (* a string that is not a period *)

(** options=[...] of population(variable, period, options) *)
Inductive opt := OPlain | OAdd | ODivide | OBoth | OUnknown.

Inductive binop := BAdd | BSub | BMul | BMin | BMax | BLt | BLe | BEq | BAnd | BOr.
Inductive gagg := GSum | GAny | GAll | GFromPerson.   (* GFromPerson: group.value_from_person(a, role), default 0 *)
Inductive pfield := FYear | FMonth | FDay | FSize.

Inductive expr :=
  | EConst (z : Z)
  | EDep (v : nat) (pt : ptrans) (o : opt)
  | EBin (op : binop) (a b : expr)
  | ENot (a : expr)
  | EWhere (c a b : expr)
  | EParam (k : nat)                              (* parameters(period).p_k *)
  | EAgg (g : gagg) (role : option nat) (a : expr) (* group.sum/any/all(a, role): group context, [a] in person context *)
  | ENb (role : option nat)                        (* group.nb_persons(role) *)
  | EProject (role : option nat) (a : expr)        (* group.project(a, role): person context, [a] in group context *)
  | EField (f : pfield)                            (* period.start.year ... broadcast *)
  | ERaise (k : nat).                              (* raises when switch k is on *)

Record var := mk_var {
  v_ent : ent;
  v_type : vtype;
  v_unit : unit_t;                  (* definition_period *)
  v_end : option date;              (* end *)
  v_formulas : list (date * expr);  (* dated formulas, ascending start date *)
  v_default : Z;
  v_neutral : bool;                 (* is_neutralized *)
  v_nostore : bool                  (* holder._do_not_store, or cache blacklist + opt_out_cache *)
}.

Record sys := mk_sys {
  vars : list var;
  params : list (hist Z);           (* parameter k: dated values, date = ordinal *)
  switches : list nat;              (* raise switches that are on *)
  max_loops : nat                   (* Simulation.max_spiral_loops *)
}.

Record popu := mk_popu { grp : gpop }.   (* persons = members of the one group kind *)

Definition count_of (pp : popu) (c : ent) : nat :=
  match c with EPerson => npersons (grp pp) | EGroup => g_count (grp pp) end.

Definition key := (nat * period)%type.
Definition key_eqb (a b : key) : bool := Nat.eqb (fst a) (fst b) && period_eqb (snd a) (snd b).

(** * Pure helpers *)

Definition in_units (u : unit_t) (l : list unit_t) : bool := existsb (unit_eqb u) l.
Definition dated_unit (u : unit_t) : bool := in_units u (units_isoformat ++ units_isocalendar).

(** Simulation._check_period_consistency *)
Definition check_consistency (x : var) (p : period) : res unit :=
  if unit_eqb (v_unit x) Eternity then Ok tt
  else if negb (unit_eqb (v_unit x) (p_unit p)) then Err EValue
  else if negb (p_size p =? 1) then Err EValue
  else Ok tt.

(** InMemoryStorage: eternal holders keep everything under the eternity period *)
Definition norm (x : var) (p : period) : period :=
  if unit_eqb (v_unit x) Eternity then eternity_period else p.

(** Variable.get_formula(period): the instant is the period's start; its text form
    raises for the eternity instant (Instant.__str__ builds a date) *)
Fixpoint latest_formula (fs : list (date * expr)) (d : date) (acc : option expr) : option expr :=
  match fs with
  | [] => acc
  | (s, e) :: r => if date_leb s d then latest_formula r d (Some e) else latest_formula r d acc
  end.

Definition formula_at (x : var) (p : period) : res (option expr) :=
  match v_formulas x with
  | [] => Ok None
  | fs =>
      let d := p_start p in
      if negb (validb d) then Err EValue
      else match v_end x with
           | Some e => if date_ltb e d then Ok None else Ok (latest_formula fs d None)
           | None => Ok (latest_formula fs d None)
           end
  end.

Definition default_array (pp : popu) (x : var) : val := repeat (v_default x) (count_of pp (v_ent x)).

(** Simulation._cast_formula_result: astype(dtype) on exactly representable values *)
Definition cast (x : var) (a : val) : val :=
  match v_type x with
  | TBool => map (fun z => if z =? 0 then 0 else 1) a
  | _ => a
  end.

Definition apply_ptrans (pt : ptrans) (p : period) : res period :=
  match pt with
  | PSame => Ok p
  | PThisYear => this_year p
  | PFirstMonth => first_month p
  | PFirstDay => first_day p
  | PFirstWeek => first_week p
  | PFirstWeekday => first_weekday p
  | PLastMonth => last_month p
  | PLastYear => last_year p
  | PN2 => n_2 p
  | POffset n => offset p n None
  | PFixed q => Ok q
  | PBad => Err EPeriod
  end.



Definition binop_z (op : binop) (a b : Z) : Z :=
  match op with
  | BAdd => a + b
  | BSub => a - b
  | BMul => a * b
  | BMin => Z.min a b
  | BMax => Z.max a b
  | BLt => b2z (a <? b)
  | BLe => b2z (a <=? b)
  | BEq => b2z (a =? b)
  | BAnd => b2z (negb (a =? 0) && negb (b =? 0))
  | BOr => b2z (negb (a =? 0) || negb (b =? 0))
  end.

Fixpoint zip2 (f : Z -> Z -> Z) (a b : val) : val :=
  match a, b with
  | x :: a', y :: b' => f x y :: zip2 f a' b'
  | _, _ => []
  end.

Fixpoint zip3 (f : Z -> Z -> Z -> Z) (a b c : val) : val :=
  match a, b, c with
  | x :: a', y :: b', z :: c' => f x y z :: zip3 f a' b' c'
  | _, _, _ => []
  end.

Definition field_of (f : pfield) (p : period) : Z :=
  let '(y, m, d) := p_start p in
  match f with FYear => y | FMonth => m | FDay => d | FSize => p_size p end.

Definition agg (pp : popu) (g : gagg) (role : option nat) (a : val) : res val :=
  match g with
  | GSum => Group.sum (grp pp) a role
  | GAny => rmap (map b2z) (Group.any (grp pp) a role)
  | GAll => rmap (map b2z) (Group.all (grp pp) a role)
  | GFromPerson =>
      match role with
      | Some r => Group.value_from_person (grp pp) a r 0
      | None => Err EOther           (* role.max on None: AttributeError *)
      end
  end.

(** * The generic evaluator *)

Section Eval.
  Context {S : Type}.
  Variable rec : S -> nat -> period -> S * res val.   (* simulation.calculate *)
  Variable sy : sys.
  Variable pp : popu.

  (** sum(calculate(v, sub) for sub in subs): Python's sum starts from the integer 0 *)
  Fixpoint sum_calc (s : S) (v : nat) (subs : list period) (acc : option val) : S * res val :=
    match subs with
    | [] => (s, Ok (match acc with Some a => a | None => [] end))
    | q :: r =>
        let '(s1, r1) := rec s v q in
        match r1 with
        | Err e => (s1, Err e)
        | Ok a => sum_calc s1 v r (Some (match acc with Some b => zip2 Z.add b a | None => a end))
        end
    end.

  (** Simulation.calculate_add (after the variable lookup) *)
  Definition calc_add (s : S) (v : nat) (x : var) (q : period) : S * res val :=
    if unit_weight (p_unit q) <? unit_weight (v_unit x) then (s, Err EValue)
    else if unit_eqb (p_unit q) Eternity then (s, Err EValue)
    else if negb (dated_unit (v_unit x)) then (s, Err EValue)
    else match subperiods q (v_unit x) with
         | Err e => (s, Err e)
         | Ok subs => sum_calc s v subs None
         end.

  Definition divide_period (x : var) (q : period) : res period :=
    match v_unit x with
    | Year => this_year q
    | Month => first_month q
    | Day => first_day q
    | Week => first_week q
    | _ => first_weekday q
    end.

  Definition divide_denominator (q cp : period) : res Z :=
    match p_unit q with
    | Year => size_in_years cp
    | Month => size_in_months cp
    | Day => size_in_days cp
    | Week => size_in_weeks cp
    | _ => size_in_weekdays cp
    end.

  (** Simulation.calculate_divide (after the variable lookup): the dividend array and
      the denominator; the caller divides. *)
  Definition calc_divide (s : S) (v : nat) (x : var) (q : period) : S * res (val * Z) :=
    if (unit_weight (v_unit x) <? unit_weight (p_unit q)) || (1 <? p_size q) then (s, Err EValue)
    else if negb (dated_unit (v_unit x)) then (s, Err EValue)
    else if negb (dated_unit (p_unit q)) || negb (p_size q =? 1) then (s, Err EValue)
    else match divide_period x q with
         | Err e => (s, Err e)
         | Ok cp =>
             match divide_denominator q cp with
             | Err e => (s, Err e)
             | Ok den =>
                 let '(s1, r1) := rec s v cp in
                 match r1 with
                 | Err e => (s1, Err e)
                 | Ok a => (s1, Ok (a, den))
                 end
             end
         end.

  (** CorePopulation.__call__(variable, period, options) for the population of entity [c] *)
  Definition call (c : ent) (s : S) (v : nat) (q : period) (o : opt) : S * res val :=
    match nth_error (vars sy) v with
    | None => (s, Err ENotFound)               (* check_variable_defined_for_entity *)
    | Some x =>
        if negb (ent_eqb (v_ent x) c) then (s, Err EValue)
        else match o with
             | OPlain => rec s v q
             | OBoth | OUnknown => (s, Err EValue)
             | OAdd => calc_add s v x q
             | ODivide =>
                 let '(s1, r1) := calc_divide s v x q in
                 match r1 with
                 | Err e => (s1, Err e)
                 | Ok (a, den) => (s1, Ok (map (fun z => z / den) a))   (* exact by generation *)
                 end
             end
    end.

  Fixpoint eval (c : ent) (s : S) (p : period) (e : expr) {struct e} : S * res val :=
    match e with
    | EConst z => (s, Ok (repeat z (count_of pp c)))
    | EDep v pt o =>
        match apply_ptrans pt p with
        | Err er => (s, Err er)
        | Ok q => call c s v q o
        end
    | EBin op a b =>
        let '(s1, r1) := eval c s p a in
        match r1 with
        | Err er => (s1, Err er)
        | Ok x =>
            let '(s2, r2) := eval c s1 p b in
            match r2 with
            | Err er => (s2, Err er)
            | Ok y => (s2, Ok (zip2 (binop_z op) x y))
            end
        end
    | ENot a =>
        let '(s1, r1) := eval c s p a in
        (s1, rmap (map (fun z => b2z (z =? 0))) r1)
    | EWhere cnd a b =>
        let '(s1, r1) := eval c s p cnd in
        match r1 with
        | Err er => (s1, Err er)
        | Ok x =>
            let '(s2, r2) := eval c s1 p a in
            match r2 with
            | Err er => (s2, Err er)
            | Ok y =>
                let '(s3, r3) := eval c s2 p b in
                match r3 with
                | Err er => (s3, Err er)
                | Ok z => (s3, Ok (zip3 (fun u v w => if u =? 0 then w else v) x y z))
                end
            end
        end
    | EParam k =>
        match nth_error (params sy) k with
        | None => (s, Err ENotFound)
        | Some h =>
            match get_at h (ord (p_start p)) with
            | None => (s, Err ENotFound)
            | Some z => (s, Ok (repeat z (count_of pp c)))
            end
        end
    | EAgg g role a =>
        let '(s1, r1) := eval EPerson s p a in
        (s1, bind r1 (agg pp g role))
    | ENb role => (s, Group.nb_persons (grp pp) role)
    | EProject role a =>
        let '(s1, r1) := eval EGroup s p a in
        (s1, bind r1 (fun x => Group.project (grp pp) x role))
    | EField f => (s, Ok (repeat (field_of f p) (count_of pp c)))
    | ERaise k =>
        if existsb (Nat.eqb k) (switches sy) then (s, Err EOther)
        else (s, Ok (repeat 0 (count_of pp c)))
    end.
End Eval.

(** * The meaning of a rule system on given inputs *)

Definition inputs := list (key * val).

Definition lookup (k : key) (m : list (key * val)) : option val :=
  option_map snd (find (fun kv => key_eqb k (fst kv)) m).

Fixpoint den (fuel : nat) (sy : sys) (pp : popu) (inp : inputs) (_ : unit) (v : nat) (p : period)
  : unit * res val :=
  match fuel with
  | O => (tt, Err EFuel)
  | S f =>
      match nth_error (vars sy) v with
      | None => (tt, Err ENotFound)
      | Some x =>
          match check_consistency x p with
          | Err e => (tt, Err e)
          | Ok _ =>
              if v_neutral x then (tt, Ok (default_array pp x))
              else match lookup (v, norm x p) inp with
                   | Some a => (tt, Ok a)
                   | None =>
                       match formula_at x p with
                       | Err e => (tt, Err e)
                       | Ok None => (tt, Ok (default_array pp x))
                       | Ok (Some e) =>
                           let '(_, r) := eval (den f sy pp inp) sy pp (v_ent x) tt p e in
                           (tt, rmap (cast x) r)
                       end
                   end
          end
      end
  end.

Definition meaning (fuel : nat) (sy : sys) (pp : popu) (inp : inputs) (v : nat) (p : period) : res val :=
  snd (den fuel sy pp inp tt v p).

(** * The machine *)

Record st := mk_st {
  cache : list (key * val);     (* holders: (variable, stored period) -> array *)
  stack : list key;             (* tracer.stack, most recent frame first *)
  invalid : list key            (* Simulation.invalidated_caches *)
}.

Definition init (inp : inputs) : st := {| cache := inp; stack := []; invalid := [] |}.

Definition remove_key (k : key) (c : list (key * val)) : list (key * val) :=
  filter (fun kv => negb (key_eqb k (fst kv))) c.

Definition put (k : key) (a : val) (s : st) : st :=
  {| cache := (k, a) :: remove_key k (cache s); stack := stack s; invalid := invalid s |}.
Definition push (k : key) (s : st) : st :=
  {| cache := cache s; stack := k :: stack s; invalid := invalid s |}.
Definition pop (s : st) : st :=
  {| cache := cache s; stack := tl (stack s); invalid := invalid s |}.
Definition add_invalid (ks : list key) (s : st) : st :=
  {| cache := cache s; stack := stack s; invalid := ks ++ invalid s |}.

(** Holder.get_array *)
Definition get_array (pp : popu) (x : var) (s : st) (v : nat) (p : period) : option val :=
  if v_neutral x then Some (default_array pp x) else lookup (v, norm x p) (cache s).

(** Holder.put_in_cache *)
Definition put_in_cache (x : var) (v : nat) (p : period) (a : val) (s : st) : st :=
  if v_nostore x then s else put (v, norm x p) a s.

(** invalidate_spiral_variables: walk the stack from the most recent frame, marking,
    until the variable has been met more than max_spiral_loops times *)
Fixpoint spiral_marks (L : nat) (v : nat) (cnt : nat) (stk : list key) : list key :=
  match stk with
  | [] => []
  | k :: r =>
      k :: (if Nat.eqb (fst k) v
            then (if Nat.ltb L (S cnt) then [] else spiral_marks L v (S cnt) r)
            else spiral_marks L v cnt r)
  end.

(** InMemoryStorage.delete(period) for the holder of variable [v] *)
Definition delete_one (sy : sys) (k : key) (c : list (key * val)) : list (key * val) :=
  match nth_error (vars sy) (fst k) with
  | None => c
  | Some x =>
      let q := norm x (snd k) in
      filter (fun kv => negb (Nat.eqb (fst (fst kv)) (fst k) && contains q (snd (fst kv)))) c
  end.

(** purge_cache_of_invalid_values *)
Definition purge (sy : sys) (s : st) : st :=
  match stack s with
  | [] => {| cache := fold_left (fun c k => delete_one sy k c) (invalid s) (cache s);
             stack := []; invalid := [] |}
  | _ => s
  end.

Definition prev_periods (v : nat) (stk : list key) : list period :=
  map snd (filter (fun k => Nat.eqb (fst k) v) stk).

(** Simulation._calculate with the frame already pushed *)
Definition calc_body (rec : st -> nat -> period -> st * res val) (sy : sys) (pp : popu)
           (s0 : st) (v : nat) (p : period) : st * res val :=
  match nth_error (vars sy) v with
  | None => (s0, Err ENotFound)
  | Some x =>
      match check_consistency x p with
      | Err e => (s0, Err e)
      | Ok _ =>
          match get_array pp x s0 v p with
          | Some a =>
              (if existsb (key_eqb (v, p)) (invalid s0) then add_invalid (stack s0) s0 else s0, Ok a)
          | None =>
              let prev := prev_periods v (tl (stack s0)) in
              if existsb (period_eqb p) prev then (s0, Err ECycle)
              else if Nat.leb (max_loops sy) (length prev)
              then (add_invalid (spiral_marks (max_loops sy) v 0 (stack s0)) s0, Ok (default_array pp x))
              else match formula_at x p with
                   | Err e => (s0, Err e)
                   | Ok None =>
                       let a := default_array pp x in (put_in_cache x v p a s0, Ok a)
                   | Ok (Some e) =>
                       let '(s1, r) := eval rec sy pp (v_ent x) s0 p e in
                       match r with
                       | Err er => (s1, Err er)
                       | Ok a => let a' := cast x a in (put_in_cache x v p a' s1, Ok a')
                       end
                   end
          end
      end
  end.

(** Simulation.calculate: push, _calculate, and in the finally: pop, purge *)
Fixpoint calc (fuel : nat) (sy : sys) (pp : popu) (s : st) (v : nat) (p : period) : st * res val :=
  match fuel with
  | O => (s, Err EFuel)
  | S f =>
      let '(s1, r) := calc_body (calc f sy pp) sy pp (push (v, p) s) v p in
      (purge sy (pop s1), r)
  end.

(** * Top-level requests on a simulation *)

Inductive request :=
  | RCalc (v : nat) (p : period)
  | RAdd (v : nat) (p : period)
  | RDivide (v : nat) (p : period)
  | RSetInput (v : nat) (p : period) (a : val)
  | RDelete (v : nat) (p : option period)
  | RGet (v : nat) (p : period)
  | RSwitch (k : nat) (on : bool).   (* harness-side raise switch: changes the rule system *)

Inductive answer :=
  | AVal (a : val)
  | AQuot (a : val) (den : Z)
  | ANone
  | AErr (e : err).

Definition of_res (r : res val) : answer := match r with Ok a => AVal a | Err e => AErr e end.

(** Holder._to_array + _set (variables without a set_input rule) after Simulation.set_input *)
Definition set_input (sy : sys) (pp : popu) (s : st) (v : nat) (p : period) (a : val) : st * answer :=
  match nth_error (vars sy) v with
  | None => (s, AErr ENotFound)
  | Some x =>
      if match v_end x with Some e => validb (p_start p) && date_ltb e (p_start p) | None => false end
      then (s, ANone)
      else if unit_eqb (p_unit p) Eternity && negb (unit_eqb (v_unit x) Eternity) then (s, AErr EMismatch)
      else if v_neutral x then (s, ANone)
      else if negb (Nat.eqb (length a) (count_of pp (v_ent x))) then (s, AErr EValue)
      else if negb (unit_eqb (v_unit x) Eternity)
              && (negb (unit_eqb (v_unit x) (p_unit p)) || (1 <? p_size p)) then (s, AErr EMismatch)
      else (put (v, norm x p) (cast x a) s, ANone)
  end.

Definition delete_arrays (sy : sys) (s : st) (v : nat) (p : option period) : st :=
  match p with
  | None => {| cache := filter (fun kv => negb (Nat.eqb (fst (fst kv)) v)) (cache s);
               stack := stack s; invalid := invalid s |}
  | Some q => {| cache := delete_one sy (v, q) (cache s); stack := stack s; invalid := invalid s |}
  end.

Definition step (fuel : nat) (sy : sys) (pp : popu) (s : st) (r : request) : st * answer :=
  match r with
  | RCalc v p => let '(s1, a) := calc fuel sy pp s v p in (s1, of_res a)
  | RAdd v p =>
      match nth_error (vars sy) v with
      | None => (s, AErr ENotFound)
      | Some x => let '(s1, a) := calc_add (calc fuel sy pp) s v x p in (s1, of_res a)
      end
  | RDivide v p =>
      match nth_error (vars sy) v with
      | None => (s, AErr ENotFound)
      | Some x =>
          let '(s1, a) := calc_divide (calc fuel sy pp) s v x p in
          (s1, match a with Ok (n, d) => AQuot n d | Err e => AErr e end)
      end
  | RSetInput v p a => set_input sy pp s v p a
  | RDelete v p =>
      match nth_error (vars sy) v with
      | None => (s, AErr ENotFound)
      | Some _ => (delete_arrays sy s v p, ANone)
      end
  | RGet v p =>
      match nth_error (vars sy) v with
      | None => (s, AErr ENotFound)
      | Some x => (s, match get_array pp x s v p with Some a => AVal a | None => ANone end)
      end
  | RSwitch _ _ => (s, ANone)
  end.

Definition set_switch (sy : sys) (k : nat) (on : bool) : sys :=
  {| vars := vars sy; params := params sy;
     switches := if on then k :: switches sy else filter (fun j => negb (Nat.eqb j k)) (switches sy);
     max_loops := max_loops sy |}.

Definition sys_after (sy : sys) (r : request) : sys :=
  match r with RSwitch k on => set_switch sy k on | _ => sy end.

Fixpoint run (fuel : nat) (sy : sys) (pp : popu) (s : st) (rs : list request) : st * list answer :=
  match rs with
  | [] => (s, [])
  | r :: rest =>
      let '(s1, a) := step fuel sy pp s r in
      let '(s2, l) := run fuel (sys_after sy r) pp s1 rest in
      (s2, a :: l)
  end.

(** Fuel that is never exhausted: a variable occurs at most max_loops + 1 times on the
    stack (proved in EngineProofs.v), so the depth is bounded by (L + 2) * |vars| + 1. *)
Definition enough_fuel (sy : sys) : nat := S ((max_loops sy + 2) * length (vars sy)).

(** * Specification-level answers: what a request means on given inputs, with no machine
    state at all (used to state that answers do not depend on earlier requests). *)

Definition sem_rec (sy : sys) (pp : popu) (inp : inputs) := den (S (length (vars sy))) sy pp inp.

Definition sem (sy : sys) (pp : popu) (inp : inputs) (v : nat) (p : period) : res val :=
  snd (sem_rec sy pp inp tt v p).

Definition sem_answer (sy : sys) (pp : popu) (inp : inputs) (r : request) : answer :=
  match r with
  | RCalc v p => of_res (sem sy pp inp v p)
  | RAdd v p =>
      match nth_error (vars sy) v with
      | None => AErr ENotFound
      | Some x => of_res (snd (calc_add (sem_rec sy pp inp) tt v x p))
      end
  | RDivide v p =>
      match nth_error (vars sy) v with
      | None => AErr ENotFound
      | Some x =>
          match snd (calc_divide (sem_rec sy pp inp) tt v x p) with
          | Ok (n, d) => AQuot n d
          | Err e => AErr e
          end
      end
  | _ => ANone
  end.

Definition is_calc_request (r : request) : bool :=
  match r with RCalc _ _ | RAdd _ _ | RDivide _ _ => true | _ => false end.
