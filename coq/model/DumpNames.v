(** The real file names of a dump (C19): OnDiskStorage.put names a file str(period) + ".npy"
    and OnDiskStorage.restore parses the name with periods.period.  [show_period] and
    [parse_period] are the models of Period.__str__ and periods.period of model/PeriodStr.v
    (C05); Period.__str__ raises for a start that is not a date - no file is named then, the
    empty text stands for it here (never produced for a storable period). *)
From Coq Require Import String.
From Verif Require Import Base Period PeriodStr.

Definition show_real (p : period) : string :=
  match show_period p with Ok s => s | Err _ => EmptyString end.
