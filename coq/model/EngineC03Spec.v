(** Specification vocabulary for C03 (no proofs, no model code): what "the sum of the
    values over the pieces" means, and the accept/reject table of the request matrix
    written out cell by cell.  The theorems of props/C03.v relate these to the model
    functions of [Engine] ([calc_add], [calc_divide], [check_consistency], [call], [step],
    [sem_answer]) that the correspondence check runs. *)
From Coq Require Import ZArith List Bool.
From Verif Require Import Base Cal Tables Period PeriodSpec Engine.
Import ListNotations.
Open Scope Z_scope.

(** ** Sums *)

(** Python's [sum(...)] over the per-piece results, in order: the first error stops the
    sum; arrays are added element by element. *)
Fixpoint sum_results (rs : list (res val)) (acc : option val) : res val :=
  match rs with
  | [] => Ok (match acc with Some a => a | None => [] end)
  | Err e :: _ => Err e
  | Ok a :: r => sum_results r (Some (match acc with Some b => zip2 Z.add b a | None => a end))
  end.

(** the [i]-th entity's total over a list of arrays *)
Definition column_sum (i : nat) (arrays : list val) : Z :=
  fold_right Z.add 0 (map (fun a => nth i a 0) arrays).

(** ** The enclosing definition period of a day *)

Definition enclosing (du : unit_t) (c : date) : period :=
  let '(y, m, _) := c in
  match du with
  | Year => (Year, (y, 1, 1), 1)
  | Month => (Month, (y, m, 1), 1)
  | Week => (Week, start_of_week c, 1)
  | u => (u, c, 1)
  end.

(** what DIVIDE answers: the value at the enclosing period, to be divided by [den] *)
Definition quot_answer (r : res val) (den : Z) : answer :=
  match r with Ok a => AQuot a den | Err e => AErr e end.

(** ** The accept / reject matrix *)

Definition all_units : list unit_t := [Weekday; Week; Day; Month; Year; Eternity].
Definition all_opts : list opt := [OPlain; OAdd; ODivide; OBoth; OUnknown].

(** [error_cell du ru one o]: a variable of definition unit [du] requested for a period of
    unit [ru] and size one ([one = true]) or another size ([one = false]) with option [o]
    (plain = [calculate], ADD = [calculate_add], DIVIDE = [calculate_divide]) is refused. *)
Definition error_cell (du ru : unit_t) (one : bool) (o : opt) : bool :=
  match o with
  | OBoth | OUnknown => true
  | OPlain =>
      match du with
      | Eternity => false
      | _ => negb (unit_eqb du ru) || negb one
      end
  | OAdd =>
      match du, ru with
      | Eternity, _ | _, Eternity => true
      | Year, Year => false
      | Year, _ => true
      | Month, (Year | Month) => false
      | Month, _ => true                       (* a week has no size in months *)
      | Week, (Year | Month | Week) => false   (* weeks in months / years: accepted, approximate *)
      | Week, _ => true
      | (Day | Weekday), _ => false
      end
  | ODivide =>
      negb one ||
      match du, ru with
      | Eternity, _ | _, Eternity => true
      | Year, _ => false
      | Month, Year => true
      | Month, _ => false
      | Week, (Year | Month) => true           (* month: a week has no size in months *)
      | Week, _ => false
      | (Day | Weekday), (Day | Weekday) => false
      | (Day | Weekday), _ => true
      end
  end.

(** The same table from the engine's unit weights (gen/Tables.v, regenerated from the code)
    and the classes named by the property text. *)
Definition error_class (du ru : unit_t) (one : bool) (o : opt) : bool :=
  match o with
  | OBoth | OUnknown => true                                   (* both options, unknown option *)
  | OPlain =>
      negb (unit_eqb du Eternity)
      && (negb (unit_eqb du ru)                                (* wrong unit *)
          || negb one)                                         (* size above one *)
  | OAdd =>
      unit_eqb du Eternity                                     (* eternal variable summed *)
      || unit_eqb ru Eternity                                  (* eternal period summed *)
      || (unit_weight ru <? unit_weight du)                    (* period shorter than the definition period *)
      || (unit_eqb du Month && unit_eqb ru Week)               (* wrong unit: no whole number of months *)
  | ODivide =>
      negb one                                                 (* size above one *)
      || unit_eqb du Eternity || unit_eqb ru Eternity          (* eternal variable / period divided *)
      || (unit_weight du <? unit_weight ru)                    (* wrong unit: longer than the definition period *)
      || (unit_eqb du Week && unit_eqb ru Month)               (* wrong unit: no whole number of months *)
  end.

(** the (definition unit, request unit) pairs that are served, per size class and option *)
Definition accepted_pairs (one : bool) (o : opt) : list (unit_t * unit_t) :=
  filter (fun c => negb (error_cell (fst c) (snd c) one o)) (list_prod all_units all_units).

Definition size_one (q : period) : bool := p_size q =? 1.

(** the request of the top level that corresponds to an option *)
Definition request_of (o : opt) (v : nat) (q : period) : option request :=
  match o with
  | OPlain => Some (RCalc v q)
  | OAdd => Some (RAdd v q)
  | ODivide => Some (RDivide v q)
  | _ => None
  end.

Definition is_err (a : answer) : bool := match a with AErr _ => true | _ => false end.
