(** Declarative reading of a YAML test (C20): the expectations an output section denotes
    and what it means for one of them to lie within its margin of the engine's value.
    Definitions only; the theorems relating them to [Api.yaml_verdict] are in
    proofs/ApiProofs.v. *)
From Coq Require Import ZArith QArith Qabs List Bool String Sorted.
From Verif Require Import Base Cal Period Engine Api.
Import ListNotations.
Open Scope string_scope.

(** * /calculate: what a requested slot must become *)

Section Fills.
  Variable var_info : string -> option (jtype * string).      (* variable |-> value type, entity plural *)
  Variable ids_of : string -> option (list string).           (* entity plural |-> ids of the population *)
  Variable value_of : string -> string -> res (list raw).     (* the engine: variable, period key |-> array *)

  (** [l] is the engine's value for that entity instance, variable and period, rendered in
      the variable's type *)
  Definition fills (pa : path) (l : leaf) : Prop :=
    let '(pl, id, v, pk) := pa in
    exists ty vpl arr ids i x,
      var_info v = Some (ty, vpl) /\ value_of v pk = Ok arr /\ ids_of pl = Some ids
      /\ index_of id ids = Some i /\ nth_error arr i = Some x /\ l = render ty x.
End Fills.

(** * YAML tests *)

(** One expectation: a variable, the period it is asked for, the selected entity instance
    (None: the whole array) and the expected values (a scalar is a list of one). *)
Record expectation := mk_exp {
  x_var : string;
  x_period : option string;
  x_idx : option nat;
  x_target : list leaf
}.

Fixpoint tree_expectations (name : string) (x : ytree) (period : option string) (idx : option nat)
  : list expectation :=
  match x with
  | YL l => [mk_exp name period idx [l]]
  | YS ls => [mk_exp name period idx ls]
  | YD kv =>
      (fix go (kv : list (string * ytree)) : list expectation :=
         match kv with
         | [] => []
         | (pk, x') :: r => (tree_expectations name x' (Some pk) idx ++ go r)%list
         end) kv
  end.

Fixpoint collect {A B} (f : A -> res (list B)) (l : list A) : res (list B) :=
  match l with
  | [] => Ok []
  | a :: r =>
      match f a with
      | Err e => Err e
      | Ok x => match collect f r with Err e => Err e | Ok y => Ok (x ++ y)%list end
      end
  end.

(** Two values are close: numbers within the margins that are given, texts equal. *)
Definition close (am rm : option Q) (p : cmp * cmp) : Prop :=
  match p with
  | (CNum v, CNum t) =>
      (forall a, am = Some a -> (Qabs (t - v) <= a)%Q)
      /\ (forall r, rm = Some r -> (Qabs (t - v) <= Qabs (r * t))%Q)
  | (CText a, CText b) => a = b
  | _ => False
  end.

Section Spec.
  Variable var_type : string -> option jtype.
  Variable is_singular : string -> bool.
  Variable ids_of : string -> option (list string).
  Variable value_of : string -> string -> res (list raw).
  Variable tst : ytest.

  Definition variables_expectations (kv : list (string * ytree)) (idx : option nat) : list expectation :=
    flat_map (fun e => tree_expectations (fst e) (snd e) (t_period tst) idx) kv.

  (** the by-instance layout: {id: {variable: value}}; an id is looked up when one of its
      variables is checked *)
  Definition instance_expectations (ids : list string) (e : string * ytree) : res (list expectation) :=
    match snd e with
    | YD [] => Ok []
    | YD kv =>
        match index_of (fst e) ids with
        | None => Err EValue
        | Some i => Ok (variables_expectations kv (Some i))
        end
    | _ => Err EOther
    end.

  (** one key of the output section: a variable (by-variable layout), an entity key
      (by-entity layout) or an entity plural (by-instance layout) *)
  Definition key_expectations (e : string * ytree) : res (list expectation) :=
    let '(k, x) := e in
    match var_type k with
    | Some _ => Ok (tree_expectations k x (t_period tst) None)
    | None =>
        if is_singular k then
          match x with YD kv => Ok (variables_expectations kv None) | _ => Err EOther end
        else
          match ids_of k with
          | None => Err ENotFound
          | Some ids =>
              match x with YD insts => collect (instance_expectations ids) insts | _ => Err EOther end
          end
    end.

  Definition expectations : res (list expectation) := collect key_expectations (t_output tst).

  (** The expectation lies within its margin of the engine's value: the variable exists,
      the engine has a value for the period, the selected engine values and the expected
      values are comparable in the variable's type and broadcast against each other, and
      every pair is close. *)
  Definition holds (x : expectation) : Prop :=
    exists ty pk arr am rm vs ts pairs,
      var_type (x_var x) = Some ty /\ x_period x = Some pk /\ value_of (x_var x) pk = Ok arr
      /\ margin_for (t_abs tst) (x_var x) = Ok am /\ margin_for (t_rel tst) (x_var x) = Ok rm
      /\ Forall2 (fun r c => raw_cmp ty r = Some c) (select (x_idx x) arr) vs
      /\ Forall2 (fun l c => leaf_cmp ty l = Some c) (x_target x) ts
      /\ bcast vs ts = Ok pairs
      /\ Forall (close (effective_abs am rm) rm) pairs
      /\ (ty = JDate -> forall a, effective_abs am rm = Some a -> (0 <= a)%Q).
End Spec.

(** * The three layouts of the same expectations *)

(** A cell: a variable, a period key and one expected leaf per instance of its entity. *)
Definition cell := (string * string * list leaf)%type.

Definition by_variable (cells : list cell) : list (string * ytree) :=
  map (fun c : cell => let '(v, pk, ls) := c in (v, YD [(pk, YS ls)])) cells.

Definition by_entity (key : string) (cells : list cell) : list (string * ytree) :=
  [(key, YD (by_variable cells))].

Definition instance_tree (i : nat) (cells : list cell) : ytree :=
  YD (map (fun c : cell => let '(v, pk, ls) := c in (v, YD [(pk, YL (nth i ls Null))])) cells).

Definition by_instance (plural : string) (ids : list string) (cells : list cell) : list (string * ytree) :=
  [(plural, YD (map (fun ii => (fst ii, instance_tree (snd ii) cells)) (combine ids (seq 0 (List.length ids)))))].

(** * /variable/<id>: the formula the listing shows as in force on a day *)

(** The entry with the greatest start date on or before [d]; of two entries with the same
    date the later one (a dict keeps the last value stored under a key).  Independent of the
    order in which the entries are listed. *)
Fixpoint listed_at (l : list (date * option expr)) (d : date) (best : option (date * option expr))
  : option (date * option expr) :=
  match l with
  | [] => best
  | (s, f) :: r =>
      if date_leb s d then
        match best with
        | Some (s0, _) => if date_leb s0 s then listed_at r d (Some (s, f)) else listed_at r d best
        | None => listed_at r d (Some (s, f))
        end
      else listed_at r d best
  end.

Definition entry_formula (b : option (date * option expr)) : option expr :=
  match b with Some (_, f) => f | None => None end.

Definition listing_in_force (l : list (date * option expr)) (d : date) : option expr :=
  entry_formula (listed_at l d None).

(** What Variable.__init__ / set_formulas guarantee (variables/variable.py): valid start
    dates in ascending order (SortedDict over ISO texts), none after the end date ("The end
    attribute of a variable must be posterior to the start dates of all its formulas"). *)
Definition well_formed_variable (x : var) : Prop :=
  Forall (fun se => valid (fst se)) (v_formulas x)
  /\ StronglySorted (fun a b : date * expr => date_leb (fst a) (fst b) = true) (v_formulas x)
  /\ match v_end x with
     | Some e => valid e /\ Forall (fun se => date_leb (fst se) e = true) (v_formulas x)
     | None => True
     end.
