(** Specification vocabulary for C10 (definitions only, no proofs): what "the members of
    group g", "the members of g holding a role", "the sum / fold over them" mean, written
    as naively as possible and independently of how group_population.py computes them
    (no bincount, no argsort, no position counters). *)
From Coq Require Import ZArith List Bool Arith.
From Verif Require Import Base Np Group.
Import ListNotations.
Open Scope nat_scope.

(** A well-formed group population: every person belongs to a group of the simulation
    (index < count) and has one role.  (What SimulationBuilder produces; the harness calls
    the rest "malformed" and only compares it with the model.) *)
Definition wf_pop (p : gpop) : Prop :=
  Forall (fun e => e < g_count p) (g_ids p) /\ length (g_roles p) = length (g_ids p).

(** Group and role of person i. *)
Definition group_of (p : gpop) (i : nat) : nat := nth i (g_ids p) 0.
Definition role_of (p : gpop) (i : nat) : nat := nth i (g_roles p) 0.

(** The members of group g, in storage order. *)
Definition members (p : gpop) (g : nat) : list nat :=
  filter (fun i => group_of p i =? g) (seq 0 (npersons p)).

(** Does person i count for [role]?  (None = no restriction; a role with sub-roles is held
    through one of its sub-roles, as Population.has_role defines it.) *)
Definition in_role (p : gpop) (role : option nat) (i : nat) : bool :=
  match role with
  | None => true
  | Some r => has_role_at (g_entity p) r (role_of p i)
  end.

Definition members_with_role (p : gpop) (role : option nat) (g : nat) : list nat :=
  filter (in_role p role) (members p g).

Definition zsum (l : list Z) : Z := fold_right Z.add 0%Z l.

(** Number of persons stored before i that belong to the same group as i. *)
Definition earlier_in_group (p : gpop) (i : nat) : nat :=
  length (filter (fun j => group_of p j =? group_of p i) (seq 0 i)).

(** A role is "unique in p" when no group has two members holding it. *)
Definition role_unique_in (p : gpop) (r : nat) : Prop :=
  forall g, g < g_count p -> length (members_with_role p (Some r) g) <= 1.

(** Minimum / maximum of a list of finite values, with the neutral elements +inf / -inf. *)
Definition ext_min_list (l : list Z) : ext := fold_left (fun acc v => ext_min acc (Fin v)) l PInf.
Definition ext_max_list (l : list Z) : ext := fold_left (fun acc v => ext_max acc (Fin v)) l NInf.

(** Truth value of an array element (numpy: nonzero). *)
Definition truthy (v : Z) : bool := negb (v =? 0)%Z.
