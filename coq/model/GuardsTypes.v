(** Vocabulary of the regenerated decision structures (coq/gen/Guards*.v, re-emitted from
    /repo by harness/gen_tables.py on every run): the names the decisions choose among, their
    reading as functions of coq/model/Period.v, and the step tags of the coarse plans of the
    evaluator.  Hand-written, fixed; the generated files only mention these names.
    No proofs here. *)
From Coq Require Import ZArith List Bool.
From Verif Require Import Base Cal Tables Period.
Import ListNotations.
Open Scope Z_scope.

(** period.this_year / first_month / first_day / first_week / first_weekday *)
Inductive named_period := NThisYear | NFirstMonth | NFirstDay | NFirstWeek | NFirstWeekday.

(** period.size / size_in_years / _months / _days / _weeks / _weekdays *)
Inductive size_fn := SSize | SInYears | SInMonths | SInDays | SInWeeks | SInWeekdays.

(** CorePopulation.__call__ *)
Inductive dispatch := DPlain | DAdd | DDivide | DIncompatible | DInvalid.

Definition apply_named (n : named_period) (q : period) : res period :=
  match n with
  | NThisYear => this_year q
  | NFirstMonth => first_month q
  | NFirstDay => first_day q
  | NFirstWeek => first_week q
  | NFirstWeekday => first_weekday q
  end.

Definition apply_size (f : size_fn) (cp : period) : res Z :=
  match f with
  | SSize => Ok (p_size cp)
  | SInYears => size_in_years cp
  | SInMonths => size_in_months cp
  | SInDays => size_in_days cp
  | SInWeeks => size_in_weeks cp
  | SInWeekdays => size_in_weekdays cp
  end.

(** Holder.set_input: what happens to the input *)
Inductive set_outcome :=
  | SOMismatch        (* raise PeriodMismatchError *)
  | SOIgnored         (* warning, nothing stored *)
  | SORule            (* variable.set_input(holder, period, array): the divide / dispatch rule *)
  | SOSet.            (* self._set(period, array) *)

(** Holder._set: the tests before the storage *)
Inductive set_guard := SGOk | SGValueError | SGMismatch.

(** * Coarse plans: the statements of a function as a tree of tags *)

Inductive action :=
  (* Simulation.calculate *)
  | ANormPeriod            (* period = periods.period(period) when it is not a Period *)
  | APush                  (* tracer.record_calculation_start *)
  | ACalculate             (* result = self._calculate(...) *)
  | ARecordResult          (* tracer.record_calculation_result(result) *)
  | AReturnResult
  | APop                   (* tracer.record_calculation_end *)
  | APurge                 (* self.purge_cache_of_invalid_values() *)
  (* Simulation._calculate *)
  | AGetPopulation | AGetHolder | AGetVariable | ARaiseNotFound
  | ACheckConsistency      (* self._check_period_consistency(period, variable) *)
  | ACacheLookup           (* cached = holder.get_array(period) *)
  | AMarkFrame             (* self.invalidate_cache_entry(frame name, frame period) *)
  | AReturnCached
  | AInitNone              (* array = None *)
  | ACheckForCycle | ARunFormula | ADefaultArray | ACast | APutInCache
  | AReturnArray
  (* Simulation._check_for_cycle *)
  | APreviousPeriodsExcludeLast   (* periods of the frames of the variable in stack[:-1] *)
  | ARaiseCycle
  | ASpiralIfLenGeMax      (* spiral = len(previous_periods) >= self.max_spiral_loops *)
  | AInvalidateSpiral | ARaiseSpiral
  (* Simulation.purge_cache_of_invalid_values *)
  | AReturn
  | AGetHolderOfEntry | ADeleteArrays
  | AResetInvalidated.     (* self.invalidated_caches = set() *)

Inductive test :=
  | TVariableIsNone | TCachedIsNotNone | TKeyInvalidated | TArrayIsNone
  | TPeriodInPrevious | TSpiral | TStackNonEmpty.

Inductive iter := IStackFrames | IInvalidatedEntries.
Inductive exn := XSpiralError.

Inductive step :=
  | Do (a : action)
  | IfThen (t : test) (body : list step)
  | ForEach (i : iter) (body : list step)
  | TryExceptFinally (body : list step) (handlers : list (exn * list step)) (final : list step).

(** * Storages and holders *)

(** InMemoryStorage / OnDiskStorage: the period an array is kept under *)
Inductive key_choice := KEternity | KGiven.
Definition apply_key (k : key_choice) (p : period) : period :=
  match k with KEternity => eternity_period | KGiven => p end.

(** storage.delete(period) *)
Inductive delete_rule :=
  | DeleteAll                             (* the dictionary is emptied *)
  | DeleteContained (k : key_choice).     (* entries with [key.contains(entry period)] go *)

(** Holder.get_array: where the answer is read *)
Inductive get_source := GDefault | GMemory | GDisk | GNothing.
(** Holder.put_in_cache *)
Inductive put_outcome := PSkip | PSet.
(** Holder._set: which storage receives the array *)
Inductive store_choice := StMemory | StDisk.

(** * Variable.get_formula *)
Inductive formula_outcome :=
  | FNone                 (* return None *)
  | FOldest               (* the formula with the oldest start date *)
  | FScan.                (* the scan over the start dates *)
Inductive scan_dir := ScanReversed | ScanForward.
Inductive scan_cmp := CmpLe | CmpLt | CmpGe | CmpGt.
(** for start in <dir>(formulas): if start <cmp> instant: return formulas[start]; return None *)
Inductive scan_rule := ScanFirst (d : scan_dir) (c : scan_cmp).
