(** The engine of Engine.v with the full tracer switched on (simulation.trace = True):

      FullTracer.record_calculation_start / record_calculation_result / record_calculation_end,
      _enter_calculation / _exit_calculation, browse_trace      (tracers/full_tracer.py)
      TraceNode (name, period, parent, children, value)         (tracers/trace_node.py)
      FlatTrace.get_trace / _get_flat_trace / key               (tracers/flat_trace.py)
      Simulation.calculate (start; try: _calculate, result; finally: end, purge)
                                                                (simulations/simulation.py)

    The evaluation stack of FullTracer is the stack of its inner SimpleTracer, i.e. the
    [stack] of Engine.st; what is added here is the tree of TraceNodes and the cursor
    [_current_node].  A mutable tree with a cursor and parent pointers is written as a
    zipper: the chain cursor -> parent -> ... -> root is the list of open [frame]s
    (innermost first), each holding the children attached to it so far; closing a frame
    turns it into a node of its parent (or into a new tree when it has no parent).  The
    real tracer attaches a node to its parent when it is opened and fills it in place;
    once the node is closed both give the same tree, and between two top-level requests
    every node is closed.

    [calc_body_g] is Simulation._calculate written once for a machine state extended by any
    extra component [T] that only the nested calculations touch: with [T := tracer] it is
    the traced engine [calc_t]; with [T := list read] and nested calculations wrapped by
    [logged] it gives the list of calculations a formula evaluation performed, recorded
    call by call, independently of any tree building ([reads]).  Proofs
    (proofs/EngineC17Proofs.v) show that its [st] component and result are those of
    Engine.calc_body.  No proofs here. *)
From Coq Require Import ZArith List Bool.
From Verif Require Import Base Cal Tables Period Np Group Param Engine.
Import ListNotations.
Open Scope Z_scope.

(** * TraceNode *)

Inductive tnode := TNode (k : key) (value : option val) (children : list tnode).

Definition n_key (n : tnode) : key := let 'TNode k _ _ := n in k.
Definition n_value (n : tnode) : option val := let 'TNode _ a _ := n in a.
Definition n_children (n : tnode) : list tnode := let 'TNode _ _ c := n in c.

(** * FullTracer *)

Record frame := mk_frame { f_key : key; f_value : option val; f_children : list tnode }.

Record tracer := mk_tracer {
  trees : list tnode;       (* FullTracer._trees, closed trees in order *)
  opened : list frame       (* _current_node, its parent, ... (innermost first) *)
}.

Definition tr_init : tracer := {| trees := []; opened := [] |}.

(** _enter_calculation *)
Definition enter (k : key) (tr : tracer) : tracer :=
  {| trees := trees tr; opened := mk_frame k None [] :: opened tr |}.

(** record_calculation_result: only when there is a current node *)
Definition set_value (a : val) (tr : tracer) : tracer :=
  match opened tr with
  | [] => tr
  | f :: r => {| trees := trees tr; opened := mk_frame (f_key f) (Some a) (f_children f) :: r |}
  end.

(** a finished node becomes the last child of the current node, or a new tree *)
Definition add_node (n : tnode) (tr : tracer) : tracer :=
  match opened tr with
  | [] => {| trees := trees tr ++ [n]; opened := [] |}
  | g :: r => {| trees := trees tr; opened := mk_frame (f_key g) (f_value g) (f_children g ++ [n]) :: r |}
  end.

Definition close_frame (f : frame) : tnode := TNode (f_key f) (f_value f) (f_children f).

(** _exit_calculation: the cursor moves to the parent *)
Definition exit_ (tr : tracer) : tracer :=
  match opened tr with
  | [] => tr
  | f :: r => add_node (close_frame f) {| trees := trees tr; opened := r |}
  end.

(** * Simulation._calculate over a state with an extra component *)

Section Body.
  Context {T : Type}.

  Definition lift (f : st -> st) (s : st * T) : st * T := (f (fst s), snd s).

  (** Same text as Engine.calc_body; the extra component is threaded through the formula
      evaluation and untouched otherwise. *)
  Definition calc_body_g (rec : st * T -> nat -> period -> (st * T) * res val) (sy : sys) (pp : popu)
             (s0 : st * T) (v : nat) (p : period) : (st * T) * res val :=
    match nth_error (vars sy) v with
    | None => (s0, Err ENotFound)
    | Some x =>
        match check_consistency x p with
        | Err e => (s0, Err e)
        | Ok _ =>
            match get_array pp x (fst s0) v p with
            | Some a =>
                (if existsb (key_eqb (v, p)) (invalid (fst s0))
                 then lift (add_invalid (stack (fst s0))) s0 else s0, Ok a)
            | None =>
                let prev := prev_periods v (tl (stack (fst s0))) in
                if existsb (period_eqb p) prev then (s0, Err ECycle)
                else if Nat.leb (max_loops sy) (length prev)
                then (lift (add_invalid (spiral_marks (max_loops sy) v 0 (stack (fst s0)))) s0,
                      Ok (default_array pp x))
                else match formula_at x p with
                     | Err e => (s0, Err e)
                     | Ok None =>
                         let a := default_array pp x in (lift (put_in_cache x v p a) s0, Ok a)
                     | Ok (Some e) =>
                         let '(s1, r) := eval rec sy pp (v_ent x) s0 p e in
                         match r with
                         | Err er => (s1, Err er)
                         | Ok a => let a' := cast x a in (lift (put_in_cache x v p a') s1, Ok a')
                         end
                     end
            end
        end
    end.
End Body.

(** * The traced engine *)

Definition res_opt (r : res val) : option val := match r with Ok a => Some a | Err _ => None end.

(** Simulation.calculate with a FullTracer.  Exhausted fuel (model only; unreachable with
    [enough_fuel]) counts as a calculation that failed at once. *)
Fixpoint calc_t (fuel : nat) (sy : sys) (pp : popu) (s : st * tracer) (v : nat) (p : period)
  : (st * tracer) * res val :=
  match fuel with
  | O => ((fst s, add_node (TNode (v, p) None []) (snd s)), Err EFuel)
  | S f =>
      let '(s1, r) := calc_body_g (calc_t f sy pp) sy pp (push (v, p) (fst s), enter (v, p) (snd s)) v p in
      ((purge sy (pop (fst s1)),
        exit_ (match r with Ok a => set_value a (snd s1) | Err _ => snd s1 end)), r)
  end.

(** Top-level requests: the calculation requests go through [calc_t]; the others do not
    touch the tracer. *)
Definition step_t (fuel : nat) (sy : sys) (pp : popu) (s : st * tracer) (r : request)
  : (st * tracer) * answer :=
  match r with
  | RCalc v p => let '(s1, a) := calc_t fuel sy pp s v p in (s1, of_res a)
  | RAdd v p =>
      match nth_error (vars sy) v with
      | None => (s, AErr ENotFound)
      | Some x => let '(s1, a) := calc_add (calc_t fuel sy pp) s v x p in (s1, of_res a)
      end
  | RDivide v p =>
      match nth_error (vars sy) v with
      | None => (s, AErr ENotFound)
      | Some x =>
          let '(s1, a) := calc_divide (calc_t fuel sy pp) s v x p in
          (s1, match a with Ok (n, d) => AQuot n d | Err e => AErr e end)
      end
  | _ => let '(s1, a) := step fuel sy pp (fst s) r in ((s1, snd s), a)
  end.

Fixpoint run_t (fuel : nat) (sy : sys) (pp : popu) (s : st * tracer) (rs : list request)
  : (st * tracer) * list answer :=
  match rs with
  | [] => (s, [])
  | r :: rest =>
      let '(s1, a) := step_t fuel sy pp s r in
      let '(s2, l) := run_t fuel (sys_after sy r) pp s1 rest in
      (s2, a :: l)
  end.

(** * The calculations a formula evaluation performs, recorded call by call *)

Definition read := (nat * period * option val)%type.

Definition logged {S : Type} (rec : S -> nat -> period -> S * res val)
           (s : S * list read) (w : nat) (q : period) : (S * list read) * res val :=
  let '(s1, r) := rec (fst s) w q in ((s1, snd s ++ [(w, q, res_opt r)]), r).

(** What Simulation._calculate(v, p) asks of Simulation.calculate, in order, with what each
    call returned ([None]: it raised), when started in state [s] (frame not yet pushed). *)
Definition reads (fuel : nat) (sy : sys) (pp : popu) (s : st) (v : nat) (p : period) : list read :=
  match fuel with
  | O => []
  | S f => snd (fst (calc_body_g (logged (calc f sy pp)) sy pp (push (v, p) s, []) v p))
  end.

Definition summary (n : tnode) : read := (fst (n_key n), snd (n_key n), n_value n).

(** * FullTracer.browse_trace and FlatTrace.get_trace *)

Fixpoint browse_node (n : tnode) : list tnode :=
  match n with
  | TNode k a c => TNode k a c :: flat_map browse_node c
  end.

Definition browse (ts : list tnode) : list tnode := flat_map browse_node ts.

(** one entry per key, in order of first appearance: (key, dependencies, value) *)
Definition flat_entry := (key * list key * option val)%type.

Definition has_key (k : key) (l : list flat_entry) : bool := existsb (fun e => key_eqb k (fst (fst e))) l.

(** trace.update({key: ... if key not in trace}) over browse_trace() *)
Definition flat_trace (ts : list tnode) : list flat_entry :=
  fold_left (fun acc n => if has_key (n_key n) acc then acc
                          else acc ++ [(n_key n, map n_key (n_children n), n_value n)])
            (browse ts) [].

(** * Storage settings: which variables skip the store *)

(** holder._do_not_store (memory_config.variables_to_drop) or cache blacklist with
    opt_out_cache: the flag [v_nostore] of each variable, given as a list *)
Definition var_with_nostore (b : bool) (x : var) : var :=
  mk_var (v_ent x) (v_type x) (v_unit x) (v_end x) (v_formulas x) (v_default x) (v_neutral x) b.

Fixpoint vars_with_nostore (fl : list bool) (l : list var) : list var :=
  match l with
  | [] => []
  | x :: r => var_with_nostore (hd false fl) x :: vars_with_nostore (tl fl) r
  end.

Definition with_nostore (fl : list bool) (sy : sys) : sys :=
  {| vars := vars_with_nostore fl (vars sy); params := params sy; switches := switches sy;
     max_loops := max_loops sy |}.
