(** List models of the numpy primitives used by openfisca_core.populations
    (group_population.py, population.py).  Arrays are lists; executable definitions only,
    the characterising lemmas are in proofs/GroupProofs.v.

    - [bincount]      numpy.bincount(x, weights=w, minlength=m)   (the C accumulation loop)
    - [mask_select]   a[mask]               (boolean-mask indexing)
    - [take]          a[idx]                (integer "fancy" indexing)
    - [mask_assign]   result[mask] = vals   (boolean-mask assignment, with numpy's
                                             length check and length-1 broadcast)
    - [where_]        numpy.where(c, a, b)  (element-wise, equal lengths)
    - [full]          numpy.full(n, v)
    - [transpose]     numpy.asarray(columns).transpose()
    - [argsort]       numpy.argsort as a STABLE insertion sort.  numpy's default sort is
                      not stable (observed on this machine: ties are returned in another
                      order), therefore every theorem that goes through an argsort is
                      stated for ANY permutation that sorts ([sorting_perm]); the
                      executable [argsort] is only one of them and is what the
                      correspondence evaluates.
    - [ext]           float values that may be +-inf (numpy.inf neutral elements). *)
From Coq Require Import ZArith List Bool Arith Sorting.Permutation Sorting.Sorted.
From Verif Require Import Base.
Import ListNotations.
Open Scope nat_scope.

(** l[k] := v   (no effect when k is out of range) *)
Fixpoint upd {A} (l : list A) (k : nat) (v : A) : list A :=
  match l, k with
  | [], _ => []
  | _ :: t, O => v :: t
  | x :: t, S k' => x :: upd t k' v
  end.

Definition full {A} (n : nat) (v : A) : list A := repeat v n.

(** numpy.max(x) + 1 for a non-empty array of naturals; numpy.max raises ValueError on an
    empty array ("zero-size array to reduction operation maximum which has no identity"). *)
Definition max_plus_one (x : list nat) : res nat :=
  match x with
  | [] => Err EValue
  | _ => Ok (S (list_max x))
  end.

(** Length of numpy.bincount's result: max(minlength, max(x) + 1), and minlength for an
    empty x. *)
Definition bincount_len (minlength : nat) (x : list nat) : nat :=
  match x with
  | [] => minlength
  | _ => Nat.max minlength (S (list_max x))
  end.

(** The accumulation loop: out[x[i]] += w[i]. *)
Fixpoint bincount_acc (x : list nat) (w : list Z) (acc : list Z) : list Z :=
  match x, w with
  | k :: x', v :: w' => bincount_acc x' w' (upd acc k (nth k acc 0%Z + v)%Z)
  | _, _ => acc
  end.

(** numpy.bincount(x, weights=w, minlength=m); ValueError when the lengths differ. *)
Definition bincount (minlength : nat) (x : list nat) (w : list Z) : res (list Z) :=
  if length x =? length w
  then Ok (bincount_acc x w (full (bincount_len minlength x) 0%Z))
  else Err EValue.

(** numpy.bincount(x, minlength=m) without weights: every weight is 1. *)
Definition bincount_count (minlength : nat) (x : list nat) : list Z :=
  bincount_acc x (map (fun _ => 1%Z) x) (full (bincount_len minlength x) 0%Z).

(** a[mask] *)
Fixpoint mask_select {A} (mask : list bool) (a : list A) : list A :=
  match mask, a with
  | m :: mask', x :: a' => if m then x :: mask_select mask' a' else mask_select mask' a'
  | _, _ => []
  end.

(** a[idx]  (IndexError when an index is out of range) *)
Definition take {A} (idx : list nat) (a : list A) : res (list A) :=
  mapM (fun i => match nth_error a i with Some v => Ok v | None => Err EIndex end) idx.

Definition count_true (mask : list bool) : nat := length (filter (fun b => b) mask).

Fixpoint mask_assign_loop {A} (result : list A) (mask : list bool) (vals : list A) : list A :=
  match result, mask with
  | r :: result', m :: mask' =>
      if m then
        match vals with
        | v :: vals' => v :: mask_assign_loop result' mask' vals'
        | [] => r :: mask_assign_loop result' mask' []
        end
      else r :: mask_assign_loop result' mask' vals
  | _, _ => result
  end.

(** result[mask] = vals.  IndexError when the mask has another length than result;
    ValueError when the number of values is neither the number of True nor 1. *)
Definition mask_assign {A} (result : list A) (mask : list bool) (vals : list A) : res (list A) :=
  if negb (length mask =? length result) then Err EIndex
  else if length vals =? count_true mask then Ok (mask_assign_loop result mask vals)
  else match vals with
       | [v] => Ok (mask_assign_loop result mask (repeat v (count_true mask)))
       | _ => Err EValue
       end.

(** numpy.where(c, a, b) on arrays of one length *)
Fixpoint where_ {A} (c : list bool) (a b : list A) : list A :=
  match c, a, b with
  | ci :: c', x :: a', y :: b' => (if ci then x else y) :: where_ c' a' b'
  | _, _, _ => []
  end.

(** reducer(result, values) element-wise on two arrays of one length *)
Fixpoint zip_with {A} (f : A -> A -> A) (a b : list A) : list A :=
  match a, b with
  | x :: a', y :: b' => f x y :: zip_with f a' b'
  | _, _ => []
  end.

(** numpy.asarray([col_0, ..., col_{B-1}]).transpose(): row g = [col_k[g] for k]. *)
Definition transpose {A} (nrows : nat) (cols : list (list A)) (d : A) : list (list A) :=
  map (fun g => map (fun col => nth g col d) cols) (seq 0 nrows).

(** Values that may be infinite: the float results of min / max and get_rank's padding. *)
Inductive ext := NInf | Fin (z : Z) | PInf.

Definition ext_leb (a b : ext) : bool :=
  match a, b with
  | NInf, _ => true
  | _, PInf => true
  | Fin x, Fin y => (x <=? y)%Z
  | _, _ => false
  end.
Definition ext_le (a b : ext) : Prop := ext_leb a b = true.
Definition ext_lt (a b : ext) : Prop := ext_leb b a = false.
Definition ext_min (a b : ext) : ext := if ext_leb a b then a else b.   (* numpy.minimum *)
Definition ext_max (a b : ext) : ext := if ext_leb a b then b else a.   (* numpy.maximum *)

(** Stable insertion sort of the indices 0..n-1 by key. *)
Fixpoint insert_by {K} (leb : K -> K -> bool) (key : nat -> K) (i : nat) (l : list nat) : list nat :=
  match l with
  | [] => [i]
  | j :: t => if leb (key i) (key j) then i :: l else j :: insert_by leb key i t
  end.

Definition argsort_by {K} (leb : K -> K -> bool) (d : K) (l : list K) : list nat :=
  fold_right (insert_by leb (fun i => nth i l d)) [] (seq 0 (length l)).

Definition argsort_nat (l : list nat) : list nat := argsort_by Nat.leb 0 l.
Definition argsort_ext (l : list ext) : list nat := argsort_by ext_leb PInf l.

(** "p is a result numpy.argsort(key) may return": a permutation of the indices along
    which the keys are non-decreasing. *)
Definition sorting_perm {K} (le : K -> K -> Prop) (d : K) (key : list K) (p : list nat) : Prop :=
  Permutation p (seq 0 (length key)) /\
  StronglySorted (fun a b => le (nth a key d) (nth b key d)) p.

Definition sorting_perm_nat := sorting_perm le 0.
Definition sorting_perm_ext := sorting_perm ext_le PInf.

(** Decision procedure for [sorting_perm_nat] (used by the correspondence on the
    implementation's ordered_members_map). *)
Fixpoint sorted_keys_b (key : list nat) (p : list nat) : bool :=
  match p with
  | [] => true
  | a :: t => match t with
              | [] => true
              | b :: _ => (nth a key 0 <=? nth b key 0) && sorted_keys_b key t
              end
  end.
Definition is_perm_b (p : list nat) (n : nat) : bool :=
  (length p =? n) && forallb (fun i => existsb (Nat.eqb i) p) (seq 0 n).
Definition is_sorting_perm_b (key p : list nat) : bool :=
  is_perm_b p (length key) && sorted_keys_b key p.
