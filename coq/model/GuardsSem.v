(** Reading of the names that the regenerated decision structures (coq/gen/Guards.v,
    re-emitted from /repo by harness/gen_tables.py on every run) choose among, in terms of
    the hand-written models: a named sub-period and a size function are the Period.v
    functions of the same name ([apply_named], [apply_size] of GuardsTypes.v), and the three
    flags the option dispatch of CorePopulation.__call__ looks at are read off the model's [opt].

    With these, [src_check_consistency], [src_calc_add], [src_calc_divide] and [src_call]
    are the engine's four decision points re-assembled from the *regenerated* pieces; the
    theorems of props/GuardsTie.v say that they are equal to the hand-written
    [Engine.check_consistency], [calc_add], [calc_divide], [call].  No proofs here. *)
From Coq Require Import ZArith List Bool.
From Verif Require Import Base Cal Tables Period Engine GuardsTypes Guards.
Import ListNotations.
Open Scope Z_scope.

(** options=None | [ADD] | [DIVIDE] | [ADD, DIVIDE] | ["LAGRANGIAN"] (harness/rules.py):
    is it a sequence, does it contain ADD, does it contain DIVIDE *)
Definition opt_is_sequence (o : opt) : bool := match o with OPlain => false | _ => true end.
Definition opt_has_add (o : opt) : bool := match o with OAdd | OBoth => true | _ => false end.
Definition opt_has_divide (o : opt) : bool := match o with ODivide | OBoth => true | _ => false end.

(** Simulation._check_period_consistency from the regenerated guard *)
Definition src_check_consistency (x : var) (p : period) : res unit :=
  if gen_check_consistency (v_unit x) (p_unit p) (p_size p) then Err EValue else Ok tt.

Section Src.
  Context {S : Type}.
  Variable rec : S -> nat -> period -> S * res val.
  Variable sy : sys.
  Variable pp : popu.

  (** Simulation.calculate_add: regenerated guard, then the sum over the sub-periods *)
  Definition src_calc_add (s : S) (v : nat) (x : var) (q : period) : S * res val :=
    if gen_add_guard (v_unit x) (p_unit q) then (s, Err EValue)
    else match subperiods q (v_unit x) with
         | Err e => (s, Err e)
         | Ok subs => sum_calc rec s v subs None
         end.

  (** Simulation.calculate_divide: regenerated guard, regenerated choice of the
      calculation period and of the denominator *)
  Definition src_calc_divide (s : S) (v : nat) (x : var) (q : period) : S * res (val * Z) :=
    if gen_divide_guard (v_unit x) (p_unit q) (p_size q) then (s, Err EValue)
    else match apply_named (gen_divide_period_choice (v_unit x)) q with
         | Err e => (s, Err e)
         | Ok cp =>
             match apply_size (gen_divide_denominator_choice (p_unit q)) cp with
             | Err e => (s, Err e)
             | Ok den =>
                 let '(s1, r1) := rec s v cp in
                 match r1 with
                 | Err e => (s1, Err e)
                 | Ok a => (s1, Ok (a, den))
                 end
             end
         end.

  (** CorePopulation.__call__: regenerated option dispatch *)
  Definition src_call (c : ent) (s : S) (v : nat) (q : period) (o : opt) : S * res val :=
    match nth_error (vars sy) v with
    | None => (s, Err ENotFound)
    | Some x =>
        if negb (ent_eqb (v_ent x) c) then (s, Err EValue)
        else match gen_option_dispatch (opt_has_add o) (opt_has_divide o) (opt_is_sequence o) with
             | DPlain => rec s v q
             | DIncompatible | DInvalid => (s, Err EValue)
             | DAdd => calc_add rec s v x q
             | DDivide =>
                 let '(s1, r1) := calc_divide rec s v x q in
                 match r1 with
                 | Err e => (s1, Err e)
                 | Ok (a, den) => (s1, Ok (map (fun z => z / den) a))
                 end
             end
    end.
End Src.
