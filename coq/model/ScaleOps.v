(** Executable model of the tax-scale transformations (C09), on top of Scale.v.

    The list-level functions are the ones of Scale.v, section "Transformations (C09)":
    [add_tax_scale] / [combine_bracket] (marginal_rate_tax_scale.py, after the F5 repair),
    [combine_tax_scales] (helpers.py), [inverse], [multiply_rates], [multiply_thresholds]
    (with [decimals]), [scale_tax_scales], [copy], [to_average] (after the F6 repair),
    [to_marginal].  They are used here unchanged; this file adds

    - the scalar tax function [calc] (MarginalRateTaxScale.calc on a one-element vector,
      factor 1, no rounding) which the theorems of props/C09.v speak about;
    - the *calls* of the methods that have an [inplace] flag: what [self] is after the
      call, what is returned and whether the returned object is [self];
    - sequences of [add_tax_scale] calls and [combine_tax_scales] over a node;
    - the compositions the property speaks about (average -> marginal, net amounts).

    No proofs in this file. *)
From Coq Require Import ZArith QArith Qminmax List Bool.
From Verif Require Import Base Scale.
Import ListNotations.
Open Scope Q_scope.

(* ------------------------------------------------------------------------- *)
(** * Scalar calc                                                              *)
(* ------------------------------------------------------------------------- *)

(** scale.calc(numpy.array([b]))[0]; [eps] is what [1.0 + numpy.finfo(float).eps] adds to
    the multiplier of the thresholds (2^-52 in the code, 0 in the theorems). *)
Definition calc_eps (eps : Q) (s : scale) (b : Q) : Q := nth 0 (calc_marginal eps 1 None s [b]) 0.
Definition calc (s : scale) (b : Q) : Q := calc_eps 0 s b.

(* ------------------------------------------------------------------------- *)
(** * Calls with an [inplace] flag                                             *)
(* ------------------------------------------------------------------------- *)

(** Result of a method call on [self]: the state of [self] after the call, the returned
    scale, and whether the returned object is [self] itself. *)
Record call := { self_after : scale; returned : scale; aliased : bool }.

(** RateTaxScaleLike.multiply_rates(factor, inplace, new_name): [assert new_name is None]
    when inplace (AssertionError: EOther); in place the rates of [self] are overwritten and
    [self] is returned, otherwise a new scale is filled and [self] is left alone. *)
Definition multiply_rates_call (factor : Q) (inplace new_name : bool) (self : scale) : res call :=
  if inplace then
    if new_name then Err EOther
    else Ok {| self_after := multiply_rates factor self;
               returned := multiply_rates factor self; aliased := true |}
  else Ok {| self_after := self; returned := multiply_rates factor self; aliased := false |}.

(** RateTaxScaleLike.multiply_thresholds(factor, decimals, inplace, new_name). *)
Definition multiply_thresholds_call (factor : Q) (decimals : option Z) (inplace new_name : bool)
           (self : scale) : res call :=
  if inplace then
    if new_name then Err EOther
    else Ok {| self_after := multiply_thresholds factor decimals self;
               returned := multiply_thresholds factor decimals self; aliased := true |}
  else Ok {| self_after := self; returned := multiply_thresholds factor decimals self;
             aliased := false |}.

(** MarginalRateTaxScale.scale_tax_scales(factor): multiply_thresholds in place on a deep
    copy of [self]. *)
Definition scale_tax_scales_call (factor : Q) (self : scale) : res call :=
  match multiply_thresholds_call factor None true false (copy self) with
  | Ok c => Ok {| self_after := self; returned := returned c; aliased := false |}
  | Err e => Err e
  end.

(** TaxScaleLike.copy(): deep copy of the instance dictionary. *)
Definition copy_call (self : scale) : call :=
  {| self_after := self; returned := copy self; aliased := false |}.

(* ------------------------------------------------------------------------- *)
(** * Combination of several scales                                            *)
(* ------------------------------------------------------------------------- *)

(** self.add_tax_scale(o1); self.add_tax_scale(o2); ... *)
Definition add_tax_scales (self : scale) (others : list scale) : scale :=
  fold_left add_tax_scale others self.

(** The marginal-rate children of a node, in order ([None]: a child of another type). *)
Fixpoint marginal_children (node : list (option scale)) : list scale :=
  match node with
  | [] => []
  | Some c :: node' => c :: marginal_children node'
  | None :: node' => marginal_children node'
  end.

(* ------------------------------------------------------------------------- *)
(** * Compositions                                                             *)
(* ------------------------------------------------------------------------- *)

(** scale.to_average().to_marginal() *)
Definition average_then_marginal (s : scale) : res scale := bind (to_average s) to_marginal.

(** net = gross - scale.calc(gross) *)
Definition net_of (eps : Q) (s : scale) (g : Q) : Q := g - calc_eps eps s g.
