(** Executable model of openfisca_core/taxscales over the rationals.

    A scale is the pair of parallel Python lists (thresholds, rates) or (thresholds,
    amounts), kept here as one list of pairs (the code only ever inserts, merges or maps
    both lists together).  Numbers are [Q] and are compared with [Qeq_bool]/[Qle_bool]
    (Python [==], [<=] on numbers); nothing depends on the representation of a rational.

    The threshold shift of the code ([factor + numpy.finfo(float).eps]) is the explicit
    argument [eps]: the correspondence instantiates it with the value the float addition
    [factor + eps] really adds (2^-52 for factor in [1,2), 0 when eps is absorbed), the
    theorems of C09 and the "clean" corollaries of C08 with 0.

    No proofs in this file.  Conventions that are modelled but are not reachable through
    [add_bracket] are marked (unreachable). *)
From Coq Require Import ZArith QArith Qminmax Qround List Bool.
From Verif Require Import Base.
Import ListNotations.
Open Scope Q_scope.

(* ------------------------------------------------------------------------- *)
(** * Numbers                                                                  *)
(* ------------------------------------------------------------------------- *)

Definition Qlt_bool (a b : Q) : bool := negb (Qle_bool b a).

(** Thresholds extended with +inf ([numpy.inf], [float("Inf")]). *)
Inductive ext := Fin (q : Q) | Inf.

Definition ext_eqb (a b : ext) : bool :=
  match a, b with
  | Fin x, Fin y => Qeq_bool x y
  | Inf, Inf => true
  | _, _ => false
  end.
Definition ext_ltb (a b : ext) : bool :=
  match a, b with
  | Fin x, Fin y => Qlt_bool x y
  | Fin _, Inf => true
  | Inf, _ => false
  end.
(* x * e for a multiplier x > 0 (the code guarantees factor + eps > 0 for factor >= 0) *)
Definition emul (x : Q) (e : ext) : ext := match e with Fin q => Fin (x * q) | Inf => Inf end.
(* numpy.minimum(b, e) *)
Definition emin (b : Q) (e : ext) : Q := match e with Fin q => Qmin b q | Inf => b end.

(** numpy.round / numpy.around to [d] decimals: rint (round half to even) of the scaled
    value.  Model over Q; the implementation does the same in binary64. *)
Definition rint (x : Q) : Z :=
  let f := Qfloor x in
  match Qcompare (x - inject_Z f) (1 # 2) with
  | Lt => f
  | Gt => (f + 1)%Z
  | Eq => if Z.even f then f else (f + 1)%Z
  end.
Definition pow10 (d : Z) : Q := inject_Z (10 ^ d).
Definition around (d : Z) (x : Q) : Q :=
  if (0 <=? d)%Z then inject_Z (rint (x * pow10 d)) / pow10 d
  else inject_Z (rint (x / pow10 (- d))) * pow10 (- d).
Definition earound (d : Z) (e : ext) : ext := match e with Fin q => Fin (around d q) | Inf => Inf end.
Definition around_opt (d : option Z) (x : Q) : Q := match d with None => x | Some d => around d x end.

(* ------------------------------------------------------------------------- *)
(** * List / numpy helpers                                                     *)
(* ------------------------------------------------------------------------- *)

(* numpy.tile(v, (n, 1)).T : one row per element of v, n columns *)
Definition tile_T {A} (v : list A) (n : nat) : list (list A) := map (fun x => repeat x n) v.
(* numpy.tile(row, (n, 1)) : n copies of the row *)
Definition tile_rows {A B} (row : list A) (v : list B) : list (list A) := map (fun _ => row) v.
(* numpy.outer(u, v) with v possibly containing +inf *)
Definition outer (u : list Q) (v : list ext) : list (list ext) := map (fun x => map (emul x) v) u.

Fixpoint map2 {A B C} (f : A -> B -> C) (l : list A) (m : list B) : list C :=
  match l, m with
  | a :: l', b :: m' => f a b :: map2 f l' m'
  | _, _ => []
  end.

Fixpoint qsum (l : list Q) : Q := match l with [] => 0 | x :: l' => x + qsum l' end.
(* numpy.dot of two vectors *)
Definition dot (u v : list Q) : Q := qsum (map2 Qmult u v).

Definition b2q (b : bool) : Q := if b then 1 else 0.

(* l[i] with Python / numpy negative indices; 0 when out of range (unreachable) *)
Definition py_nth (l : list Q) (i : Z) : Q :=
  if (i <? 0)%Z then nth (Z.to_nat (Z.of_nat (length l) + i)) l 0 else nth (Z.to_nat i) l 0.

(* row[1:] and row[:-1] *)
Definition his (row : list ext) : list ext := tl row.
Definition los (row : list ext) : list ext := removelast row.

(* numpy.maximum(numpy.minimum(base1, th[:, 1:]) - th[:, :-1], 0), one row *)
Definition clip1 (b : Q) (hi lo : ext) : Q :=
  match lo with
  | Fin l => Qmax (emin b hi - l) 0
  | Inf => 0           (* -inf clipped at 0 (unreachable: the last column is dropped) *)
  end.
Definition clip_row (brow : list Q) (trow : list ext) : list Q :=
  map2 (fun b hl => clip1 b (fst hl) (snd hl)) brow (combine (his trow) (los trow)).

(* ------------------------------------------------------------------------- *)
(** * Scales and add_bracket                                                   *)
(* ------------------------------------------------------------------------- *)

Definition scale := list (Q * Q).          (* (threshold, rate) or (threshold, amount) *)
Definition thresholds (s : scale) : list Q := map fst s.
Definition rates (s : scale) : list Q := map snd s.

(* threshold in self.thresholds *)
Fixpoint mem_thr (t : Q) (s : scale) : bool :=
  match s with
  | [] => false
  | (t', _) :: s' => Qeq_bool t' t || mem_thr t s'
  end.

(* i = self.thresholds.index(threshold); self.rates[i] += rate *)
Fixpoint merge_first (t r : Q) (s : scale) : scale :=
  match s with
  | [] => []
  | (t', r') :: s' => if Qeq_bool t' t then (t', r' + r) :: s' else (t', r') :: merge_first t r s'
  end.

(* i = bisect.bisect_left(self.thresholds, threshold); insert at i.  On the sorted
   lists the code maintains, bisect_left is the number of leading elements < threshold. *)
Fixpoint insert_left (t r : Q) (s : scale) : scale :=
  match s with
  | [] => [(t, r)]
  | (t', r') :: s' => if Qlt_bool t' t then (t', r') :: insert_left t r s' else (t, r) :: (t', r') :: s'
  end.

(** RateTaxScaleLike.add_bracket (rate_tax_scale_like.py) and
    AmountTaxScaleLike.add_bracket (amount_tax_scale_like.py): same code. *)
Definition add_bracket (t r : Q) (s : scale) : scale :=
  if mem_thr t s then merge_first t r s else insert_left t r s.

(* a scale built by successive add_bracket calls, in call order *)
Definition build (calls : list (Q * Q)) : scale :=
  fold_left (fun s tr => add_bracket (fst tr) (snd tr) s) calls [].

(** The same for scales whose thresholds may be +inf (LinearAverageRateTaxScale as
    produced by to_average). *)
Definition escale := list (ext * Q).
Definition ethresholds (s : escale) : list ext := map fst s.
Definition erates (s : escale) : list Q := map snd s.

Fixpoint emem_thr (t : ext) (s : escale) : bool :=
  match s with
  | [] => false
  | (t', _) :: s' => ext_eqb t' t || emem_thr t s'
  end.
Fixpoint emerge_first (t : ext) (r : Q) (s : escale) : escale :=
  match s with
  | [] => []
  | (t', r') :: s' => if ext_eqb t' t then (t', r' + r) :: s' else (t', r') :: emerge_first t r s'
  end.
Fixpoint einsert_left (t : ext) (r : Q) (s : escale) : escale :=
  match s with
  | [] => [(t, r)]
  | (t', r') :: s' => if ext_ltb t' t then (t', r') :: einsert_left t r s' else (t, r) :: (t', r') :: s'
  end.
Definition eadd_bracket (t : ext) (r : Q) (s : escale) : escale :=
  if emem_thr t s then emerge_first t r s else einsert_left t r s.
Definition ebuild (calls : list (ext * Q)) : escale :=
  fold_left (fun s tr => eadd_bracket (fst tr) (snd tr) s) calls [].
Definition to_escale (s : scale) : escale := map (fun tr => (Fin (fst tr), snd tr)) s.

(* ------------------------------------------------------------------------- *)
(** * MarginalRateTaxScale.calc (marginal_rate_tax_scale.py)                   *)
(* ------------------------------------------------------------------------- *)

(* thresholds1 = numpy.outer(factor + eps, [*thresholds, inf]) (then optionally rounded) *)
Definition thresholds1 (eps factor : Q) (round : option Z) (ths : list ext) (bases : list Q)
  : list (list ext) :=
  let factorv := map (fun _ => 1 * factor) bases in           (* numpy.ones(len(tax_base)) * factor *)
  let th := outer (map (fun f => f + eps) factorv) ths in
  match round with None => th | Some d => map (map (earound d)) th end.

Definition calc_marginal (eps factor : Q) (round : option Z) (s : scale) (bases : list Q) : list Q :=
  let base1 := tile_T bases (length s) in
  let th1 := thresholds1 eps factor round (map Fin (thresholds s) ++ [Inf]) bases in
  let a := map2 clip_row base1 th1 in
  match round with
  | None => map (dot (rates s)) a                                            (* numpy.dot(rates, a.T) *)
  | Some d =>
      (* r = tile(rates); b = round(a, d); round(r * b, d).sum(axis=1) *)
      map (fun arow => qsum (map (around d) (map2 Qmult (rates s) (map (around d) arow)))) a
  end.

(** RateTaxScaleLike.bracket_indices: (base1 - thresholds1 >= 0).sum(axis=1) - 1 *)
Definition count_true (l : list bool) : Z := Z.of_nat (length (filter (fun b => b) l)).

Definition bracket_indices (eps factor : Q) (round : option Z) (s : scale) (bases : list Q)
  : res (list Z) :=
  match s, bases with
  | [], _ => Err EIndex                 (* EmptyArgumentError(IndexError): self.thresholds *)
  | _, [] => Err EIndex                 (* EmptyArgumentError(IndexError): tax_base *)
  | _, _ =>
      let base1 := tile_T bases (length s) in
      let th1 := thresholds1 eps factor round (map Fin (thresholds s)) bases in
      Ok (map2 (fun brow trow =>
                  (count_true (map2 (fun b t => match t with
                                                | Fin t => Qle_bool 0 (b - t)
                                                | Inf => false end) brow trow) - 1)%Z)
               base1 th1)
  end.

(** MarginalRateTaxScale.marginal_rates: numpy.array(rates)[bracket_indices] *)
Definition marginal_rates (eps factor : Q) (round : option Z) (s : scale) (bases : list Q)
  : res (list Q) :=
  rmap (map (py_nth (rates s))) (bracket_indices eps factor round s bases).

(** MarginalRateTaxScale.rate_from_bracket_indice / rate_from_tax_base *)
Definition rate_from_bracket_indice (s : scale) (idx : list Z) : res (list Q) :=
  if existsb (fun i => (Z.of_nat (length s) - 1 <? i)%Z) idx then Err EIndex
  else Ok (map (py_nth (rates s)) idx).
Definition rate_from_tax_base (eps : Q) (s : scale) (bases : list Q) : res (list Q) :=
  bind (bracket_indices eps 1 None s bases) (rate_from_bracket_indice s).

(** RateTaxScaleLike.threshold_from_tax_base *)
Definition threshold_from_tax_base (eps : Q) (s : scale) (bases : list Q) : res (list Q) :=
  rmap (map (py_nth (thresholds s))) (bracket_indices eps 1 None s bases).

(* ------------------------------------------------------------------------- *)
(** * Amount scales                                                            *)
(* ------------------------------------------------------------------------- *)

(** MarginalAmountTaxScale.calc: numpy.dot(amounts, a.T > 0), no eps, no factor *)
Definition calc_marginal_amount (s : scale) (bases : list Q) : list Q :=
  let base1 := tile_T bases (length s) in
  let th1 := tile_rows (map Fin (thresholds s) ++ [Inf]) bases in
  let a := map2 clip_row base1 th1 in
  map (fun arow => dot (rates s) (map (fun x => b2q (Qlt_bool 0 x)) arow)) a.

(** SingleAmountTaxScale.calc: numpy.digitize(tax_base, [-inf, *thresholds, inf], right)
    on increasing bins is 1 + the number of thresholds <= base (right=False) or < base
    (right=True); then guarded_amounts[index - 1] with guarded_amounts = [0, *amounts, 0]. *)
Definition digitize_m1 (right : bool) (ths : list Q) (b : Q) : nat :=
  length (filter (fun t => if right then Qlt_bool t b else Qle_bool t b) ths).
Definition calc_single_amount (right : bool) (s : scale) (bases : list Q) : list Q :=
  let guarded_amounts := 0 :: rates s ++ [0] in
  map (fun b => nth (digitize_m1 right (thresholds s) b) guarded_amounts 0) bases.

(* ------------------------------------------------------------------------- *)
(** * LinearAverageRateTaxScale.calc (linear_average_rate_tax_scale.py)        *)
(* ------------------------------------------------------------------------- *)

Definition fin_or0 (e : ext) : Q := match e with Fin q => q | Inf => 0 end.   (* Inf unreachable in [:-1] *)
(* (r1 - r0) / (t1 - t0) in numpy: x / inf = 0; t1 = t0 is unreachable (model: Q's x / 0 = 0) *)
Definition slope (t0 t1 : ext) (r0 r1 : Q) : Q :=
  match t0, t1 with
  | Fin a, Fin b => (r1 - r0) / (b - a)
  | _, _ => 0
  end.
Definition ext_leb_q (t : ext) (b : Q) : bool := match t with Fin q => Qle_bool q b | Inf => false end.
Definition q_ltb_ext (b : Q) (t : ext) : bool := match t with Fin q => Qlt_bool b q | Inf => true end.

Definition calc_linear_average (s : escale) (bases : list Q) : res (list Q) :=
  match s with
  | [] => Err EValue                                  (* numpy.tile(..., (-1, 1)): negative dimensions *)
  | [(_, r)] => Ok (map (fun b => b * r) bases)       (* len(self.rates) == 1 *)
  | _ =>
      let ths := ethresholds s in
      let rs := erates s in
      let tiled_base := tile_T bases (length s - 1) in
      let tiled_thresholds := tile_rows ths bases in
      let bracket_dummy :=
        map2 (fun brow trow =>
                map2 (fun b lh => b2q (ext_leb_q (fst lh) b && q_ltb_ext b (snd lh)))
                     brow (combine (removelast trow) (tl trow)))
             tiled_base tiled_thresholds in
      let rate_slope :=
        map2 (fun tt rr => slope (fst tt) (snd tt) (fst rr) (snd rr))
             (combine (removelast ths) (tl ths)) (combine (removelast rs) (tl rs)) in
      let average_rate_slope := map (fun d => dot d rate_slope) bracket_dummy in
      let bracket_average_start_rate := map (fun d => dot d (removelast rs)) bracket_dummy in
      let bracket_threshold := map (fun d => dot d (map fin_or0 (removelast ths))) bracket_dummy in
      Ok (map2 (fun b x => b * (fst (fst x) + (b - snd (fst x)) * snd x))
               bases
               (combine (combine bracket_average_start_rate bracket_threshold) average_rate_slope))
  end.

(* ------------------------------------------------------------------------- *)
(** * Transformations (C09)                                                    *)
(* ------------------------------------------------------------------------- *)

(* bisect.bisect_right on a sorted list: number of leading elements <= x *)
Fixpoint bisect_right (l : list Q) (x : Q) : nat :=
  match l with
  | [] => 0
  | y :: l' => if Qle_bool y x then S (bisect_right l' x) else 0
  end.

(* list.index (first equal element); length when absent (unreachable) *)
Fixpoint index_of (x : Q) (l : list Q) : nat :=
  match l with
  | [] => 0
  | y :: l' => if Qeq_bool y x then 0%nat else S (index_of x l')
  end.

(* while i <= j: self.add_bracket(self.thresholds[i], rate); i += 1 *)
Fixpoint combine_loop (rate : Q) (i cnt : nat) (s : scale) : scale :=
  match cnt with
  | O => s
  | S c => combine_loop rate (S i) c (add_bracket (nth i (thresholds s) 0) rate s)
  end.

(* Python truthiness of threshold_high (False, 0 and 0.0 are falsy) *)
Definition truthy (hi : option Q) : option Q :=
  match hi with
  | Some h => if Qeq_bool h 0 then None else Some h
  | None => None
  end.

(** MarginalRateTaxScale.combine_bracket (after the F5 repair: rate 0 when the low
    threshold is below all existing ones). *)
Definition combine_bracket (rate lo : Q) (hi : option Q) (s : scale) : scale :=
  let s1 :=
    if mem_thr lo s then s
    else
      let index := (Z.of_nat (bisect_right (thresholds s) lo) - 1)%Z in
      add_bracket lo (if (0 <=? index)%Z then py_nth (rates s) index else 0) s in
  let s2 :=
    match truthy hi with
    | Some h =>
        if mem_thr h s1 then s1
        else
          let index := (Z.of_nat (bisect_right (thresholds s1) h) - 1)%Z in
          add_bracket h (py_nth (rates s1) index) s1
    | None => s1
    end in
  let i := Z.of_nat (index_of lo (thresholds s2)) in
  let j :=
    match truthy hi with
    | Some h => (Z.of_nat (index_of h (thresholds s2)) - 1)%Z
    | None => (Z.of_nat (length s2) - 1)%Z
    end in
  combine_loop rate (Z.to_nat i) (Z.to_nat (j + 1 - i)) s2.

(** MarginalRateTaxScale.add_tax_scale: zip(thresholds[:-1], thresholds[1:], rates), then
    the last bracket without high threshold. *)
Fixpoint add_tax_scale_loop (self : scale) (other : scale) : scale :=
  match other with
  | [] => self
  | [(t, r)] => combine_bracket r t None self
  | (t, r) :: (((t2, _) :: _) as other') =>
      add_tax_scale_loop (combine_bracket r t (Some t2) self) other'
  end.
Definition add_tax_scale (self other : scale) : scale := add_tax_scale_loop self other.

(** taxscales.helpers.combine_tax_scales: [node] is the sequence of the node's children,
    [None] for a child that is not a MarginalRateTaxScale. *)
Definition combine_tax_scales (node : list (option scale)) (combined : option scale) : option scale :=
  match node with
  | [] => combined
  | _ =>
      let start := match combined with Some c => c | None => add_bracket 0 0 [] end in
      Some (fold_left (fun acc child => match child with Some c => add_tax_scale acc c | None => acc end)
                      node start)
  end.

(** MarginalRateTaxScale.inverse.  [st] is (previous_rate, theta), unbound (None) until a
    threshold equal to 0 is met: UnboundLocalError otherwise; 1 / (1 - rate) raises
    ZeroDivisionError for rate = 1 (both EOther). *)
Fixpoint inverse_loop (s : scale) (st : option (Q * Q)) (acc : scale) : res scale :=
  match s with
  | [] => Ok acc
  | (t, r) :: s' =>
      let st := if Qeq_bool t 0 then Some (0, 0) else st in
      match st with
      | None => Err EOther
      | Some (previous_rate, theta) =>
          let net_threshold := (1 - previous_rate) * t + theta in
          if Qeq_bool (1 - r) 0 then Err EOther
          else inverse_loop s' (Some (r, (r - previous_rate) * t + theta))
                            (add_bracket net_threshold (1 / (1 - r)) acc)
      end
  end.
Definition inverse (s : scale) : res scale := inverse_loop s None [].

(** RateTaxScaleLike.multiply_rates / multiply_thresholds (in place or not: the same
    lists; the distinction is observed by the harness), TaxScaleLike.copy,
    MarginalRateTaxScale.scale_tax_scales. *)
Definition multiply_rates (factor : Q) (s : scale) : scale :=
  map (fun tr => (fst tr, snd tr * factor)) s.
Definition multiply_thresholds (factor : Q) (decimals : option Z) (s : scale) : scale :=
  map (fun tr => (around_opt decimals (fst tr * factor), snd tr)) s.
Definition copy (s : scale) : scale := s.
Definition scale_tax_scales (factor : Q) (s : scale) : scale :=
  multiply_thresholds factor None (copy s).

(** MarginalRateTaxScale.to_average (after the F6 repair).  i / threshold raises
    ZeroDivisionError for a zero threshold after the first one (EOther). *)
Fixpoint to_average_loop (rest : scale) (i previous_threshold previous_rate : Q) (avg : escale)
  : res escale :=
  match rest with
  | [] => Ok avg
  | (t, r) :: rest' =>
      let i := i + previous_rate * (t - previous_threshold) in
      if Qeq_bool t 0 then Err EOther
      else to_average_loop rest' i t r (eadd_bracket (Fin t) (i / t) avg)
  end.
Definition to_average (s : scale) : res escale :=
  let avg := eadd_bracket (Fin 0) 0 [] in
  match s with
  | [] => Ok avg
  | (t0, r0) :: rest =>
      let avg := if Qeq_bool t0 0 then avg else eadd_bracket (Fin t0) 0 avg in
      match to_average_loop rest 0 t0 r0 avg with
      | Err e => Err e
      | Ok avg => Ok (eadd_bracket Inf (last (rates s) 0) avg)
      end
  end.

(** LinearAverageRateTaxScale.to_marginal.  [last_rate] is the loop variable [rate]
    after the loop: unbound when the scale has fewer than two brackets
    (UnboundLocalError, EOther); a threshold equal to the previous one divides by zero
    (EOther). *)
Fixpoint to_marginal_loop (rest : escale) (previous_i previous_threshold : Q) (last_rate : option Q)
         (m : scale) : res scale :=
  match rest with
  | [] => match last_rate with
          | None => Err EOther
          | Some rate => Ok (add_bracket previous_threshold rate m)
          end
  | (Inf, rate) :: rest' => to_marginal_loop rest' previous_i previous_threshold (Some rate) m
  | (Fin t, rate) :: rest' =>
      let i := rate * t in
      if Qeq_bool (t - previous_threshold) 0 then Err EOther
      else to_marginal_loop rest' i t (Some rate)
             (add_bracket previous_threshold ((i - previous_i) / (t - previous_threshold)) m)
  end.
Definition to_marginal (s : escale) : res scale :=
  to_marginal_loop (tl s) 0 0 None [].
