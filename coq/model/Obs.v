(** Canonical observations exchanged between the implementation driver and the
    model in the correspondence check, with a decidable comparison. *)
From Coq Require Import ZArith QArith List Bool String.
From Verif Require Import Base.
Import ListNotations.

Inductive obs :=
  | OZ (z : Z)
  | OB (b : bool)
  | OS (s : string)
  | OQ (q : Q)            (* exact rational; compared with Qeq_bool *)
  | ONone
  | OErr (e : err)
  | OL (l : list obs).

Fixpoint obs_eqb (a b : obs) {struct a} : bool :=
  match a, b with
  | OZ x, OZ y => Z.eqb x y
  | OB x, OB y => Bool.eqb x y
  | OS x, OS y => String.eqb x y
  | OQ x, OQ y => Qeq_bool x y
  | ONone, ONone => true
  | OErr x, OErr y => err_eqb x y
  | OL x, OL y =>
      (fix go (x y : list obs) {struct x} : bool :=
         match x, y with
         | [], [] => true
         | a :: x', b :: y' => obs_eqb a b && go x' y'
         | _, _ => false
         end) x y
  | _, _ => false
  end.

Definition ores {A} (f : A -> obs) (r : res A) : obs :=
  match r with Ok a => f a | Err e => OErr e end.
Definition oopt {A} (f : A -> obs) (r : option A) : obs :=
  match r with Some a => f a | None => ONone end.
Definition olist {A} (f : A -> obs) (l : list A) : obs := OL (map f l).
Definition odate (c : Z * Z * Z) : obs := let '(y, m, d) := c in OL [OZ y; OZ m; OZ d].

(** Indices (0-based) of the cases on which the model's observation differs from
    the one recorded for the implementation. *)
Fixpoint mismatches_from {A} (run : A -> obs) (i : nat) (l : list (A * obs)) : list nat :=
  match l with
  | [] => []
  | (c, o) :: l' =>
      if obs_eqb (run c) o then mismatches_from run (S i) l'
      else i :: mismatches_from run (S i) l'
  end.
Definition mismatches {A} (run : A -> obs) (l : list (A * obs)) : list nat :=
  mismatches_from run 0 l.
