(** Executable model of the ways of READING parameters and of the documented ways of
    REPLACING them (property C07):

      - taxbenefitsystems/tax_benefit_system.py: get_parameters_at_instant and its
        per-system cache (commit "fix: parameters-at-instant cache is per system and
        dropped when the parameter tree is replaced"), load_parameters / assignment of
        the attribute [parameters];
      - reforms/reform.py: __init__ (a reform starts on its baseline's tree) and
        modify_parameters (deep copy of the BASELINE's tree, modifier, reassignment);
      - parameters/parameter_node_at_instant.py: __getattr__ / __getitem__;
      - parameters/vectorial_parameter_node_at_instant.py: check_node_vectorisable,
        build_from_node, __getitem__ with an array of names, __getattr__;
      - parameters/vectorial_asof_date_parameter_node_at_instant.py: __getitem__ with
        an array of dates;
      - tracers/tracing_parameter_node_at_instant.py: the wrapper handed to formulas when
        simulation.trace is on, and what it records;
      - simulations/simulation.py: _run_formula (which object a formula receives as its
        [parameters] argument).

    Written after the code that exists, including behaviour the property does not claim
    (in-place mutation of the live tree, error kinds of ill-formed lookups, a modifier
    that returns nothing).  The state is a WORLD of systems (a baseline, reforms over it,
    reforms of reforms); every operation names the system it is applied to.  The machine
    before the fix (functools.lru_cache keyed by system and instant, never cleared) is
    the mode [Lru] of the same definitions, the cache-free reference the mode [NoCache].
    No proofs here.

    Trees, views and histories are those of Param.v; dates are ordinals. *)
From Coq Require Import ZArith List Bool String Ascii.
From Verif Require Import Base Cal Param.
Import ListNotations.
Open Scope Z_scope.
Open Scope string_scope.

Definition path := list string.

(** A dict with string keys, as the list of its items (keys are distinct). *)
Fixpoint find_child {A} (n : string) (l : list (string * A)) : option A :=
  match l with
  | [] => None
  | (m, c) :: r => if String.eqb n m then Some c else find_child n r
  end.

(** ** Navigation *)

(** system.parameters.a.b : attribute access on ParameterNode objects (add_child does
    setattr); anything else is an AttributeError. *)
Fixpoint subtree (t : tree) (p : path) : res tree :=
  match p with
  | [] => Ok t
  | n :: p' =>
      match t with
      | TNode ch => match find_child n ch with Some c => subtree c p' | None => Err EOther end
      | _ => Err EOther
      end
  end.

(** view.a.b : attribute access on ParameterNodeAtInstant objects; a member that is
    absent (not declared, or not defined at the date) is a ParameterNotFoundError;
    an attribute of a number or of a tax scale is an AttributeError. *)
Fixpoint view_get (v : view) (p : path) : res view :=
  match p with
  | [] => Ok v
  | n :: p' =>
      match v with
      | VNode ch => match find_child n ch with Some c => view_get c p' | None => Err ENotFound end
      | _ => Err EOther
      end
  end.

(** ** Fancy indexing: vectorial_parameter_node_at_instant.py *)

Definition vchildren (v : view) : list view :=
  match v with VNode ch => map snd ch | _ => [] end.

Definition is_value (v : view) : bool := match v with VValue _ => true | _ => false end.

(** first_node_keys != node_keys : dict key views compare as sets *)
Definition same_keys (a b : list string) : bool :=
  forallb (fun x => existsb (String.eqb x) b) a && forallb (fun x => existsb (String.eqb x) a) b.

(** check_nodes_homogeneous, branch "the first one is a number" *)
Fixpoint check_numbers (l : list view) : res unit :=
  match l with
  | [] => Ok tt
  | VValue _ :: r => check_numbers r
  | VNode _ :: _ => Err EValue          (* raise_type_inhomogeneity_error *)
  | VScale _ _ :: _ => Err EOther       (* raise_not_implemented *)
  end.

(** check_nodes_homogeneous, branch "the first one is a node": the others are nodes
    with the same keys *)
Fixpoint check_nodes (keys : list string) (l : list view) : res unit :=
  match l with
  | [] => Ok tt
  | VNode ch :: r => if same_keys keys (map fst ch) then check_nodes keys r else Err EValue
  | _ :: _ => Err EValue
  end.

(** check_nodes_homogeneous(named_nodes): one level of the group, then the union of
    the next level.  nodes[0] of an empty level is an IndexError. *)
Fixpoint check_level (fuel : nat) (l : list view) : res unit :=
  match fuel with
  | O => Err EFuel
  | S f =>
      match l with
      | [] => Err EIndex
      | VNode ch :: r =>
          match check_nodes (map fst ch) r with
          | Err e => Err e
          | Ok _ => check_level f (flat_map vchildren l)
          end
      | VValue _ :: r => check_numbers r
      | VScale _ _ :: _ => Err EOther
      end
  end.

Fixpoint vheight (v : view) : nat :=
  match v with
  | VNode ch =>
      S ((fix go (l : list (string * view)) : nat :=
            match l with [] => O | (_, c) :: r => Nat.max (vheight c) (go r) end) ch)
  | _ => 1%nat
  end.

Definition check_node_vectorisable (v : view) : res unit :=
  check_level (S (vheight v)) (vchildren v).

(** A vectorial node: a record array.  [v_rows] is one record per element, [v_tmpl] any
    one record of the (homogeneous) structure - it stands for the dtype. *)
Record vec := mk_vec { v_tmpl : view; v_rows : list view }.

(** numpy broadcasting of two one-dimensional shapes (inside numpy.select) *)
Definition broadcast2 {A B} (a : list A) (b : list B) : res (list (A * B)) :=
  match a, b with
  | [x], _ => Ok (map (fun y => (x, y)) b)
  | _, [y] => Ok (map (fun x => (x, y)) a)
  | _, _ => if Nat.eqb (List.length a) (List.length b) then Ok (combine a b) else Err EValue
  end.

Definition lookup_key (rk : view * string) : res view :=
  match rk with
  | (VNode ch, k) => match find_child k ch with Some c => Ok c | None => Err ENotFound end
  | (_, _) => Err ENotFound
  end.

Definition first_child (v : view) : view :=
  match v with VNode ((_, c) :: _) => c | _ => v end.

(** VectorialParameterNodeAtInstant.__getitem__(key) with an array of names:
    key[0] (IndexError on an empty array), self.vector[key[0]] (numpy: ValueError "no
    field of name"), numpy.select over the names, NaN left over = some key is not a
    member (ParameterNotFoundError). *)
Definition vec_getitem (x : vec) (keys : list string) : res vec :=
  match v_tmpl x with
  | VNode tch =>
      match keys with
      | [] => Err EIndex
      | k0 :: _ =>
          match find_child k0 tch with
          | None => Err EValue
          | Some c0 =>
              match broadcast2 (v_rows x) keys with
              | Err e => Err e
              | Ok pairs =>
                  match mapM lookup_key pairs with
                  | Err e => Err e
                  | Ok rows => Ok (mk_vec c0 rows)
                  end
              end
          end
      end
  | _ => Err EIndex      (* a numpy array of numbers indexed by an array of strings *)
  end.

(** VectorialParameterNodeAtInstant.__getattr__(name) = getattr(self.vector, name): a
    missing field is an AttributeError; a field that is itself a record array is wrapped
    by a call of the constructor with one argument instead of three: TypeError. *)
Definition vec_getattr (x : vec) (name : string) : res vec :=
  match v_tmpl x with
  | VNode tch =>
      match find_child name tch with
      | None => Err EOther
      | Some (VNode _) => Err EType
      | Some c0 =>
          match mapM (fun r => lookup_key (r, name)) (v_rows x) with
          | Err e => Err e
          | Ok rows => Ok (mk_vec c0 rows)
          end
      end
  | _ => Err EOther      (* attribute of a numpy array of numbers *)
  end.

Inductive vstep := SKeys (keys : list string) | SField (name : string).

Definition vec_step (x : vec) (s : vstep) : res vec :=
  match s with SKeys keys => vec_getitem x keys | SField n => vec_getattr x n end.

Fixpoint vec_steps (x : vec) (l : list vstep) : res vec :=
  match l with
  | [] => Ok x
  | s :: r => match vec_step x s with Err e => Err e | Ok y => vec_steps y r end
  end.

(** ParameterNodeAtInstant.__getitem__(array of names): build_from_node (the check,
    then a record array with one element), then __getitem__ of the vectorial node. *)
Definition vector_lookup (v : view) (keys : list string) : res (list view) :=
  match v with
  | VNode _ =>
      match check_node_vectorisable v with
      | Err e => Err e
      | Ok _ => rmap v_rows (vec_getitem (mk_vec v [v]) keys)
      end
  | _ => Err EType       (* a number or a tax scale is not subscriptable *)
  end.

(** the scalar lookup: view[name], i.e. self._children[name] *)
Definition scalar_lookup (v : view) (k : string) : res view := lookup_key (v, k).

(** ** Indexing by dates: vectorial_asof_date_parameter_node_at_instant.py *)

Definition digit (c : ascii) : option Z :=
  let n := Z.of_nat (nat_of_ascii c) in
  if ((48 <=? n) && (n <=? 57))%Z then Some (n - 48) else None.

Fixpoint digits_val (acc : Z) (s : string) : option Z :=
  match s with
  | EmptyString => Some acc
  | String c r => match digit c with Some k => digits_val (10 * acc + k) r | None => None end
  end.

Fixpoint drop_chars (n : nat) (s : string) : string :=
  match n, s with
  | O, _ => s
  | S k, String _ r => drop_chars k r
  | S _, EmptyString => EmptyString
  end.

(** What numpy.datetime64("-".join(name[len("after_"):].split("_"))) makes of a child
    name.  Only full dates are modelled; the empty text is NaT; anything else (which
    numpy may accept as a coarser date or refuse) is [ABad]. *)
Inductive asof_name := ABefore | ANaT | ADate (o : Z) | ABad.

Definition classify_asof (s : string) : asof_name :=
  if String.prefix "before" s then ABefore
  else
    let r := drop_chars 6 s in
    if String.eqb r "" then ANaT
    else if negb (Nat.eqb (String.length r) 10) then ABad
    else
      match digits_val 0 (substring 0 4 r), digits_val 0 (substring 5 2 r),
            digits_val 0 (substring 8 2 r) with
      | Some y, Some m, Some d =>
          if String.eqb (substring 4 1 r) "_" && String.eqb (substring 7 1 r) "_"
             && (1 <=? y)%Z && validb (y, m, d)
          then ADate (ord (y, m, d)) else ABad
      | _, _, _ => ABad
      end.

(** the list [names] of __getitem__: children whose name does not start with
    "before", as dates ([None] = NaT, which compares false with everything) *)
Fixpoint asof_dates (names : list string) : res (list (option Z)) :=
  match names with
  | [] => Ok []
  | n :: r =>
      match classify_asof n with
      | ABefore => asof_dates r
      | ABad => Err EValue
      | ANaT => match asof_dates r with Ok l => Ok (None :: l) | Err e => Err e end
      | ADate o => match asof_dates r with Ok l => Ok (Some o :: l) | Err e => Err e end
      end
  end.

(** sum([name <= key for name in names]) for one key *)
Definition asof_index (names : list (option Z)) (d : Z) : nat :=
  List.length (filter (fun n => match n with Some o => (o <=? d)%Z | None => false end) names).

Definition nth_res {A} (l : list A) (k : nat) : res A :=
  match nth_error l k with Some x => Ok x | None => Err EIndex end.

Inductive rd :=
  | RNone                       (* Python None *)
  | RView (v : view)            (* a number, a tax scale or a node at an instant *)
  | RRows (l : list view).      (* an array: one element per key *)

(** ParameterNodeAtInstant.__getitem__(array of dates).  values[...] takes the children
    in DECLARATION order, "before" children included; without any dated child the sum
    of an empty list is the integer 0 and the result is values[0], not an array. *)
Definition asof_getitem (v : view) (dates : list Z) : res (view * rd) :=
  match v with
  | VNode ch =>
      match check_node_vectorisable v with
      | Err e => Err e
      | Ok _ =>
          let values := map snd ch in
          match asof_dates (map fst ch) with
          | Err e => Err e
          | Ok [] => match values with c :: _ => Ok (c, RView c) | [] => Err EIndex end
          | Ok names =>
              match mapM (fun d => nth_res values (asof_index names d)) dates with
              | Err e => Err e
              | Ok rows => Ok (first_child v, RRows rows)
              end
          end
      end
  | _ => Err EType
  end.

Definition asof_lookup (v : view) (dates : list Z) : res rd :=
  rmap snd (asof_getitem v dates).

(** ** What is done with the object a route gives *)

Inductive tail :=
  | TWhole                                              (* the object itself *)
  | TVec (keys : list string) (steps : list vstep)      (* node[names] then [names] / .field *)
  | TAsof (dates : list Z) (field : option string).     (* node[dates] then .field *)

(** the result, and whether it is a plain array of numbers / a number (what the tracing
    wrapper records) *)
Definition apply_tail_full (v : view) (t : tail) : res (rd * bool) :=
  match t with
  | TWhole => Ok (RView v, false)
  | TVec keys steps =>
      match v with
      | VNode _ =>
          match check_node_vectorisable v with
          | Err e => Err e
          | Ok _ =>
              match vec_getitem (mk_vec v [v]) keys with
              | Err e => Err e
              | Ok x =>
                  match vec_steps x steps with
                  | Err e => Err e
                  | Ok y => Ok (RRows (v_rows y), is_value (v_tmpl y))
                  end
              end
          end
      | _ => Err EType
      end
  | TAsof dates field =>
      match asof_getitem v dates with
      | Err e => Err e
      | Ok (tmpl, r) =>
          match field with
          | None => Ok (r, is_value tmpl)
          | Some n =>
              match r with
              | RRows rows =>
                  match vec_getattr (mk_vec tmpl rows) n with
                  | Err e => Err e
                  | Ok y => Ok (RRows (v_rows y), is_value (v_tmpl y))
                  end
              | RView (VNode ch) =>
                  (* no dated member: values[0], a single record, wrapped all the same *)
                  match find_child n ch with
                  | None => Err EOther
                  | Some (VNode _) => Err EType
                  | Some c => Ok (RView c, is_value c)
                  end
              | _ => Err EOther
              end
          end
      end
  end.

Definition apply_tail (v : view) (t : tail) : res rd := rmap fst (apply_tail_full v t).

(** ** The routes *)

Inductive route :=
  | RSystem                     (* system.get_parameters_at_instant(i).path *)
  | RDirect                     (* system.parameters.path(i) *)
  | RFormula (traced : bool).   (* parameters(period).path inside a formula *)

(** through an at-instant view of the whole tree ([None]: the system has no such view) *)
Definition read_view (ov : option view) (p : path) (t : tail) : res rd :=
  match ov with
  | None => Err EOther
  | Some v => match view_get v p with Err e => Err e | Ok w => apply_tail w t end
  end.

(** through the parameter object itself: the sub-tree, called at the date.  A leaf that
    is not defined at the date gives None. *)
Definition read_direct (root : tree) (p : path) (i : Z) (t : tail) : res rd :=
  match subtree root p with
  | Err e => Err e
  | Ok st =>
      match at_instant st i with
      | None => match t with TWhole => Ok RNone | _ => Err EType end
      | Some w => apply_tail w t
      end
  end.

(** *** The tracing wrapper *)

(** accesses recorded by tracer.record_parameter_access: (name, value) *)
Definition tlog := list (string * rd).

(** helpers._compose_name(path, child_name) *)
Definition compose_name (nm k : string) : string :=
  if String.eqb nm "" then k else nm ++ "." ++ k.

(** TracingParameterNodeAtInstant.__getattr__ along a path, starting from the wrapper of
    the node called [nm]: a child that is a node is wrapped again; any other child is
    returned as it is, and recorded under f"{node._name}.{key}" when it is a plain
    value.  Gives the object reached, the name of the last node and the record. *)
Fixpoint traced_get (nm : string) (v : view) (p : path) : res (view * string * tlog) :=
  match p with
  | [] => Ok (v, nm, [])
  | k :: p' =>
      match v with
      | VNode ch =>
          match find_child k ch with
          | None => Err ENotFound
          | Some (VNode ch') => traced_get (compose_name nm k) (VNode ch') p'
          | Some c =>
              match p' with
              | [] => Ok (c, nm, if is_value c then [(nm ++ "." ++ k, RView c)] else [])
              | _ :: _ => Err EOther
              end
          end
      | _ => Err EOther
      end
  end.

(** ... then __getitem__ / __getattr__ of the wrapper for the tail: a result that is a
    node (vectorial or not) is wrapped again, an array of numbers is recorded under
    the name of the group. *)
Definition read_traced (ov : option view) (p : path) (t : tail) : res rd * tlog :=
  match ov with
  | None => (Err EOther, [])
  | Some v =>
      match traced_get "" v p with
      | Err e => (Err e, [])
      | Ok (w, nm, lg) =>
          match apply_tail_full w t with
          | Err e => (Err e, [])
          | Ok (r, plain) => (Ok r, if plain then (lg ++ [(nm, r)])%list else lg)
          end
      end
  end.

(** ** The systems and their caches *)

(** One tax-benefit system.  [s_rid]: identity of the object bound to [parameters] (a
    reform starts with the very object of its baseline); [s_base]: for a reform, which
    system of the world is its baseline; [s_cache]: _parameters_at_instant_cache;
    [s_cached]: identity kept in _cached_parameters.

    Reform.__init__ binds the reform's _parameters_at_instant_cache to the dict OBJECT of
    its baseline.  The reform has no _cached_parameters of its own, so its first read
    rebinds the attribute to a new dict before anything is looked up: the shared object
    is never read through the reform, and each system has its own [s_cache] here. *)
Record sys := mk_sys {
  s_base : option nat;
  s_root : tree;
  s_rid : nat;
  s_cache : list (Z * option view);
  s_cached : option nat }.

(** All the systems that exist (a baseline, its reforms, reforms of reforms, in order of
    creation) and the next fresh object identity. *)
Record world := mk_world { w_sys : list sys; w_next : nat }.

Definition init (t : tree) : world := mk_world [mk_sys None t 0 [] None] 1.

Inductive mode :=
  | Fixed     (* the code as it is *)
  | Lru       (* before the fix: functools.lru_cache on (system, instant), never cleared *)
  | NoCache.  (* the reference: no memo at all, every read evaluates the current tree *)

Fixpoint assoc {A} (i : Z) (l : list (Z * A)) : option A :=
  match l with
  | [] => None
  | (k, v) :: r => if (k =? i)%Z then Some v else assoc i r
  end.

Definition set_cache (s : sys) (c : list (Z * option view)) (k : option nat) : sys :=
  mk_sys (s_base s) (s_root s) (s_rid s) c k.

(** "The cache is only valid for the parameter tree it was built from." *)
Definition validate (s : sys) : sys :=
  match s_cached s with
  | Some k => if Nat.eqb k (s_rid s) then s else set_cache s [] (Some (s_rid s))
  | None => set_cache s [] (Some (s_rid s))
  end.

(** get_parameters_at_instant.  The dict is read with .get, so a stored None is
    recomputed; lru_cache memoises whatever was returned. *)
Definition get_parameters_at_instant (m : mode) (s : sys) (i : Z) : sys * option view :=
  match m with
  | Fixed =>
      let s1 := validate s in
      match assoc i (s_cache s1) with
      | Some (Some v) => (s1, Some v)
      | _ => let v := at_instant (s_root s1) i in
             (set_cache s1 ((i, v) :: s_cache s1) (s_cached s1), v)
      end
  | Lru =>
      match assoc i (s_cache s) with
      | Some v => (s, v)
      | None => let v := at_instant (s_root s) i in
                (set_cache s ((i, v) :: s_cache s) (s_cached s), v)
      end
  | NoCache => (s, at_instant (s_root s) i)
  end.

(** *** Writing *)

Fixpoint replace {A} (k : nat) (x : A) (l : list A) : list A :=
  match l, k with
  | [], _ => []
  | _ :: r, O => x :: r
  | y :: r, S k' => y :: replace k' x r
  end.


(** scale.brackets[i].<field>.update(...): the parameters of a bracket.  The index is
    written in decimal in the path; brackets[i] beyond the list is an IndexError, a field
    the bracket does not declare an AttributeError. *)
Definition set_bracket_field (b : bracket) (f : string) (u : upd Z) : res bracket :=
  let upd_field (o : option (hist Z)) (k : option (hist Z) -> bracket) : res bracket :=
    match o with Some h => Ok (k (Some (apply_update h u))) | None => Err EOther end in
  if String.eqb f "threshold" then
    upd_field (b_threshold b) (fun x => mk_bracket x (b_rate b) (b_amount b) (b_average_rate b))
  else if String.eqb f "rate" then
    upd_field (b_rate b) (fun x => mk_bracket (b_threshold b) x (b_amount b) (b_average_rate b))
  else if String.eqb f "amount" then
    upd_field (b_amount b) (fun x => mk_bracket (b_threshold b) (b_rate b) x (b_average_rate b))
  else if String.eqb f "average_rate" then
    upd_field (b_average_rate b) (fun x => mk_bracket (b_threshold b) (b_rate b) (b_amount b) x)
  else Err EOther.

Definition scale_update (sc : scale) (idx f : string) (u : upd Z) : res scale :=
  match digits_val 0 idx with
  | None => Err EOther
  | Some i =>
      match nth_error (s_brackets sc) (Z.to_nat i) with
      | None => Err EIndex
      | Some b =>
          match set_bracket_field b f u with
          | Err e => Err e
          | Ok b' => Ok (mk_scale (s_single_amount sc) (replace (Z.to_nat i) b' (s_brackets sc)))
          end
      end
  end.

(** parameters.a.b.update(start=, stop=, value=) on a tree (also spelled
    parameters.a.b.values_history.update(...): the attribute values_history of a
    parameter is the parameter itself): only leaves and the parameters of scale brackets
    have an update method; a missing member is an AttributeError. *)
Fixpoint tree_update (t : tree) (p : path) (u : upd Z) {struct t} : res tree :=
  match t, p with
  | TParam h, [] => Ok (TParam (apply_update h u))
  | TScale sc, [idx; f] =>
      match scale_update sc idx f u with Ok sc' => Ok (TScale sc') | Err e => Err e end
  | TNode ch, n :: p' =>
      match
        (fix go (l : list (string * tree)) : res (list (string * tree)) :=
           match l with
           | [] => Err EOther
           | (m, c) :: r =>
               if String.eqb n m
               then match tree_update c p' u with Ok c' => Ok ((m, c') :: r) | Err e => Err e end
               else match go r with Ok r' => Ok ((m, c) :: r') | Err e => Err e end
           end) ch
      with
      | Ok ch' => Ok (TNode ch')
      | Err e => Err e
      end
  | _, _ => Err EOther
  end.

(** parameters.a.b.add_child(name, child): only nodes have add_child; a name that is
    already taken is a ValueError; the new member is declared LAST. *)
Fixpoint tree_add (t : tree) (p : path) (n : string) (c : tree) {struct t} : res tree :=
  match t, p with
  | TNode ch, [] =>
      match find_child n ch with
      | Some _ => Err EValue
      | None => Ok (TNode (ch ++ [(n, c)]))
      end
  | TNode ch, m :: p' =>
      match
        (fix go (l : list (string * tree)) : res (list (string * tree)) :=
           match l with
           | [] => Err EOther
           | (k, x) :: r =>
               if String.eqb m k
               then match tree_add x p' n c with Ok x' => Ok ((k, x') :: r) | Err e => Err e end
               else match go r with Ok r' => Ok ((k, x) :: r') | Err e => Err e end
           end) ch
      with
      | Ok ch' => Ok (TNode ch')
      | Err e => Err e
      end
  | _, _ => Err EOther
  end.

(** what a modifier function does, step by step, on the copy it was given *)
Inductive mitem :=
  | MUpd (p : path) (u : upd Z)                (* parameters.p.update(...) *)
  | MAdd (p : path) (n : string) (c : tree).   (* parameters.p.add_child(n, c) *)

Definition apply_item (t : tree) (it : mitem) : res tree :=
  match it with MUpd p u => tree_update t p u | MAdd p n c => tree_add t p n c end.

Fixpoint apply_modifier (t : tree) (ups : list mitem) : res tree :=
  match ups with
  | [] => Ok t
  | it :: r => match apply_item t it with Ok t' => apply_modifier t' r | Err e => Err e end
  end.

Inductive op :=
  | Read (r : route) (p : path) (i : Z) (t : tail)
  | Load (t : tree)              (* load_parameters(directory), or system.parameters = node *)
  | NewReform                    (* SomeReform(system): a new system is added to the world *)
  | Modify (ups : list mitem) (returns_node : bool)   (* modify_parameters(modifier) *)
  | Poke (p : path) (u : upd Z). (* system.parameters.p.update(...): in place, not a documented route *)

Definition ans := (res rd * tlog)%type.
Definition done : ans := (Ok RNone, []).
Definition failed (e : err) : ans := (Err e, []).

(** a read by one route on one system *)
Definition read_sys (m : mode) (s : sys) (r : route) (p : path) (i : Z) (t : tail) : sys * ans :=
  match r with
  | RDirect => (s, (read_direct (s_root s) p i t, []))
  | RSystem | RFormula false =>
      let '(s', ov) := get_parameters_at_instant m s i in (s', (read_view ov p t, []))
  | RFormula true =>
      let '(s', ov) := get_parameters_at_instant m s i in (s', read_traced ov p t)
  end.

(** the attribute [parameters] is bound to a new object; modify_parameters also rebinds
    _parameters_at_instant_cache to an empty dict ([clear]); the lru memo is untouched *)
Definition new_root (m : mode) (s : sys) (t : tree) (id : nat) (clear : bool) : sys :=
  mk_sys (s_base s) t id
         (match m with Lru => s_cache s | _ => if clear then [] else s_cache s end)
         (s_cached s).

Definition set_root (s : sys) (t : tree) : sys :=
  mk_sys (s_base s) t (s_rid s) (s_cache s) (s_cached s).

(** One operation on system number [k] of the world. *)
Definition wstep (m : mode) (w : world) (ko : nat * op) : world * ans :=
  let '(k, o) := ko in
  match nth_error (w_sys w) k with
  | None => (w, failed EOther)
  | Some s =>
      match o with
      | Read r p i t =>
          let '(s', a) := read_sys m s r p i t in
          (mk_world (replace k s' (w_sys w)) (w_next w), a)
      | Load t =>
          (mk_world (replace k (new_root m s t (w_next w) false) (w_sys w)) (S (w_next w)), done)
      | NewReform =>
          (* Reform.__init__: the same tree object; no _cached_parameters of its own
             (and, before the fix, no entry in the lru_cache for the new object) *)
          (mk_world (w_sys w ++ [mk_sys (Some k) (s_root s) (s_rid s)
                                         (match m with Lru => [] | _ => s_cache s end) None])
                    (w_next w), done)
      | Modify ups returns_node =>
          (* deep copy of the BASELINE's current tree, modifier, reassignment *)
          match s_base s with
          | None => (w, failed EOther)          (* only reforms have modify_parameters *)
          | Some b =>
              match nth_error (w_sys w) b with
              | None => (w, failed EOther)
              | Some sb =>
                  match apply_modifier (s_root sb) ups with
                  | Err e => (w, failed e)
                  | Ok t' =>
                      if returns_node
                      then (mk_world (replace k (new_root m s t' (w_next w) true) (w_sys w))
                                     (S (w_next w)), done)
                      else (w, done)            (* "return ValueError(...)": nothing happens *)
                  end
              end
          end
      | Poke p u =>
          (* every system bound to the same object sees the mutation; no cache is told *)
          match tree_update (s_root s) p u with
          | Err e => (w, failed e)
          | Ok t' =>
              (mk_world (map (fun x => if Nat.eqb (s_rid x) (s_rid s) then set_root x t' else x)
                             (w_sys w)) (w_next w), done)
          end
      end
  end.

Fixpoint wrun (m : mode) (w : world) (ops : list (nat * op)) : list ans :=
  match ops with
  | [] => []
  | o :: r => let '(w', a) := wstep m w o in a :: wrun m w' r
  end.

(** What a read must give: computed from [at_instant] of the tree the system holds. *)
Definition read_spec (root : tree) (r : route) (p : path) (i : Z) (t : tail) : ans :=
  match r with
  | RDirect => (read_direct root p i t, [])
  | RSystem | RFormula false => (read_view (at_instant root i) p t, [])
  | RFormula true => read_traced (at_instant root i) p t
  end.

Definition documented (o : nat * op) : bool := match snd o with Poke _ _ => false | _ => true end.
