(** Executable model of openfisca_core.parameters: dated value histories
    (parameter.py: Parameter.__init__, update, _get_at_instant), the at-instant
    protocol (at_instant_like.py), nodes at an instant (parameter_node.py,
    parameter_node_at_instant.py) and scales at an instant (parameter_scale.py,
    parameter_scale_bracket.py, taxscales add_bracket).  Written function by function
    after the code; models what the code does, including behaviour no property asks
    for.  No proofs here.

    Dates.  The code keeps ISO strings "YYYY-MM-DD" and compares them as strings.  For
    four-digit years this is the order of the proleptic Gregorian ordinals, so a date is
    the [Z] ordinal [Cal.ord (y, m, d)] here and [stop.offset(1, "day")] is [+ 1]
    (ParamProofs.v relates both facts to Cal.v for valid dates).

    Values.  The code passes values through untouched (float, int, bool, None, list);
    histories are polymorphic in the value type and [None] is the YAML null.  Scales add
    values (add_bracket merges equal thresholds), so they are over [Z]. *)
From Coq Require Import ZArith List Bool String.
From Verif Require Import Base Cal Period.
Import ListNotations.
Open Scope Z_scope.

(** ** Histories: the attribute values_list of the class, newest entry first *)

Definition hist (V : Type) := list (Z * option V).

(** values_list is strictly decreasing by date (parameter.py, docstring of the class:
    "in reverse chronological order"). *)
Fixpoint decreasing {V} (h : hist V) : Prop :=
  match h with
  | [] => True
  | (k, _) :: t => match t with [] => True | (k', _) :: _ => k' < k end /\ decreasing t
  end.

Definition dates {V} (h : hist V) : list Z := map fst h.

(** _get_at_instant of the class in parameter.py: first entry whose date <= instant. *)
Fixpoint get_at {V} (h : hist V) (d : Z) : option V :=
  match h with
  | [] => None
  | (k, v) :: t => if k <=? d then v else get_at t d
  end.

(** ** Construction from (YAML) data: __init__ in parameter.py *)

(** What stands under one date key. *)
Inductive yentry (V : Type) :=
  | YValue (v : option V)  (* a bare allowed value, or a dict with a valid 'value' *)
  | YExpected              (* the string "expected", or a dict whose 'expected' is truthy *)
  | YInvalid               (* anything validate() refuses: other strings, missing 'value',
                              unknown keys, value of a type that is not allowed *)
  | YBadKey.               (* the KEY does not match INSTANT_PATTERN (the date paired
                              with such an entry is ignored) *)
Arguments YValue {V} v.
Arguments YExpected {V}.
Arguments YInvalid {V}.
Arguments YBadKey {V}.

(** sorted(values.keys(), reverse=True): insertion sort, newest first.  Keys of a dict
    are distinct, so the relative order of equal keys is never observed. *)
Fixpoint insert_desc {A} (x : Z * A) (l : list (Z * A)) : list (Z * A) :=
  match l with
  | [] => [x]
  | y :: t => if fst y <=? fst x then x :: l else y :: insert_desc x t
  end.

Definition sort_desc {A} (l : list (Z * A)) : list (Z * A) :=
  fold_right insert_desc [] l.

(** The loop over the sorted keys: pattern check, 'expected' entries skipped, the rest
    validated and appended.  Every failure is a ParameterParsingError (EOther). *)
Fixpoint load_entries {V} (l : list (Z * yentry V)) : res (hist V) :=
  match l with
  | [] => Ok []
  | (k, e) :: t =>
      match e with
      | YBadKey => Err EOther
      | YExpected => load_entries t
      | YInvalid => Err EOther
      | YValue v => match load_entries t with Ok h => Ok ((k, v) :: h) | Err x => Err x end
      end
  end.

(** [wrapped]: the values stand under a 'values' key.  An empty 'values' dict is falsy,
    so the code falls through to the simplified form, meets the key 'values' and
    raises. *)
Definition of_yaml {V} (wrapped : bool) (entries : list (Z * yentry V)) : res (hist V) :=
  match wrapped, entries with
  | true, [] => Err EOther
  | _, _ => load_entries (sort_desc entries)
  end.

(** ** update: the phases of the method update in parameter.py *)

(** "Future intervals: not affected" - the longest prefix with date >= b ... *)
Fixpoint take_ge {V} (b : Z) (h : hist V) : hist V :=
  match h with
  | [] => []
  | (k, v) :: t => if b <=? k then (k, v) :: take_ge b t else []
  end.

(** ... and what the index i points at afterwards; also "Remove covered intervals". *)
Fixpoint drop_ge {V} (b : Z) (h : hist V) : hist V :=
  match h with
  | [] => []
  | (k, v) :: t => if b <=? k then drop_ge b t else h
  end.

Definition last_date {V} (h : hist V) : option Z :=
  match rev h with [] => None | (k, _) :: _ => Some k end.

(** "Right-overlapped interval": the value that was in force at [b] is re-opened at [b],
    unless an entry dated exactly [b] was kept. *)
Definition reopen {V} (b : Z) (future rest : hist V) : hist V :=
  match last_date future with
  | Some k => if k =? b then [] else
                match rest with (_, ov) :: _ => [(b, ov)] | [] => [(b, None)] end
  | None => match rest with (_, ov) :: _ => [(b, ov)] | [] => [(b, None)] end
  end.

(** update with start and optional stop, both instants (stop inclusive). *)
Definition update_range {V} (h : hist V) (s : Z) (e : option Z) (v : option V) : hist V :=
  match e with
  | Some e =>
      let b := e + 1 in                       (* stop_str = str(stop.offset(1, "day")) *)
      let future := take_ge b h in
      let rest := drop_ge b h in
      future ++ reopen b future rest ++ (s, v) :: drop_ge s rest
  | None => (s, v) :: drop_ge s h
  end.

(** The argument handling in front of the phases.  A period gives start and stop;
    str() of the eternity instant raises ValueError. *)
Definition update {V} (h : hist V) (p : option period) (start stop : option Z)
    (v : option V) : res (hist V) :=
  match p with
  | Some p =>
      match start, stop with
      | None, None =>
          match p_unit p with
          | Eternity => Err EValue
          | _ => Ok (update_range h (ord (p_start p)) (Some (ord (Period.stop p))) v)
          end
      | _, _ => Err EType
      end
  | None =>
      match start with
      | None => Err EValue
      | Some s => Ok (update_range h s stop v)
      end
  end.

(** One range update as data, and the run of a list of them. *)
Definition upd (V : Type) := (Z * option Z * option V)%type.   (* (start, stop, value) *)

Definition apply_update {V} (h : hist V) (u : upd V) : hist V :=
  let '(s, e, v) := u in update_range h s e v.

Definition apply_updates {V} (h : hist V) (us : list (upd V)) : hist V :=
  fold_left apply_update us h.

(** ** Scales: parameter_scale.py, parameter_scale_bracket.py *)

(** A bracket is a node whose children are among threshold / rate / amount /
    average_rate; [None] = the child is not declared. *)
Record bracket := mk_bracket {
  b_threshold : option (hist Z);
  b_rate : option (hist Z);
  b_amount : option (hist Z);
  b_average_rate : option (hist Z) }.

Record scale := mk_scale {
  s_single_amount : bool;        (* metadata.type == "single_amount" *)
  s_brackets : list bracket }.

Inductive scale_kind := SingleAmount | MarginalAmount | LinearAverageRate | MarginalRate.

(** the child of a bracket at an instant: present iff declared and defined there
    (the bracket is a node at instant, see [children_at] below) *)
Definition field_at (f : option (hist Z)) (d : Z) : option Z :=
  match f with Some h => get_at h d | None => None end.

Definition is_some {A} (o : option A) : bool := match o with Some _ => true | None => false end.

Definition kind_at (s : scale) (d : Z) : scale_kind :=
  if s_single_amount s then SingleAmount
  else if existsb (fun b => is_some (field_at (b_amount b) d)) (s_brackets s) then MarginalAmount
  else if existsb (fun b => is_some (field_at (b_average_rate b) d)) (s_brackets s)
       then LinearAverageRate
  else MarginalRate.

Definition kind_field (k : scale_kind) (b : bracket) : option (hist Z) :=
  match k with
  | SingleAmount | MarginalAmount => b_amount b
  | LinearAverageRate => b_average_rate b
  | MarginalRate => b_rate b
  end.

(** The calls of add_bracket(threshold, x) made by _get_at_instant, in order. *)
Definition contributions (k : scale_kind) (brs : list bracket) (d : Z) : list (Z * Z) :=
  flat_map (fun b =>
              match field_at (kind_field k b) d, field_at (b_threshold b) d with
              | Some x, Some t => [(t, x)]
              | _, _ => []
              end) brs.

(** add_bracket of the tax scales (rate_tax_scale_like.py, amount_tax_scale_like.py):
    an existing threshold gets the amount added, otherwise bisect-left insertion (the
    list is sorted by construction, so that is "before the first element >= t"). *)
Fixpoint add_to (t x : Z) (l : list (Z * Z)) : list (Z * Z) :=
  match l with
  | [] => []
  | (t', x') :: r => if t' =? t then (t', x' + x) :: r else (t', x') :: add_to t x r
  end.

Fixpoint insert_before_ge (t x : Z) (l : list (Z * Z)) : list (Z * Z) :=
  match l with
  | [] => [(t, x)]
  | (t', x') :: r => if t <=? t' then (t, x) :: l else (t', x') :: insert_before_ge t x r
  end.

Definition add_bracket (l : list (Z * Z)) (tx : Z * Z) : list (Z * Z) :=
  let '(t, x) := tx in
  if existsb (fun p => fst p =? t) l then add_to t x l else insert_before_ge t x l.

Definition scale_at (s : scale) (d : Z) : scale_kind * list (Z * Z) :=
  let k := kind_at s d in
  (k, fold_left add_bracket (contributions k (s_brackets s) d) []).

(** ** Trees and their views at an instant *)

Inductive tree :=
  | TParam (h : hist Z)
  | TScale (s : scale)
  | TNode (children : list (string * tree)).

Inductive view :=
  | VValue (v : Z)
  | VScale (k : scale_kind) (brackets : list (Z * Z))
  | VNode (children : list (string * view)).

(** __init__ in parameter_node_at_instant.py: the children whose own at-instant value
    is not None, in declaration order. *)
Definition children_at {A B} (f : A -> option B) : list (string * A) -> list (string * B) :=
  fix go l :=
    match l with
    | [] => []
    | (n, c) :: r => match f c with Some x => (n, x) :: go r | None => go r end
    end.

(** _get_at_instant of the three classes.  A leaf gives its value or None; a scale and a
    node always give an object. *)
Fixpoint at_instant (t : tree) (d : Z) : option view :=
  match t with
  | TParam h => match get_at h d with Some v => Some (VValue v) | None => None end
  | TScale s => let '(k, l) := scale_at s d in Some (VScale k l)
  | TNode ch => Some (VNode (children_at (fun c => at_instant c d) ch))
  end.

(** ** Editing a tree in place: node.child...update(...)

    The code mutates the Parameter object reached through the attributes of the nodes
    (children of a node by name; the brackets of a scale by position, their fields by
    name); every later evaluation of the tree sees the edited history - the tree has no
    other state.  [g] is the edit of the history (a call of update). *)
Inductive bfield := FThreshold | FRate | FAmount | FAverageRate.

Inductive pstep :=
  | PChild (n : string)                 (* node.children[n] *)
  | PBracket (i : nat) (f : bfield).    (* scale.brackets[i].children[f] *)

Definition edit_field (g : hist Z -> res (hist Z)) (o : option (hist Z)) : res (option (hist Z)) :=
  match o with
  | Some h => match g h with Ok h' => Ok (Some h') | Err e => Err e end
  | None => Err ENotFound
  end.

Definition edit_bracket (f : bfield) (g : hist Z -> res (hist Z)) (b : bracket) : res bracket :=
  match f with
  | FThreshold => match edit_field g (b_threshold b) with
                  | Ok x => Ok (mk_bracket x (b_rate b) (b_amount b) (b_average_rate b)) | Err e => Err e end
  | FRate => match edit_field g (b_rate b) with
             | Ok x => Ok (mk_bracket (b_threshold b) x (b_amount b) (b_average_rate b)) | Err e => Err e end
  | FAmount => match edit_field g (b_amount b) with
               | Ok x => Ok (mk_bracket (b_threshold b) (b_rate b) x (b_average_rate b)) | Err e => Err e end
  | FAverageRate => match edit_field g (b_average_rate b) with
                    | Ok x => Ok (mk_bracket (b_threshold b) (b_rate b) (b_amount b) x) | Err e => Err e end
  end.

Fixpoint edit_nth {A} (i : nat) (g : A -> res A) (l : list A) : res (list A) :=
  match l, i with
  | [], _ => Err EIndex
  | x :: r, O => match g x with Ok x' => Ok (x' :: r) | Err e => Err e end
  | x :: r, S j => match edit_nth j g r with Ok r' => Ok (x :: r') | Err e => Err e end
  end.

(** the first child called [n] (names are distinct: they are the keys of a dict) *)
Fixpoint edit_child {A} (n : string) (g : A -> res A) (l : list (string * A)) : res (list (string * A)) :=
  match l with
  | [] => Err ENotFound
  | (m, c) :: r =>
      if String.eqb m n
      then match g c with Ok c' => Ok ((m, c') :: r) | Err e => Err e end
      else match edit_child n g r with Ok r' => Ok ((m, c) :: r') | Err e => Err e end
  end.

Fixpoint edit_at (path : list pstep) (g : hist Z -> res (hist Z)) (t : tree) : res tree :=
  match path with
  | [] => match t with
          | TParam h => match g h with Ok h' => Ok (TParam h') | Err e => Err e end
          | _ => Err ENotFound
          end
  | PChild n :: rest =>
      match t with
      | TNode ch => match edit_child n (edit_at rest g) ch with
                    | Ok ch' => Ok (TNode ch') | Err e => Err e end
      | _ => Err ENotFound
      end
  | PBracket i f :: rest =>
      match t, rest with
      | TScale s, [] =>
          match edit_nth i (edit_bracket f g) (s_brackets s) with
          | Ok brs => Ok (TScale (mk_scale (s_single_amount s) brs)) | Err e => Err e end
      | _, _ => Err ENotFound
      end
  end.

(** ** Vector lookup of names in a group at an instant: node_at_instant[array of names]

    __getitem__ in parameter_node_at_instant.py with a numpy array of strings, through
    build_from_node / __getitem__ of vectorial_parameter_node_at_instant.py, for a FLAT
    group whose members are numbers (sub-groups and scales are not modelled here and
    count as absent).  The members present are those defined at the date; every
    requested name must be one of them.  The code reads the field of key[0] first (a
    missing field there is numpy's ValueError), then selects and raises
    ParameterNotFoundError for any other missing name; a group with no member at that
    date fails earlier with IndexError. *)
Fixpoint member_value (n : string) (l : list (string * view)) : option Z :=
  match l with
  | [] => None
  | (m, v) :: r =>
      if String.eqb m n
      then match v with VValue z => Some z | _ => None end
      else member_value n r
  end.

Fixpoint lookup_all (l : list (string * view)) (key : list string) : option (list Z) :=
  match key with
  | [] => Some []
  | k :: r => match member_value k l, lookup_all l r with
              | Some z, Some zs => Some (z :: zs)
              | _, _ => None
              end
  end.

Definition vector_lookup (l : list (string * view)) (key : list string) : res (list Z) :=
  match l, key with
  | [], _ => Err EIndex
  | _, [] => Err EIndex
  | _, k0 :: _ =>
      match member_value k0 l with
      | None => Err EValue
      | Some _ => match lookup_all l key with Some zs => Ok zs | None => Err ENotFound end
      end
  end.

(** ** update with a value of a type that is not allowed (str, dict, any object)

    The new ParameterAtInstant is built after the argument handling and validates its
    value (parameter_at_instant.py, validate: ParameterParsingError); values_list is
    assigned only at the very end of update, so a refused call leaves the history as it
    was - which is what returning [Err] means here. *)
Inductive uvalue (V : Type) :=
  | UVal (v : option V)
  | UIllTyped.
Arguments UVal {V} v.
Arguments UIllTyped {V}.

Definition update_checked {V} (h : hist V) (p : option period) (start stop : option Z)
    (v : uvalue V) : res (hist V) :=
  match v with
  | UVal v => update h p start stop v
  | UIllTyped => match update h p start stop None with
                 | Ok _ => Err EOther
                 | Err e => Err e
                 end
  end.
