(** Executable model of tax-benefit systems that are derived from one another:

      TaxBenefitSystem.__init__ / clone / load_variable / add_variable / replace_variable /
      update_variable / neutralize_variable / annualize_variable / get_variable
                                                  (taxbenefitsystems/tax_benefit_system.py)
      Reform.__init__ / modify_parameters         (reforms/reform.py)
      Variable.__init__ / set / set_formulas / clone            (variables/variable.py)
      get_neutralized_variable / get_annualized_variable        (variables/helpers.py)
      CoreEntity.set_tax_benefit_system / get_variable          (entities/_core_entity.py)

    A world is a list of systems (the base first, every derivation appends one) plus a small
    heap of entity objects, each holding the number of the system it resolves variable
    names in ([CoreEntity._tax_benefit_system]).  The rules of a system are a value of the
    engine model (Engine.v: [sys]) obtained with [to_sys]; requests are answered by the
    engine's own [run] / [sem], nothing of the evaluator is re-defined here.

    Variables are numbered: variable number [n] is the Python class named [v<n>]
    (harness/rules.py), so [add_variable] of a new name appends at the end of the table.

    Annualised variables.  [get_annualized_variable] wraps every formula [f] of the variable in

        if period.start.month != 1: return population(name, period.this_year.first_month)
        else:                        return f(population, period, parameters)

    The expression language of Engine.v has no lazy conditional (its [EWhere] evaluates both
    branches, as numpy.where does), and the only construct of a rule system that chooses a
    formula from the period is the list of dated formulas.  A wrapped formula is therefore
    rendered, for the years [y0 .. y0 + ny - 1] of a window given with the case, as the dated
    list  (y-01-01 ↦ f), (y-02-01 ↦ self at y-01), ..., (y-12-01 ↦ self at y-01): for every
    month-sized period starting on the first of a month inside the window this selects exactly
    what the wrapper does.  Outside the window, for non-month variables and for periods not
    starting on the first of a month the rendering is not the code's behaviour; the
    correspondence only requests what is inside (annualised variables of the generator are
    month variables, requests are whole months of the window).  No proofs here. *)
From Coq Require Import ZArith List Bool.
From Verif Require Import Base Obs Cal Tables Period Np Group Param Engine.
Import ListNotations.
Open Scope Z_scope.

(** * Variable objects *)

(** start date, body, "wrapped by get_annualized_variable" *)
Definition sformula := (date * expr * bool)%type.
Definition f_start (f : sformula) : date := fst (fst f).
Definition f_body (f : sformula) : expr := snd (fst f).
Definition f_wrapped (f : sformula) : bool := snd f.

Record svar := mk_svar {
  sv_ent : ent;
  sv_type : vtype;
  sv_unit : unit_t;
  sv_end : option date;
  sv_formulas : list sformula;     (* the instance's [formulas], ascending start date *)
  sv_class : list sformula;        (* what [Variable.clone()] re-derives from the class and the
                                      baseline variable: the formulas at instantiation *)
  sv_default : Z;
  sv_neutral : bool;
  sv_nostore : bool
}.

(** A Variable subclass body as given to add / update / replace: the attributes it defines.
    [d_formulas] in ascending order of distinct start dates (formula_YYYY_MM_DD names). *)
Record vdef := mk_vdef {
  d_ent : option ent;
  d_type : option vtype;
  d_unit : option unit_t;
  d_end : option date;
  d_default : option Z;
  d_formulas : list (date * expr)
}.

Definition or_else {A} (o : option A) (d : option A) : option A :=
  match o with Some _ => o | None => d end.

(** Variable.set_formulas: formulas of the baseline variable dated before the first new one
    are kept; all of them when the class defines none. *)
Definition inherited (b : list sformula) (new : list (date * expr)) : list sformula :=
  match new with
  | [] => b
  | (d0, _) :: _ => filter (fun f => date_ltb (f_start f) d0) b
  end.

Definition fresh_formulas (new : list (date * expr)) : list sformula :=
  map (fun de => (fst de, snd de, false)) new.

Definition merged_formulas (b : option svar) (new : list (date * expr)) : list sformula :=
  match b with
  | None => fresh_formulas new
  | Some x => inherited (sv_formulas x) new ++ fresh_formulas new
  end.

(** config.VALUE_TYPES[...]["default"] for int / float / bool *)
Definition type_default (t : vtype) : Z := 0.

(** Variable.__init__(baseline_variable = b): [set] takes an attribute from the class, else
    from the baseline variable, else fails when it is required. *)
Definition instantiate (b : option svar) (d : vdef) : res svar :=
  match or_else (d_type d) (option_map sv_type b),
        or_else (d_ent d) (option_map sv_ent b),
        or_else (d_unit d) (option_map sv_unit b) with
  | Some t, Some c, Some u =>
      let en := or_else (d_end d) (match b with Some x => sv_end x | None => None end) in
      let dflt := match d_default d with
                  | Some z => z
                  | None => match b with Some x => sv_default x | None => type_default t end
                  end in
      if match en with
         | Some e => existsb (fun de => date_ltb e (fst de)) (d_formulas d)
         | None => false
         end
      then Err EValue                      (* a formula starting after the end date *)
      else
        let fs := merged_formulas b (d_formulas d) in
        Ok {| sv_ent := c; sv_type := t; sv_unit := u; sv_end := en;
              sv_formulas := fs; sv_class := fs; sv_default := dflt;
              sv_neutral := false; sv_nostore := false |}
  | _, _, _ => Err EValue                  (* Missing attribute ... *)
  end.

(** get_neutralized_variable: [variable.clone()] (class formulas again, not neutralised),
    then is_neutralized = True *)
Definition neutralized (x : svar) : svar :=
  {| sv_ent := sv_ent x; sv_type := sv_type x; sv_unit := sv_unit x; sv_end := sv_end x;
     sv_formulas := sv_class x; sv_class := sv_class x; sv_default := sv_default x;
     sv_neutral := true; sv_nostore := sv_nostore x |}.

(** get_annualized_variable: [variable.clone()], then every formula of the instance wrapped *)
Definition annualized (x : svar) : svar :=
  {| sv_ent := sv_ent x; sv_type := sv_type x; sv_unit := sv_unit x; sv_end := sv_end x;
     sv_formulas := map (fun f => (f_start f, f_body f, true)) (sv_formulas x);
     sv_class := sv_class x; sv_default := sv_default x;
     sv_neutral := false; sv_nostore := sv_nostore x |}.

(** * From variable objects to the rules the engine runs *)

Definition jan (y : Z) : period := (Month, (y, 1, 1), 1).
Definition month_of (y m : Z) : period := (Month, (y, m, 1), 1).
Definition self_january (v : nat) (y : Z) : expr := EDep v (PFixed (jan y)) OPlain.

(** the formula object in force at a date: Variable.get_formula without the end test *)
Fixpoint pick (fs : list sformula) (d : date) (acc : option (expr * bool)) : option (expr * bool) :=
  match fs with
  | [] => acc
  | f :: r => if date_leb (f_start f) d then pick r d (Some (f_body f, f_wrapped f)) else pick r d acc
  end.

Definition month_entry (v : nat) (fs : list sformula) (y m : Z) : list (date * expr) :=
  match pick fs (y, m, 1) None with
  | None => []
  | Some (e, w) => [((y, m, 1), if w && negb (m =? 1) then self_january v y else e)]
  end.

Definition months : list Z := [1; 2; 3; 4; 5; 6; 7; 8; 9; 10; 11; 12].

Definition year_entries (v : nat) (fs : list sformula) (y : Z) : list (date * expr) :=
  flat_map (month_entry v fs y) months.

Definition unroll (y0 : Z) (ny : nat) (v : nat) (fs : list sformula) : list (date * expr) :=
  flat_map (fun k => year_entries v fs (y0 + Z.of_nat k)) (seq 0 ny).

Definition plain (fs : list sformula) : list (date * expr) := map fst fs.
Definition has_wrapped (fs : list sformula) : bool := existsb f_wrapped fs.

Definition rendered (y0 : Z) (ny : nat) (v : nat) (x : svar) : list (date * expr) :=
  if unit_eqb (sv_unit x) Month && has_wrapped (sv_formulas x)
  then unroll y0 ny v (sv_formulas x)
  else plain (sv_formulas x).

Definition to_var (y0 : Z) (ny : nat) (v : nat) (x : svar) : var :=
  {| v_ent := sv_ent x; v_type := sv_type x; v_unit := sv_unit x; v_end := sv_end x;
     v_formulas := rendered y0 ny v x; v_default := sv_default x;
     v_neutral := sv_neutral x; v_nostore := sv_nostore x |}.

Fixpoint to_vars (y0 : Z) (ny : nat) (v : nat) (l : list svar) : list var :=
  match l with
  | [] => []
  | x :: r => to_var y0 ny v x :: to_vars y0 ny (S v) r
  end.

Record ssys := mk_ssys {
  s_vars : list svar;
  s_params : list (hist Z);
  s_switches : list nat;
  s_loops : nat
}.

Definition to_sys (y0 : Z) (ny : nat) (s : ssys) : sys :=
  {| vars := to_vars y0 ny 0 (s_vars s); params := s_params s;
     switches := s_switches s; max_loops := s_loops s |}.

Definition of_var (x : var) : svar :=
  let fs := map (fun de => (fst de, snd de, false)) (v_formulas x) in
  {| sv_ent := v_ent x; sv_type := v_type x; sv_unit := v_unit x; sv_end := v_end x;
     sv_formulas := fs; sv_class := fs; sv_default := v_default x;
     sv_neutral := v_neutral x; sv_nostore := v_nostore x |}.

Definition of_sys (sy : sys) : ssys :=
  {| s_vars := map of_var (vars sy); s_params := params sy;
     s_switches := switches sy; s_loops := max_loops sy |}.

(** * Modifications of one system *)

Inductive vmod :=
  | AddVar (name : nat) (d : vdef)          (* add_variable(class v<name>) *)
  | UpdateVar (name : nat) (d : vdef)       (* update_variable *)
  | ReplaceVar (name : nat) (d : vdef)      (* replace_variable *)
  | Neutralize (name : nat)                 (* neutralize_variable *)
  | Annualize (name : nat)                  (* annualize_variable *)
  | ModifyParams (ups : list (nat * upd Z)) (* Reform.modify_parameters(modifier): the modifier
                                               calls p<k>.update(start, stop, value) in turn *)
  | EditParams (ups : list (nat * upd Z)).  (* the same updates made directly on the system's
                                               own parameter tree (a clone owns its tree) *)

Fixpoint set_nth {A} (n : nat) (a : A) (l : list A) : list A :=
  match l, n with
  | [], _ => []
  | _ :: r, O => a :: r
  | x :: r, S n' => x :: set_nth n' a r
  end.

Definition with_vars (s : ssys) (vs : list svar) : ssys :=
  {| s_vars := vs; s_params := s_params s; s_switches := s_switches s; s_loops := s_loops s |}.
Definition with_params (s : ssys) (ps : list (hist Z)) : ssys :=
  {| s_vars := s_vars s; s_params := ps; s_switches := s_switches s; s_loops := s_loops s |}.

(** self.variables[name] = variable: an existing name is overwritten, the next free number
    is appended; the harness never names a variable further away *)
Definition store_var (s : ssys) (name : nat) (x : svar) : res ssys :=
  if Nat.ltb name (length (s_vars s)) then Ok (with_vars s (set_nth name x (s_vars s)))
  else if Nat.eqb name (length (s_vars s)) then Ok (with_vars s (s_vars s ++ [x]))
  else Err EOther.

Definition apply_param_update (ps : list (hist Z)) (ku : nat * upd Z) : res (list (hist Z)) :=
  match nth_error ps (fst ku) with
  | None => Err EOther                      (* parameters.p<k>: no such child *)
  | Some h => Ok (set_nth (fst ku) (apply_update h (snd ku)) ps)
  end.

Fixpoint apply_param_updates (ps : list (hist Z)) (ups : list (nat * upd Z)) : res (list (hist Z)) :=
  match ups with
  | [] => Ok ps
  | ku :: r => match apply_param_update ps ku with
               | Err e => Err e
               | Ok ps' => apply_param_updates ps' r
               end
  end.

(** The modifications that only touch the variable table of the system itself. *)
Definition apply_var_mod (s : ssys) (m : vmod) : res ssys :=
  match m with
  | AddVar name d =>
      match nth_error (s_vars s) name with
      | Some _ => Err EOther                 (* VariableNameConflictError *)
      | None => match instantiate None d with
                | Err e => Err e
                | Ok x => store_var s name x
                end
      end
  | UpdateVar name d =>
      match instantiate (nth_error (s_vars s) name) d with
      | Err e => Err e
      | Ok x => store_var s name x
      end
  | ReplaceVar name d =>
      match instantiate None d with
      | Err e => Err e
      | Ok x => store_var s name x
      end
  | Neutralize name =>
      match nth_error (s_vars s) name with
      | None => Err EOther                   (* None.clone(): AttributeError *)
      | Some x => store_var s name (neutralized x)
      end
  | Annualize name =>
      match nth_error (s_vars s) name with
      | None => Err ENotFound                (* VariableNotFoundError *)
      | Some x => store_var s name (annualized x)
      end
  | EditParams ups =>
      match apply_param_updates (s_params s) ups with
      | Err e => Err e
      | Ok ps => Ok (with_params s ps)
      end
  | ModifyParams _ => Err EOther             (* handled with the world: needs the baseline *)
  end.

(** * Worlds *)

Record entry := mk_entry {
  e_sys : ssys;
  e_base : option nat;      (* Reform.baseline (kept by clone()) *)
  e_ents : list nat         (* the system's entity objects: addresses in the heap *)
}.

Record world := mk_world {
  w_entries : list entry;
  w_heap : list nat         (* entity object -> the system it is bound to *)
}.

Definition nb_entities : nat := 2.      (* person, household *)

Definition with_sys (e : entry) (s : ssys) : entry :=
  {| e_sys := s; e_base := e_base e; e_ents := e_ents e |}.

Definition initial (s : ssys) : world :=
  {| w_entries := [ {| e_sys := s; e_base := None; e_ents := seq 0 nb_entities |} ];
     w_heap := repeat 0%nat nb_entities |}.

(** entities copied and bound to the new system number [n] (TaxBenefitSystem.__init__,
    and clone() since the repair of F14) *)
Definition alloc_entities (w : world) (n : nat) : list nat * list nat :=
  (seq (length (w_heap w)) nb_entities, w_heap w ++ repeat n nb_entities).

(** clone() before the repair: the entity objects are shared and re-bound to the copy *)
Fixpoint rebind (ids : list nat) (n : nat) (h : list nat) : list nat :=
  match ids with
  | [] => h
  | i :: r => rebind r n (set_nth i n h)
  end.

Definition apply_mod (w : world) (j : nat) (m : vmod) : res world :=
  match nth_error (w_entries w) j with
  | None => Err ENotFound
  | Some e =>
      match m with
      | ModifyParams ups =>
          match e_base e with
          | None => Err EOther               (* a plain TaxBenefitSystem has no modify_parameters *)
          | Some b =>
              match nth_error (w_entries w) b with
              | None => Err ENotFound
              | Some eb =>
                  (* deep copy of the BASELINE's tree, modifier applied, result installed *)
                  match apply_param_updates (s_params (e_sys eb)) ups with
                  | Err er => Err er
                  | Ok ps =>
                      Ok {| w_entries := set_nth j (with_sys e (with_params (e_sys e) ps)) (w_entries w);
                            w_heap := w_heap w |}
                  end
              end
          end
      | _ =>
          match apply_var_mod (e_sys e) m with
          | Err er => Err er
          | Ok s => Ok {| w_entries := set_nth j (with_sys e s) (w_entries w); w_heap := w_heap w |}
          end
      end
  end.

Fixpoint apply_mods (w : world) (j : nat) (ms : list vmod) : res world :=
  match ms with
  | [] => Ok w
  | m :: r => match apply_mod w j m with
              | Err e => Err e
              | Ok w' => apply_mods w' j r
              end
  end.

Inductive dop :=
  | DClone (i : nat)                          (* world[i].clone() *)
  | DReform (i : nat) (ms : list vmod)        (* class R(Reform): apply = ms ;  R(world[i]) *)
  | DMod (j : nat) (m : vmod).                (* a modification of system j in place *)

(** [alias = true] is TaxBenefitSystem.clone as it was before the repair of F14. *)
Definition apply_dop (alias : bool) (w : world) (o : dop) : res world :=
  match o with
  | DClone i =>
      match nth_error (w_entries w) i with
      | None => Err ENotFound
      | Some e =>
          let n := length (w_entries w) in
          if alias
          then Ok {| w_entries := w_entries w ++ [ {| e_sys := e_sys e; e_base := e_base e; e_ents := e_ents e |} ];
                     w_heap := rebind (e_ents e) n (w_heap w) |}
          else let '(ids, h) := alloc_entities w n in
               Ok {| w_entries := w_entries w ++ [ {| e_sys := e_sys e; e_base := e_base e; e_ents := ids |} ];
                     w_heap := h |}
      end
  | DReform i ms =>
      match nth_error (w_entries w) i with
      | None => Err ENotFound
      | Some e =>
          let n := length (w_entries w) in
          let '(ids, h) := alloc_entities w n in
          apply_mods {| w_entries := w_entries w ++ [ {| e_sys := e_sys e; e_base := Some i; e_ents := ids |} ];
                        w_heap := h |} n ms
      end
  | DMod j m => apply_mod w j m
  end.

(** the system a derivation modifies in place, if any (clone and reform only append) *)
Definition target_of (o : dop) : option nat :=
  match o with DMod j _ => Some j | _ => None end.

(** a derivation that raises leaves the world as it was *)
Definition do_dop (alias : bool) (w : world) (o : dop) : world :=
  match apply_dop alias w o with Ok w' => w' | Err _ => w end.

Definition run_dops (alias : bool) (w : world) (os : list dop) : world :=
  fold_left (do_dop alias) os w.

(** * Observations of one system of the world *)

(** population -> entity -> system: the system an entity of system [i] resolves names in *)
Definition resolve (w : world) (i : nat) (k : nat) : option nat :=
  match nth_error (w_entries w) i with
  | None => None
  | Some e => match nth_error (e_ents e) k with
              | None => None
              | Some id => nth_error (w_heap w) id
              end
  end.

Definition sys_at (w : world) (i : nat) : option ssys := option_map e_sys (nth_error (w_entries w) i).

Definition sys_via_entity (w : world) (i : nat) (k : nat) : option ssys :=
  match resolve w i k with None => None | Some j => sys_at w j end.

Definition unit_code (u : unit_t) : Z :=
  match u with Weekday => 0 | Week => 1 | Day => 2 | Month => 3 | Year => 4 | Eternity => 5 end.
Definition type_code (t : vtype) : Z := match t with TInt => 0 | TFloat => 1 | TBool => 2 end.
Definition ent_code (c : ent) : Z := match c with EPerson => 0 | EGroup => 1 end.

(** what get_variable(name) shows: formula start dates, definition period, is_neutralized,
    default, value type, end, entity *)
Definition look_var (x : svar) : obs :=
  OL [ olist odate (map f_start (sv_formulas x)); OZ (unit_code (sv_unit x)); OB (sv_neutral x);
       OZ (sv_default x); OZ (type_code (sv_type x)); oopt odate (sv_end x); OZ (ent_code (sv_ent x)) ].

Definition look_table (s : ssys) (nnames : nat) : obs :=
  OL (map (fun v => oopt look_var (nth_error (s_vars s) v)) (seq 0 nnames)).

Definition look_params (s : ssys) (ds : list Z) : obs :=
  OL (map (fun h => OL (map (fun d => oopt OZ (get_at h d)) ds)) (s_params s)).

(** the variable table through the system and through each of its entities, and the
    parameters at the given dates *)
Definition look (w : world) (i : nat) (nnames : nat) (ds : list Z) : obs :=
  match sys_at w i with
  | None => OErr ENotFound
  | Some s =>
      OL [ look_table s nnames;
           OL (map (fun k => oopt (fun s' => look_table s' nnames) (sys_via_entity w i k)) (seq 0 nb_entities));
           look_params s ds ]
  end.

Definition oanswer (a : answer) : obs :=
  match a with
  | AVal x => olist OZ x
  | AQuot x d => OL [olist OZ x; OZ d]
  | ANone => ONone
  | AErr e => OErr e
  end.

(** requests on a simulation of system [i] in state [s]: the engine's own [run] *)
Definition eval_on (y0 : Z) (ny : nat) (w : world) (i : nat) (pp : popu) (s : st) (rs : list request)
  : option (st * list answer) :=
  match sys_at w i with
  | None => None
  | Some sy => let r := to_sys y0 ny sy in Some (run (enough_fuel r) r pp s rs)
  end.

(** a fresh simulation: the inputs are set, then the requests run *)
Definition eval_fresh (y0 : Z) (ny : nat) (w : world) (i : nat) (pp : popu) (inputs rs : list request) : obs :=
  match eval_on y0 ny w i pp (init []) (inputs ++ rs) with
  | None => OErr ENotFound
  | Some (_, l) => OL (map oanswer l)
  end.

(** the meaning of a request in system [i] *)
Definition sem_in (y0 : Z) (ny : nat) (w : world) (i : nat) (pp : popu) (inp : inputs) (v : nat) (p : period)
  : option (res val) :=
  option_map (fun sy => sem (to_sys y0 ny sy) pp inp v p) (sys_at w i).
