(** Variable.get_formula re-assembled from the regenerated pieces (coq/gen/GuardsFormula.v,
    re-emitted by harness/gen_tables.py on every run from variables/variable.py): the tests
    before the scan ([gen_formula_guard]) and the scan itself ([gen_formula_scan]: direction and
    comparison).  The engine always passes a Period, so [period is None] and [instant is None]
    are false; start dates are compared as ISO texts in Python (four-digit years: the
    chronological order, [date_leb]); [instant.date] and [str(instant)] raise ValueError for the
    eternity instant, which is reached unless the function returned before (no formulas).
    props/GuardsTie.v and props/C01.v say that this is [Engine.formula_at].  No proofs here. *)
From Coq Require Import ZArith List Bool.
From Verif Require Import Base Cal Tables Period Engine GuardsTypes GuardsFormula.
Import ListNotations.
Open Scope Z_scope.

Definition cmp_dates (c : scan_cmp) (start instant : date) : bool :=
  match c with
  | CmpLe => date_leb start instant
  | CmpLt => date_ltb start instant
  | CmpGe => date_leb instant start
  | CmpGt => date_ltb instant start
  end.

(** for start in ...: if start <cmp> instant: return formulas[start] *)
Fixpoint first_match (c : scan_cmp) (fs : list (date * expr)) (d : date) : option expr :=
  match fs with
  | [] => None
  | (s, e) :: r => if cmp_dates c s d then Some e else first_match c r d
  end.

(** [v_formulas] is the SortedDict in ascending order of start date *)
Definition run_scan (r : scan_rule) (fs : list (date * expr)) (d : date) : option expr :=
  match r with
  | ScanFirst ScanReversed c => first_match c (rev fs) d
  | ScanFirst ScanForward c => first_match c fs d
  end.

Definition src_formula_at (x : var) (p : period) : res (option expr) :=
  let fs := v_formulas x in
  let d := p_start p in
  let has := match fs with [] => false | _ => true end in
  let answer :=
    match gen_formula_guard has false false
            (match v_end x with Some _ => true | None => false end)
            (match v_end x with Some e => date_ltb e d | None => false end) with
    | FNone => None
    | FOldest => option_map snd (hd_error fs)
    | FScan => run_scan gen_formula_scan fs d
    end in
  if has && negb (validb d) then Err EValue else Ok answer.
