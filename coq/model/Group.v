(** Executable model of openfisca_core.populations.GroupPopulation (group_population.py),
    Population.has_role / get_rank (population.py), the role tables of
    entities/group_entity.py + entities/helpers.py:find_role, and the projectors
    (projectors/helpers.py, projector.py, entity_to_person_projector.py,
    first_person_to_entity_projector.py, unique_role_to_entity_projector.py).
    Written function by function after the code as it is in /repo now (the two
    numpy.bincount calls pass minlength=self.count).  No proofs here.

    Conventions
    - persons are 0..n-1 with n = length of [g_ids]; [g_ids] is members_entity_id
      (group index of every person), [g_roles] is members_role (index of the person's
      role in the role table of the group entity), [g_count] is GroupPopulation.count.
      A well-formed population has one role per person; persons.count is the length of
      members_entity_id (the harness always builds them consistently).
    - values are [Z]: ints as themselves, bools as 0/1, floats (dyadic, multiples of
      1/4 in the harness) scaled by 4 -- an order embedding that commutes with +, min,
      max and selection, the only operations performed on values here.
    - min / max return floats that may be +-inf (numpy.inf neutral elements): [ext].
    - functions that go through ordered_members_map / argsort take the permutation(s) as
      an argument ([..._with]); the un-suffixed version uses the stable [argsort]. *)
From Coq Require Import String ZArith List Bool Arith.
From Verif Require Import Base Np.
Import ListNotations.
Open Scope nat_scope.
Open Scope res_scope.

(** ** Entities and roles (entities/role.py, group_entity.py) *)

(** One row per Role object of a group entity, top-level roles and sub-roles alike; a
    role is referred to by its row number.  [r_subs]: rows of its sub-roles ([] when
    role.subroles is None); [r_max]: role.max (len(subroles) for a role with sub-roles,
    1 for a sub-role); [r_top]: listed in entity.roles (not a sub-role). *)
Record role_info := { r_key : string; r_max : option nat; r_subs : list nat; r_top : bool }.

Record gentity := { e_key : string; e_roles : list role_info; e_containing : list string }.

Record gpop := { g_entity : gentity; g_count : nat; g_ids : list nat; g_roles : list nat }.

Definition npersons (p : gpop) : nat := length (g_ids p).

Definition role_subs (e : gentity) (r : nat) : list nat :=
  match nth_error (e_roles e) r with Some ri => r_subs ri | None => [] end.
Definition role_max (e : gentity) (r : nat) : option nat :=
  match nth_error (e_roles e) r with Some ri => r_max ri | None => None end.

(** CorePopulation.check_array_compatible_with_entity: InvalidArraySizeError (a ValueError) *)
Definition check_size {A} (n : nat) (a : list A) : res unit :=
  if length a =? n then Ok tt else Err EValue.

Definition b2z (b : bool) : Z := if b then 1%Z else 0%Z.

(** Population.has_role(role): members_role == role, or the disjunction over the
    sub-roles when the role has sub-roles (a person holding the parent Role object
    itself then does NOT have the role). *)
Definition has_role_at (e : gentity) (r : nat) (x : nat) : bool :=
  match role_subs e r with
  | [] => x =? r
  | subs => existsb (Nat.eqb x) subs
  end.
Definition has_role (p : gpop) (r : nat) : list bool :=
  map (has_role_at (g_entity p) r) (g_roles p).

(** ** GroupPopulation *)

(** members_position: the counter loop. *)
Fixpoint positions_loop (ids : list nat) (counter : list nat) : list nat :=
  match ids with
  | [] => []
  | e :: t => nth e counter 0 :: positions_loop t (upd counter e (S (nth e counter 0)))
  end.

(** nb_entities = numpy.max(members_entity_id) + 1 raises ValueError without persons. *)
Definition members_position (p : gpop) : res (list nat) :=
  let* nb_entities := max_plus_one (g_ids p) in
  Ok (positions_loop (g_ids p) (full nb_entities 0)).

(** ordered_members_map = numpy.argsort(members_entity_id) *)
Definition ordered_members_map (p : gpop) : list nat := argsort_nat (g_ids p).

(** GroupPopulation.sum(array, role=None) *)
Definition sum (p : gpop) (array : list Z) (role : option nat) : res (list Z) :=
  let* _ := check_size (npersons p) array in
  match role with
  | Some r =>
      let role_filter := has_role p r in
      bincount (g_count p) (mask_select role_filter (g_ids p)) (mask_select role_filter array)
  | None => bincount (g_count p) (g_ids p) array
  end.

(** GroupPopulation.any: sum_in_entity > 0 *)
Definition any (p : gpop) (array : list Z) (role : option nat) : res (list bool) :=
  let* sum_in_entity := sum p array role in
  Ok (map (fun s => (0 <? s)%Z) sum_in_entity).

(** GroupPopulation.nb_persons(role=None) *)
Definition nb_persons (p : gpop) (role : option nat) : res (list Z) :=
  match role with
  | Some r => sum p (map b2z (has_role p r)) None
  | None => Ok (bincount_count (g_count p) (g_ids p))
  end.

(** GroupPopulation.value_nth_person(n, array, default) *)
Definition value_nth_person_with {A} (members_map : list nat) (p : gpop) (n : Z)
    (array : list A) (default : A) : res (list A) :=
  let* _ := check_size (npersons p) array in
  let* positions := members_position p in
  let* nb_persons_per_entity := nb_persons p None in
  let result := full (g_count p) default in
  let* sorted_array := take members_map array in
  let* sorted_positions := take members_map positions in
  mask_assign result
    (map (fun k => (n <? k)%Z) nb_persons_per_entity)
    (mask_select (map (fun q => (Z.of_nat q =? n)%Z) sorted_positions) sorted_array).

Definition value_nth_person {A} (p : gpop) := @value_nth_person_with A (ordered_members_map p) p.

(** GroupPopulation.value_from_first_person *)
Definition value_from_first_person_with (members_map : list nat) (p : gpop) (array : list Z) :=
  value_nth_person_with members_map p 0%Z array 0%Z.
Definition value_from_first_person (p : gpop) := value_from_first_person_with (ordered_members_map p) p.

(** GroupPopulation.value_from_person(array, role, default).  A role whose max is not 1
    is rejected (the code means to raise Exception; building the message evaluates
    self.key, which raises AttributeError -- both are kind "other"). *)
Definition value_from_person_with {A} (members_map : list nat) (p : gpop) (array : list A)
    (role : nat) (default : A) : res (list A) :=
  match role_max (g_entity p) role with
  | Some 1 =>
      let* _ := check_size (npersons p) array in
      let result := full (g_count p) default in
      let role_filter := has_role p role in
      let* entity_filter := any p (map b2z role_filter) None in
      let* sorted_array := take members_map array in
      let* sorted_filter := take members_map role_filter in
      mask_assign result entity_filter (mask_select sorted_filter sorted_array)
  | _ => Err EOther
  end.

Definition value_from_person {A} (p : gpop) := @value_from_person_with A (ordered_members_map p) p.

(** GroupPopulation.reduce(array, reducer, neutral_element, role) *)
Definition reduce_with {A} (members_map : list nat) (p : gpop) (array : list A)
    (reducer : A -> A -> A) (neutral : A) (role : option nat) : res (list A) :=
  let* _ := check_size (npersons p) array in
  let* position_in_entity := members_position p in
  let filtered_array :=
    match role with
    | Some r => where_ (has_role p r) array (full (npersons p) neutral)
    | None => array
    end in
  let result := full (g_count p) neutral in
  let* biggest_entity_size := max_plus_one position_in_entity in
  fold_left
    (fun acc k =>
       let* result := acc in
       let* values := value_nth_person_with members_map p (Z.of_nat k) filtered_array neutral in
       Ok (zip_with reducer result values))
    (seq 0 biggest_entity_size) (Ok result).

(** GroupPopulation.all / max / min: logical_and with True, maximum with -inf, minimum
    with +inf. *)
Definition all_with (mm : list nat) (p : gpop) (array : list Z) (role : option nat) : res (list bool) :=
  reduce_with mm p (map (fun v => negb (v =? 0)%Z) array) andb true role.
Definition max_with (mm : list nat) (p : gpop) (array : list Z) (role : option nat) : res (list ext) :=
  reduce_with mm p (map Fin array) ext_max NInf role.
Definition min_with (mm : list nat) (p : gpop) (array : list Z) (role : option nat) : res (list ext) :=
  reduce_with mm p (map Fin array) ext_min PInf role.
Definition all (p : gpop) := all_with (ordered_members_map p) p.
Definition max (p : gpop) := max_with (ordered_members_map p) p.
Definition min (p : gpop) := min_with (ordered_members_map p) p.

(** GroupPopulation.project(array, role=None) *)
Definition project (p : gpop) (array : list Z) (role : option nat) : res (list Z) :=
  let* _ := check_size (g_count p) array in
  let* projected := take (g_ids p) array in
  match role with
  | None => Ok projected
  | Some r => Ok (where_ (has_role p r) projected (full (npersons p) 0%Z))
  end.

(** Population.get_rank(entity, criteria, condition).  [sort1] is the inner
    numpy.argsort (rows of floats with ties), [sort2] the outer one (rows that are
    permutations). *)
Definition get_rank_with (sort1 : list ext -> list nat) (sort2 : list nat -> list nat)
    (members_map : list nat) (p : gpop) (criteria : list Z) (condition : list bool)
    : res (list Z) :=
  let* positions := members_position p in
  let* biggest_entity_size := max_plus_one positions in
  let* _ := (if length condition =? length criteria then Ok tt else Err EValue) in
  let filtered_criteria := where_ condition (map Fin criteria) (full (length criteria) PInf) in
  let* columns :=
    mapM (fun k => value_nth_person_with members_map p (Z.of_nat k) filtered_criteria PInf)
         (seq 0 biggest_entity_size) in
  let matrix := transpose (g_count p) columns PInf in
  let sorted_matrix := map (fun row => sort2 (sort1 row)) matrix in
  let* result :=
    mapM (fun gk =>
            match nth_error sorted_matrix (fst gk) with
            | Some row => match nth_error row (snd gk) with Some v => Ok v | None => Err EIndex end
            | None => Err EIndex
            end)
         (combine (g_ids p) positions) in
  Ok (where_ condition (map Z.of_nat result) (full (length criteria) (-1)%Z)).

Definition get_rank (p : gpop) := get_rank_with argsort_ext argsort_nat (ordered_members_map p) p.

(** ** Projectors *)

Record simulation := { s_person_key : string; s_groups : list gpop }.

Inductive popref := PersonPop | GroupPop (k : nat).

Inductive projector :=
  | EntityToPerson (target : popref)          (* person.household *)
  | FirstPersonToEntity (k : nat)             (* household.first_person *)
  | UniqueRoleToEntity (k : nat) (r : nat).   (* household.head *)

Definition reference_entity (pr : projector) : popref :=
  match pr with EntityToPerson t => t | _ => PersonPop end.

Definition get_group (sim : simulation) (k : nat) : res gpop :=
  match nth_error (s_groups sim) k with Some p => Ok p | None => Err EOther end.

(** simulation.populations[key] *)
Fixpoint find_group (gs : list gpop) (key : string) (k : nat) : option nat :=
  match gs with
  | [] => None
  | p :: t => if String.eqb (e_key (g_entity p)) key then Some k else find_group t key (S k)
  end.
Definition find_pop (sim : simulation) (key : string) : option popref :=
  if String.eqb (s_person_key sim) key then Some PersonPop
  else option_map GroupPop (find_group (s_groups sim) key 0).

(** entities.find_role(entity.roles, key, total=total): top-level roles in order, the
    sub-roles of a role before the role itself. *)
Definition role_matches (roles : list role_info) (key : string) (total : option nat) (r : nat) : bool :=
  match nth_error roles r with
  | Some ri =>
      String.eqb (r_key ri) key &&
      match r_max ri, total with
      | Some a, Some b => a =? b
      | None, None => true
      | _, _ => false
      end
  | None => false
  end.
Fixpoint find_role_from (roles : list role_info) (key : string) (total : option nat)
    (rows : list (nat * role_info)) : option nat :=
  match rows with
  | [] => None
  | (r, ri) :: t =>
      if r_top ri then
        match find (role_matches roles key total) (r_subs ri) with
        | Some s => Some s
        | None => if role_matches roles key total r then Some r
                  else find_role_from roles key total t
        end
      else find_role_from roles key total t
  end.
Definition find_role (roles : list role_info) (key : string) (total : option nat) : option nat :=
  find_role_from roles key total (combine (seq 0 (length roles)) roles).

(** projectors.helpers.get_projector_from_shortcut(population, shortcut, parent).  A chain
    of projectors is the list [innermost; its parent; the parent's parent; ...]; None is
    the Python None (the callers then raise AttributeError). *)
Definition get_projector_from_shortcut (sim : simulation) (pop : popref) (shortcut : string)
    (parent : list projector) : option (list projector) :=
  match pop with
  | PersonPop =>
      match find_pop sim shortcut with
      | Some t => Some (EntityToPerson t :: parent)
      | None => None
      end
  | GroupPop k =>
      if String.eqb shortcut "first_person" then Some (FirstPersonToEntity k :: parent)
      else
        match nth_error (s_groups sim) k with
        | None => None
        | Some p =>
            match find_role (e_roles (g_entity p)) shortcut (Some 1) with
            | Some r => Some (UniqueRoleToEntity k r :: parent)
            | None =>
                if existsb (String.eqb shortcut) (e_containing (g_entity p)) then
                  (* getattr(FirstPersonToEntityProjector(population, parent), shortcut) *)
                  match find_pop sim shortcut with
                  | Some t => Some (EntityToPerson t :: FirstPersonToEntity k :: parent)
                  | None => None
                  end
                else None
            end
        end
  end.

(** Attribute path from a population: population.a.b.c (Population.__getattr__ then
    Projector.__getattr__).  Returns the chain and the reference entity of the last
    projector.  AttributeError is kind "other". *)
Fixpoint resolve (sim : simulation) (cur : popref) (path : list string) (chain : list projector)
    : res (list projector * popref) :=
  match path with
  | [] => Ok (chain, cur)
  | s :: rest =>
      match get_projector_from_shortcut sim cur s chain with
      | Some (pr :: ch) => resolve sim (reference_entity pr) rest (pr :: ch)
      | _ => Err EOther
      end
  end.

(** Projector.transform of the three classes.  EntityToPersonProjector over the person
    population calls Population.project, which does not exist (AttributeError). *)
Definition transform (sim : simulation) (pr : projector) (x : list Z) : res (list Z) :=
  match pr with
  | EntityToPerson PersonPop => Err EOther
  | EntityToPerson (GroupPop k) => let* p := get_group sim k in project p x None
  | FirstPersonToEntity k => let* p := get_group sim k in value_from_first_person p x
  | UniqueRoleToEntity k r => let* p := get_group sim k in value_from_person p x r 0%Z
  end.

(** Projector.transform_and_bubble_up *)
Fixpoint transform_and_bubble_up (sim : simulation) (chain : list projector) (x : list Z)
    : res (list Z) :=
  match chain with
  | [] => Ok x
  | pr :: parents =>
      let* y := transform sim pr x in
      transform_and_bubble_up sim parents y
  end.
