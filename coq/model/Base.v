(** Shared vocabulary of the models: date units, error kinds, result monad. *)
From Coq Require Import ZArith List Bool String.
Import ListNotations.

Inductive unit_t := Weekday | Week | Day | Month | Year | Eternity.

Definition unit_eqb (a b : unit_t) : bool :=
  match a, b with
  | Weekday, Weekday | Week, Week | Day, Day | Month, Month | Year, Year
  | Eternity, Eternity => true
  | _, _ => false
  end.

(** Error kinds: the canonical classes into which the harness maps Python exceptions. *)
Inductive err :=
  | EValue      (* ValueError (incl. numpy / pendulum value errors) *)
  | EPeriod     (* PeriodError / InstantError / ParserError *)
  | EMismatch   (* PeriodMismatchError *)
  | ECycle      (* CycleError *)
  | ESpiral     (* SpiralError *)
  | ENotFound   (* VariableNotFoundError / ParameterNotFoundError / KeyError *)
  | ESituation  (* SituationParsingError *)
  | EType       (* TypeError *)
  | EIndex      (* IndexError *)
  | EOther      (* AssertionError, NotImplementedError, anything else *)
  | EFuel.      (* model only: fuel exhausted; never produced by the implementation *)

Definition err_eqb (a b : err) : bool :=
  match a, b with
  | EValue, EValue | EPeriod, EPeriod | EMismatch, EMismatch | ECycle, ECycle
  | ESpiral, ESpiral | ENotFound, ENotFound | ESituation, ESituation | EType, EType
  | EIndex, EIndex | EOther, EOther | EFuel, EFuel => true
  | _, _ => false
  end.

Inductive res (A : Type) := Ok (a : A) | Err (e : err).
Arguments Ok {A} a.
Arguments Err {A} e.

Definition bind {A B} (r : res A) (f : A -> res B) : res B :=
  match r with Ok a => f a | Err e => Err e end.
Definition rmap {A B} (f : A -> B) (r : res A) : res B :=
  match r with Ok a => Ok (f a) | Err e => Err e end.

Declare Scope res_scope.
Notation "'let*' x ':=' r 'in' k" := (bind r (fun x => k))
  (at level 200, x pattern, r at level 100, k at level 200, right associativity) : res_scope.

Fixpoint mapM {A B} (f : A -> res B) (l : list A) : res (list B) :=
  match l with
  | [] => Ok []
  | x :: xs => match f x with
               | Err e => Err e
               | Ok y => match mapM f xs with Err e => Err e | Ok ys => Ok (y :: ys) end
               end
  end.

(* range(n) as Python: empty when n <= 0 *)
Definition zrange (n : Z) : list Z := map Z.of_nat (seq 0 (Z.to_nat n)).
