(** The routing of an input re-assembled from the regenerated pieces (coq/gen/GuardsInput.v,
    re-emitted by harness/gen_tables.py on every run from Holder.__init__, Holder.set_input,
    Holder._to_array, Holder._set of holders/holder.py and Simulation.set_input of
    simulations/simulation.py), over the set-input model coq/model/SetInput.v (variables
    that are not neutralized, numeric inputs, a period is always given).
    props/GuardsTie.v and props/C16.v say that these are [SetInput._set],
    [holder_set_input], [sim_set_input].  No proofs here. *)
From Coq Require Import ZArith QArith List Bool.
From Verif Require Import Base Cal Tables Period SetInput GuardsTypes GuardsInput.
Import ListNotations.
Open Scope Z_scope.

Definition has_rule (v : var) : bool := match v_rule v with RNone => false | _ => true end.

(** Holder._set: length test of _to_array, then the regenerated period tests *)
Definition src_set (v : var) (n : Z) (h : holder) (p : period) (a : arr) : res holder :=
  if gen_to_array_rejects (Z.of_nat (length a)) n then Err EValue
  else match gen_holder_set_guard (gen_holder_eternal (v_def v)) false (v_def v) (p_unit p) (p_size p) with
       | SGValueError => Err EValue
       | SGMismatch => Err EMismatch
       | SGOk => Ok (put h (storage_key v p) (map (cast (v_type v)) a))
       end.

(** Holder.set_input *)
Definition src_holder_set_input (v : var) (n : Z) (h : holder) (P : period) (a : arr) : res holder :=
  match gen_holder_set_input (p_unit P) (gen_holder_eternal (v_def v)) false (has_rule v) with
  | SOMismatch => Err EMismatch
  | SOIgnored => Ok h
  | SORule =>
      match v_rule v with
      | RDivide => set_input_divide_by_period v n h P a
      | RDispatch => set_input_dispatch_by_period v n h P a
      | RNone => _set v n h P a
      end
  | SOSet => _set v n h P a
  end.

(** Simulation.set_input, for a dated period ([period.start.date] of the eternity period
    raises: that is inside Instant.date, not in the text of set_input) *)
Definition src_sim_set_input (v : var) (n : Z) (h : holder) (P : period) (a : arr) : res holder :=
  if gen_sim_set_input_ignored (match v_end v with Some _ => true | None => false end)
                               (match v_end v with Some e => date_ltb e (p_start P) | None => false end)
  then Ok h
  else holder_set_input v n h P a.
