(** Executable model of openfisca_core.indexed_enums: Enum.encode with its two code
    paths (_encode_array for numpy arrays, _encode_array_like for Python sequences),
    the helpers of _utils.py (_int_to_index, _str_to_index, _enum_to_index), the
    guards of _guards.py, and EnumArray.decode / decode_to_str (enum_array.py).
    Written function by function after the code as it is in /repo now (with the fix
    that makes _int_to_index reject negative values and both encode paths reject
    members of another enumeration, and the later one -- Enum._has_member -- that also
    rejects the members of a same-named enumeration that do not designate a member of
    this one).  No proofs here.

    Conventions
    - an enumeration is its identity and the list of its member names in declaration
      order.  The identity [eid] stands for what the code compares when it writes
      [cls == item.__class__]: EnumType.__eq__ compares hash(cls), which is
      object.__hash__(cls.__name__), i.e. the identity of the class-name string.
    - aliases (a further name bound to the value of an existing member) are not part of
      an enumeration: Python keeps them out of _member_names_, of iteration and of
      len(cls), so they are neither in [names] nor in [members]; E[alias] evaluates to the
      member itself (an [EMem] with that member's index) and an alias NAME given to
      Enum.encode is a string that is not in [names] (rejected like any unknown name).
      The harness declares enumerations with aliases and renders them this way.
    - two enumeration classes whose __name__ is the same string compare equal: in the
      model they have the same [eid] (and possibly different [names]).
    - a member is (identity of its enumeration, its index, its name): _enum_to_index reads
      [member.index], Enum._has_member reads [member.__class__], [member.index] and
      [member.name].  The index is a [nat]: Enum.__init__ sets it to
      len(_member_names_), never a negative number.
    - arrays and sequences are lists; indices are [Z].  The uint8 cast of the index
      array (t.EnumDType) is the identity on 0..255 and is not modelled beyond that
      (enumerations above 256 members are out of scope).
    - error kinds: EnumMemberNotFoundError is an IndexError ([EIndex]),
      EnumEncodingError is a TypeError ([EType]). *)
From Coq Require Import String Ascii ZArith List Bool.
From Verif Require Import Base.
Import ListNotations.
Open Scope Z_scope.
Open Scope res_scope.

Record enum := mkEnum { eid : Z; names : list string }.

Definition size (e : enum) : Z := Z.of_nat (length (names e)).

(** member.__class__ (as far as == sees it), member.index, member.name *)
Record member := mkMem { mid : Z; midx : nat; mname : string }.

(** EnumType.__new__: cls.enums = numpy.array(cls) -- the members in declaration order. *)
Definition members (e : enum) : list member :=
  map (fun p => mkMem (eid e) (snd p) (fst p)) (combine (names e) (seq 0 (length (names e)))).

(** An EnumArray: a uint8 index array with the enumeration it is to be read against
    ([possible_values], None on arrays that were not produced by Enum.encode). *)
Record enum_array := mkArr { possible_values : option enum; indices : list Z }.

(** ** Inputs of Enum.encode *)

(** One element of a Python sequence or of a numpy object array. *)
Inductive elem :=
  | EInt (z : Z)            (* Python int *)
  | EBool (b : bool)        (* Python bool: isinstance(True, int) holds *)
  | EStr (s : string)       (* str *)
  | EMem (m : member)       (* a member of some indexed Enum *)
  | EOther.                 (* anything else: float, bytes, None, list, numpy scalar ... *)

Inductive input :=
  | Encoded (a : enum_array)    (* an EnumArray (whatever its possible_values) *)
  | ArrInt (l : list Z)         (* ndarray whose dtype.type is in _guards.ints *)
  | ArrStr (l : list string)    (* ndarray of numpy.str_ *)
  | ArrObj (l : list elem)      (* ndarray of numpy.object_ *)
  | ArrOther (len : nat)        (* ndarray of any other dtype: float, bytes, bool, ... *)
  | Seq (l : list elem).        (* collections.abc.Sequence: list, tuple, range *)

Definition input_len (x : input) : nat :=
  match x with
  | Encoded a => length (indices a)
  | ArrInt l => length l
  | ArrStr l => length l
  | ArrObj l => length l
  | ArrOther n => n
  | Seq l => length l
  end.

(** ** _guards.py on sequences: all(isinstance(item, T) for item in array).
    [all_of f l] is [Some] of the projected list exactly when every element passes. *)
Fixpoint all_of {A} (f : elem -> option A) (l : list elem) : option (list A) :=
  match l with
  | [] => Some []
  | x :: r => match f x, all_of f r with
              | Some a, Some r' => Some (a :: r')
              | _, _ => None
              end
  end.

Definition as_int (x : elem) : option Z :=
  match x with EInt z => Some z | EBool b => Some (if b then 1 else 0) | _ => None end.
Definition as_str (x : elem) : option string :=
  match x with EStr s => Some s | _ => None end.
Definition as_enum (x : elem) : option member :=
  match x with EMem m => Some m | _ => None end.

Definition all_ints := all_of as_int.      (* _is_int_array_like, and the values numpy.asarray gives *)
Definition all_strs := all_of as_str.      (* _is_str_array_like *)
Definition all_enums := all_of as_enum.    (* _is_enum_array_like *)

(** Enum._has_member:
      cls == item.__class__ and item.index < len(cls.names) and cls.names[item.index] == item.name *)
Definition has_member (e : enum) (m : member) : bool :=
  Z.eqb (mid m) (eid e) &&
  match nth_error (names e) (midx m) with
  | Some s => String.eqb s (mname m)
  | None => false
  end.

(** ** _utils.py *)

(** _int_to_index: values[(values >= 0) & (values < indices.size)].astype(uint8) *)
Definition int_to_index (e : enum) (values : list Z) : list Z :=
  filter (fun v => (0 <=? v) && (v <? size e)) values.

(** _enum_to_index: numpy.array([enum.index for enum in value], uint8) *)
Definition enum_to_index (value : list member) : list Z := map (fun m => Z.of_nat (midx m)) value.

(** numpy.isin(values, names), element by element *)
Definition isin (nm : list string) (s : string) : bool := existsb (String.eqb s) nm.

(** numpy.argsort(names): the positions 0..n-1 ordered by the name they hold; modelled
    as an insertion sort of (name, position) pairs (stable; on duplicate-free names
    every sorting algorithm returns the same permutation). *)
Fixpoint insert (x : string * nat) (l : list (string * nat)) : list (string * nat) :=
  match l with
  | [] => [x]
  | y :: l' => if String.ltb (fst y) (fst x) then y :: insert x l' else x :: l
  end.

Definition sort_pairs (l : list (string * nat)) : list (string * nat) :=
  fold_right insert [] l.

Definition argsort (nm : list string) : list nat :=
  map snd (sort_pairs (combine nm (seq 0 (length nm)))).

(** names[sorter[mid]] *)
Definition key_at (nm : list string) (sorter : list nat) (mid : nat) : res string :=
  match nth_error sorter mid with
  | None => Err EIndex
  | Some i => match nth_error nm i with None => Err EIndex | Some s => Ok s end
  end.

(** numpy.searchsorted(names, key, side="left", sorter=sorter): numpy's binary search
    [while (lo < hi) { mid = lo + ((hi - lo) >> 1); if (a[sorter[mid]] < key) lo = mid + 1; else hi = mid; }].
    The loop is run on explicit fuel; running out of it is the distinct error [EFuel]. *)
Fixpoint bsearch (fuel : nat) (nm : list string) (sorter : list nat) (key : string)
         (lo hi : nat) : res nat :=
  if Nat.leb hi lo then Ok lo
  else match fuel with
       | O => Err EFuel
       | S f =>
           let mid := (lo + Nat.div2 (hi - lo))%nat in
           match key_at nm sorter mid with
           | Err k => Err k
           | Ok s => if String.ltb s key then bsearch f nm sorter key (S mid) hi
                     else bsearch f nm sorter key lo mid
           end
       end.

Definition searchsorted (nm : list string) (sorter : list nat) (key : string) : res nat :=
  bsearch (length sorter) nm sorter key 0 (length sorter).

(** _str_to_index:
      mask = numpy.isin(values, names); sorter = numpy.argsort(names)
      sorter[numpy.searchsorted(names, values[mask], sorter=sorter)].astype(uint8) *)
Definition lookup (nm : list string) (sorter : list nat) (s : string) : res Z :=
  let* p := searchsorted nm sorter s in
  match nth_error sorter p with
  | Some i => Ok (Z.of_nat i)
  | None => Err EIndex
  end.

Definition str_to_index (e : enum) (values : list string) : res (list Z) :=
  let nm := names e in
  let masked := filter (isin nm) values in
  let sorter := argsort nm in
  mapM (lookup nm sorter) masked.

(** ** enum.py *)

(** if indices.size != len(value): raise EnumMemberNotFoundError(cls) *)
Definition finish (len : nat) (indices : list Z) : res (list Z) :=
  if Nat.eqb (length indices) len then Ok indices else Err EIndex.

(** Enum._encode_array_like *)
Definition encode_array_like (e : enum) (value : list elem) : res (list Z) :=
  match all_ints value with
  | Some zs => finish (length value) (int_to_index e zs)
  | None =>
      match all_strs value with
      | Some ss => let* idx := str_to_index e ss in finish (length value) idx
      | None =>
          match all_enums value with
          | Some ms =>
              if forallb (has_member e) ms then finish (length value) (enum_to_index ms)
              else Err EType
          | None => Err EType
          end
      end
  end.

(** Enum._encode_array *)
Definition encode_array (e : enum) (value : input) : res (list Z) :=
  match value with
  | ArrInt l => finish (length l) (int_to_index e l)
  | ArrStr l => let* idx := str_to_index e l in finish (length l) idx
  | ArrObj l =>
      match all_enums l with
      | Some ms =>
          if forallb (has_member e) ms then finish (length l) (enum_to_index ms)
          else Err EType
      | None => Err EType      (* _is_enum_array fails on a non-member *)
      end
  | ArrOther _ => Err EType
  | Seq l => encode_array_like e l       (* not reached from [encode] *)
  | Encoded a => Ok (indices a)          (* not reached from [encode] *)
  end.

(** Enum.encode *)
Definition encode (e : enum) (array : input) : res enum_array :=
  match array with
  | Encoded a => Ok a                                  (* isinstance(array, EnumArray): returned as is *)
  | _ =>
      rmap (mkArr (Some e))                            (* EnumArray(indices, cls) *)
        (if Nat.eqb (input_len array) 0 then Ok []     (* len(array) == 0 *)
         else match array with
              | Seq l => encode_array_like e l         (* isinstance(array, Sequence) *)
              | _ => encode_array e array
              end)
  end.

(** ** enum_array.py *)

(** numpy integer indexing [table[i]]: a negative index counts from the end. *)
Definition np_index {A} (table : list A) (i : Z) : res A :=
  let n := Z.of_nat (length table) in
  let j := if i <? 0 then i + n else i in
  if (0 <=? j) && (j <? n) then
    match nth_error table (Z.to_nat j) with Some a => Ok a | None => Err EIndex end
  else Err EIndex.

(** EnumArray.decode: TypeError when possible_values is None, else
    self.possible_values.enums[self] *)
Definition decode (a : enum_array) : res (list member) :=
  match possible_values a with
  | None => Err EType
  | Some e => mapM (np_index (members e)) (indices a)
  end.

(** EnumArray.decode_to_str: self.possible_values.names[self] *)
Definition decode_to_str (a : enum_array) : res (list string) :=
  match possible_values a with
  | None => Err EType
  | Some e => mapM (np_index (names e)) (indices a)
  end.

(** ** Vocabulary of the statements in props/C15.v (definitions only) *)

Definition valid_index (e : enum) (i : Z) : Prop := 0 <= i < size e.

(** [m] designates a member of [e]: it is of [e]'s class (as == sees it) and [e] has a
    member of that name at that index.  (A member of a same-named enumeration with the
    same name at the same index cannot be told from [e]'s own: it is that member.) *)
Definition designates (e : enum) (m : member) : Prop :=
  mid m = eid e /\ nth_error (names e) (midx m) = Some (mname m).

(** [m] is the member of [e] with index [i] *)
Definition member_of_index (e : enum) (i : Z) (m : member) : Prop :=
  designates e m /\ Z.of_nat (midx m) = i.

(** "an array or sequence of indices / of names / of members" *)
Definition as_ints (x : input) : option (list Z) :=
  match x with ArrInt l => Some l | Seq l => all_ints l | _ => None end.
Definition as_names (x : input) : option (list string) :=
  match x with ArrStr l => Some l | Seq l => all_strs l | _ => None end.
Definition as_members (x : input) : option (list member) :=
  match x with ArrObj l => all_enums l | Seq l => all_enums l | _ => None end.

(** the elements of object arrays and sequences *)
Definition input_elems (x : input) : list elem :=
  match x with ArrObj l => l | Seq l => l | _ => [] end.

(** "something that is not a member": unknown name, index outside the range on
    either side, member of another enumeration (of another name, or of the same name but
    not designating a member of [e]), unsupported element type *)
Definition elem_invalid (e : enum) (x : elem) : Prop :=
  match x with
  | EInt z => z < 0 \/ size e <= z
  | EBool b => size e <= (if b then 1 else 0)
  | EStr s => ~ In s (names e)
  | EMem m => ~ designates e m
  | EOther => True
  end.

Definition input_invalid (e : enum) (x : input) : Prop :=
  match x with
  | Encoded _ => False
  | ArrInt l => exists i, In i l /\ (i < 0 \/ size e <= i)
  | ArrStr l => exists s, In s l /\ ~ In s (names e)
  | ArrObj l => exists y, In y l /\ elem_invalid e y
  | Seq l => exists y, In y l /\ elem_invalid e y
  | ArrOther len => (0 < len)%nat
  end.

(** [sorter] orders the positions of [nm] by the name they hold *)
Definition sorts (nm : list string) (sorter : list nat) : Prop :=
  forall p q i j, (p < q)%nat -> nth_error sorter p = Some i -> nth_error sorter q = Some j ->
    exists s t, nth_error nm i = Some s /\ nth_error nm j = Some t /\ String.ltb t s = false.
