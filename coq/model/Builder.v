(** Executable model of the situation builder of openfisca-core:
      openfisca_core/simulations/simulation_builder.py :: SimulationBuilder.build_from_dict,
          build_from_entities, explicit_singular_entities, add_person_entity, add_group_entity,
          add_default_group_entity, check_persons_to_allocate, init_variable_values,
          add_variable_value, get_input, finalize_variables_init, expand_axes
      openfisca_core/simulations/_build_from_variables.py :: _BuildFromVariables, _person_count
      openfisca_core/simulations/_build_default_simulation.py :: _BuildDefaultSimulation
      openfisca_core/simulations/helpers.py :: check_type, check_unexpected_entities,
          transform_to_strict_syntax
      openfisca_core/simulations/_type_guards.py :: are_entities_short_form / _fully_specified /
          _specified, has_axes
      openfisca_core/variables/variable.py :: Variable.check_set_value, default_array
      openfisca_core/holders/holder.py :: Holder.set_input, _to_array, _set (memory storage)
      openfisca_core/holders/helpers.py :: set_input_dispatch_by_period, set_input_divide_by_period
      openfisca_core/periods/helpers.py :: period (on tokenised keys), Period.__str__ followed by
          period() again (the canonical buffer key)
    Written after the code that is in /repo now (all [fix:] commits up to fbb7bd9 are in).

    A situation is a JSON tree.  Three things are external to the model and come with the case
    (record [ext]); the theorems hold for every value of them:
      - [tok]   the tokenisation of a text used as a period key / date value (the model parses the
                tokens, checks calendar validity and unit weights and canonicalises);
      - [evalx] numexpr's evaluation of a text given to a numeric variable ([None]: not a number);
      - [set_order] Python's iteration order of the set of persons that are still to allocate
                (some permutation).
    Inputs outside the modelled language (nested arrays as values, sizes <= 0, years < 1000,
    ints beyond the dtype, ill-typed axes ...) give the marker [EUnmodelled], which no
    implementation run can produce.  No proofs here. *)
From Coq Require Import ZArith QArith List Bool String Ascii DecimalString.
From Verif Require Import Base Cal Tables Period.
Import ListNotations.
Open Scope Z_scope.
Open Scope res_scope.

Definition EUnmodelled : err := EFuel.

(** * JSON, Python dicts as association lists *)

Inductive json :=
  | JNull
  | JBool (b : bool)
  | JInt (z : Z)
  | JFloat (q : Q)
  | JStr (s : string)
  | JArr (l : list json)
  | JObj (l : list (string * json)).

Fixpoint aget {A} (k : string) (l : list (string * A)) : option A :=
  match l with
  | [] => None
  | (k', v) :: l' => if String.eqb k' k then Some v else aget k l'
  end.

(* d[k] = v : an existing key keeps its position *)
Fixpoint aset {A} (k : string) (v : A) (l : list (string * A)) : list (string * A) :=
  match l with
  | [] => [(k, v)]
  | (k', w) :: l' => if String.eqb k' k then (k', v) :: l' else (k', w) :: aset k v l'
  end.

Fixpoint aremove {A} (k : string) (l : list (string * A)) : list (string * A) :=
  match l with
  | [] => []
  | (k', w) :: l' => if String.eqb k' k then aremove k l' else (k', w) :: aremove k l'
  end.

Definition mem_str (s : string) (l : list string) : bool := existsb (String.eqb s) l.

Fixpoint index_of (s : string) (l : list string) : option nat :=
  match l with
  | [] => None
  | x :: l' => if String.eqb x s then Some O
               else match index_of s l' with Some n => Some (S n) | None => None end
  end.

Fixpoint list_set {A} (n : nat) (x : A) (l : list A) : list A :=
  match l, n with
  | [], _ => []
  | _ :: l', O => x :: l'
  | y :: l', S n' => y :: list_set n' x l'
  end.

Definition string_of_Z (z : Z) : string := NilZero.string_of_int (Z.to_int z).
Definition string_of_nat (n : nat) : string := string_of_Z (Z.of_nat n).

(* python: l * n *)
Fixpoint repeat_list {A} (l : list A) (n : nat) : list A :=
  match n with O => [] | S n' => l ++ repeat_list l n' end.

(** * Period keys (tokenised) and their canonical form *)

Inductive kstart :=
  | SY (y : Z)              (* "2018" *)
  | SYM (y m : Z)           (* "2018-01" *)
  | SYMD (y m d : Z).       (* "2018-01-15" *)

Inductive pkey :=
  | KPlain (s : kstart)                                   (* an ISO-format date text alone *)
  | KPref (u : unit_t) (s : kstart) (size : option Z)     (* "month:2018-01" / "month:2018-01:3" *)
  | KEternity (spelled : string)                          (* any casing of "eternity" *)
  | KGarbage.                                             (* anything else *)

Definition KYear (y : Z) : pkey := KPlain (SY y).
Definition KMonth (y m : Z) : pkey := KPlain (SYM y m).
Definition KDay (y m d : Z) : pkey := KPlain (SYMD y m d).
Definition KUnitPrefixed (u : unit_t) (s : kstart) (size : option Z) : pkey := KPref u s size.

Record ext := mkExt {
  tok : string -> pkey;
  evalx : string -> option Q;
  set_order : list string -> list string
}.

(* types.iso_format + pendulum.parse(exact=True): four-digit year, calendar-valid date *)
Definition parse_start (s : kstart) : res (unit_t * date) :=
  match s with
  | SY y => if (1 <=? y) && (y <=? 9999) then Ok (Year, (y, 1, 1)) else Err EPeriod
  | SYM y m =>
      if (1 <=? y) && (y <=? 9999) && (1 <=? m) && (m <=? 12) then Ok (Month, (y, m, 1))
      else Err EPeriod
  | SYMD y m d =>
      if validb (y, m, d) && (y <=? 9999) then Ok (Day, (y, m, d)) else Err EPeriod
  end.

(** periods.period on a text key *)
Definition parse_key (k : pkey) : res period :=
  match k with
  | KEternity _ => Ok eternity_period
  | KGarbage => Err EPeriod
  | KPlain s => let* ud := parse_start s in Ok (fst ud, snd ud, 1)
  | KPref u s size =>
      if unit_eqb u Eternity then Err EPeriod
      else
        let* ud := parse_start s in
        if unit_weight u <? unit_weight (fst ud) then Err EPeriod
        else Ok (u, snd ud, match size with Some n => n | None => 1 end)
  end.

(** [periods.period (str p)]: the buffer is keyed by the text of the period and the text is
    parsed again when the buffer is flushed.  Sizes <= 0 and years < 1000 (printed without
    padding) are outside the modelled language. *)
Definition canon (p : period) : res period :=
  let '(u, s, n) := p in
  let '(y, m, d) := s in
  match u with
  | Eternity => Ok eternity_period
  | _ =>
    if (n <=? 0) || (y <? 1000) then Err EUnmodelled
    else match u with
    | Eternity => Ok eternity_period
    | Month => if n =? 12 then Ok (Year, (y, m, 1), 1) else Ok (Month, (y, m, 1), n)
    | Year => Ok (Year, (y, m, 1), n)
    | Day => Ok (Day, (y, m, d), n)
    | Week => Ok (Week, start_of_week s, n)
    | Weekday => Ok (Weekday, s, n)
    end
  end.

Definition canon_key (k : pkey) : res period := let* p := parse_key k in canon p.

(** * Tax-benefit system *)

Inductive vtype := TInt | TFloat | TBool | TEnum | TDate | TStr.
Inductive rule := RNone | RDivide | RDispatch.

Inductive cell := CInt (z : Z) | CFloat (q : Q) | CBool (b : bool) | CStr (s : string).

Record role := mkRole {
  r_key : string;
  r_plural : option string;
  r_max : option Z;                (* for a role with sub-roles: their number *)
  r_subroles : list string
}.

Record entity := mkEntity { e_key : string; e_plural : string; e_roles : list role }.

Record variable := mkVariable {
  v_name : string;
  v_entity : string;               (* key of the entity *)
  v_type : vtype;
  v_def : unit_t;
  v_rule : rule;
  v_end : option date;
  v_default : cell;
  v_enum : list string             (* names of the possible values, in index order *)
}.

Record sys := mkSys { s_person : entity; s_groups : list entity; s_vars : list variable }.

Definition role_name (r : role) : string :=
  match r_plural r with Some p => p | None => r_key r end.
Definition flattened_roles (e : entity) : list string :=
  flat_map (fun r => match r_subroles r with [] => [r_key r] | l => l end) (e_roles e).
Definition first_role (e : entity) : string := hd EmptyString (flattened_roles e).

Definition entities (s : sys) : list entity := s_person s :: s_groups s.
Definition plurals (s : sys) : list string := map e_plural (entities s).
Definition singulars (s : sys) : list string := map e_key (entities s).

Fixpoint find_var (n : string) (l : list variable) : option variable :=
  match l with
  | [] => None
  | v :: l' => if String.eqb (v_name v) n then Some v else find_var n l'
  end.

Fixpoint find_entity_by (f : entity -> string) (n : string) (l : list entity) : option entity :=
  match l with
  | [] => None
  | e :: l' => if String.eqb (f e) n then Some e else find_entity_by f n l'
  end.

(** * Values *)

(* numpy astype(int) of a float: truncation toward zero *)
Definition qtrunc (q : Q) : Z := Z.quot (Qnum q) (Zpos (Qden q)).
Definition qnonzero (q : Q) : bool := negb (Qnum q =? 0).
Definition zbool (b : bool) : Z := if b then 1 else 0.
Definition in_int32 (z : Z) : bool := (-2147483648 <=? z) && (z <=? 2147483647).
Definition in_int16 (z : Z) : bool := (-32768 <=? z) && (z <=? 32767).

Definition epoch_ord : Z := ord (1970, 1, 1).

(* numpy.datetime64 of an ISO date text (tokenised): days since 1970-01-01 *)
Definition date_of_text (x : ext) (s : string) : option Z :=
  match tok x s with
  | KPlain k =>
      match parse_start k with Ok (_, d) => Some (ord d - epoch_ord) | Err _ => None end
  | _ => None
  end.

Definition cint32 (z : Z) : res cell := if in_int32 z then Ok (CInt z) else Err EUnmodelled.
Definition cint16 (z : Z) : res cell := if in_int16 z then Ok (CInt z) else Err EUnmodelled.

(** Variable.check_set_value for a value that is not [None].  [Err EValue] is the
    ValueError that the builder turns into a situation error. *)
Definition check_set_value (x : ext) (v : variable) (j : json) : res cell :=
  match v_type v, j with
  | _, JNull => Err EUnmodelled
  | TStr, JStr s => Ok (CStr s)
  | TStr, JInt z => Ok (CInt z)
  | TStr, JFloat q => Ok (CFloat q)
  | TStr, JBool b => Ok (CBool b)
  | TStr, _ => Err EUnmodelled
  | TBool, JBool b => Ok (CBool b)
  | TBool, JInt z => Ok (CBool (negb (z =? 0)))
  | TBool, JFloat q => Ok (CBool (qnonzero q))
  | TBool, JStr s => Ok (CBool (negb (String.eqb s "")))
  | TBool, _ => Err EUnmodelled
  | TEnum, JStr s =>
      match index_of s (v_enum v) with Some i => Ok (CInt (Z.of_nat i)) | None => Err EValue end
  | TEnum, JInt z => cint16 z
  | TEnum, JFloat q => cint16 (qtrunc q)
  | TEnum, JBool b => Ok (CInt (zbool b))
  | TEnum, JObj _ => Err EValue
  | TEnum, JArr _ => Err EUnmodelled
  | TInt, JInt z => cint32 z
  | TInt, JFloat q => cint32 (qtrunc q)
  | TInt, JBool b => Ok (CInt (zbool b))
  | TInt, JStr s => match evalx x s with Some q => cint32 (qtrunc q) | None => Err EValue end
  | TInt, JObj _ => Err EValue
  | TInt, JArr _ => Err EUnmodelled
  | TFloat, JInt z => Ok (CFloat (inject_Z z))
  | TFloat, JFloat q => Ok (CFloat q)
  | TFloat, JBool b => Ok (CFloat (inject_Z (zbool b)))
  | TFloat, JStr s => match evalx x s with Some q => Ok (CFloat q) | None => Err EValue end
  | TFloat, JObj _ => Err EValue
  | TFloat, JArr _ => Err EUnmodelled
  | TDate, JStr s => match date_of_text x s with Some z => Ok (CInt z) | None => Err EValue end
  | TDate, JInt z => Ok (CInt z)
  | TDate, JBool b => Ok (CInt (zbool b))
  | TDate, JFloat _ => Err EValue
  | TDate, JObj _ => Err EValue
  | TDate, JArr _ => Err EUnmodelled
  end.

Definition default_array (v : variable) (n : nat) : list cell := repeat (v_default v) n.

(** * Holders (Holder.set_input and the two set-input rules, over cells) *)

Definition holder := list (period * list cell).

Fixpoint hget (h : holder) (p : period) : option (list cell) :=
  match h with
  | [] => None
  | (k, a) :: h' => if period_eqb k p then Some a else hget h' p
  end.

Fixpoint hput (h : holder) (p : period) (a : list cell) : holder :=
  match h with
  | [] => [(p, a)]
  | (k, w) :: h' => if period_eqb k p then (k, a) :: h' else (k, w) :: hput h' p a
  end.

Definition eternal (v : variable) : bool := unit_eqb (v_def v) Eternity.
Definition storage_key (v : variable) (p : period) : period :=
  if eternal v then eternity_period else p.
Definition holder_get (v : variable) (h : holder) (p : period) : option (list cell) :=
  hget h (storage_key v p).

(* the List.length check of Holder._to_array (the arrays that reach it here already have the dtype) *)
Definition check_len (n : nat) (a : list cell) : res (list cell) :=
  if Nat.eqb (List.length a) n then Ok a else Err EValue.

(** Holder._set *)
Definition holder_set (v : variable) (n : nat) (h : holder) (p : period) (a : list cell)
  : res holder :=
  let* a' := check_len n a in
  if eternal v then Ok (hput h eternity_period a')
  else if negb (unit_eqb (v_def v) (p_unit p)) || (1 <? p_size p) then Err EMismatch
  else Ok (hput h p a').

(** sub_period = Period((definition_period, period.start, 1));
    while sub_period.start < after_instant: ...; sub_period = sub_period.offset(1) *)
Fixpoint walk (fuel : nat) (sp : period) (after : date) : res (list period) :=
  match fuel with
  | O => Err EFuel
  | S f =>
      if date_ltb (p_start sp) after then
        let* nx := offset sp 1 None in
        let* r := walk f nx after in
        Ok (sp :: r)
      else Ok []
  end.

Definition walk_tiles (v : variable) (P : period) : res (list period) :=
  let* after := instant_offset (p_start P) (p_size P) (p_unit P) in
  walk (S (Z.to_nat (ord after - ord (p_start P)))) (v_def v, p_start P, 1) after.

Fixpoint dispatch_tiles (v : variable) (n : nat) (h : holder) (T : list period) (a : list cell)
  : res holder :=
  match T with
  | [] => Ok h
  | t :: T' =>
      match holder_get v h t with
      | Some _ => dispatch_tiles v n h T' a
      | None => let* h' := holder_set v n h t a in dispatch_tiles v n h' T' a
      end
  end.

Definition cell_sub (a b : cell) : res cell :=
  match a, b with
  | CInt x, CInt y => Ok (CInt (x - y))
  | CFloat x, CFloat y => Ok (CFloat (x - y)%Q)
  | _, _ => Err EUnmodelled
  end.

Fixpoint arr_sub (a b : list cell) : res (list cell) :=
  match a, b with
  | x :: a', y :: b' =>
      let* c := cell_sub x y in
      let* r := arr_sub a' b' in Ok (c :: r)
  | _, _ => Ok []
  end.

(* remaining_array / sub_periods_count, then the cast back to the dtype in _to_array *)
Definition cell_div (k : Z) (a : cell) : res cell :=
  match a with
  | CInt x => Ok (CInt (Z.quot x k))
  | CFloat x => Ok (CFloat (x / inject_Z k)%Q)
  | _ => Err EUnmodelled
  end.

Definition cell_is_zero (a : cell) : bool :=
  match a with
  | CInt x => x =? 0
  | CFloat x => Qnum x =? 0
  | _ => false
  end.

Fixpoint divide_count (v : variable) (h : holder) (T : list period) (rem : list cell) (cnt : Z)
  : res (list cell * Z) :=
  match T with
  | [] => Ok (rem, cnt)
  | t :: T' =>
      match holder_get v h t with
      | Some e => let* r := arr_sub rem e in divide_count v h T' r cnt
      | None => divide_count v h T' rem (cnt + 1)
      end
  end.

Definition divide_tiles (v : variable) (n : nat) (h : holder) (T : list period) (a : list cell)
  : res holder :=
  let* rc := divide_count v h T a 0 in
  if 0 <? snd rc then
    let* d := mapM (cell_div (snd rc)) (fst rc) in
    dispatch_tiles v n h T d
  else if forallb cell_is_zero (fst rc) then Ok h
  else Err EValue.

Definition numeric (v : variable) : bool :=
  match v_type v with TInt | TFloat => true | _ => false end.

(** Holder.set_input (variable not neutralized) *)
Definition holder_set_input (v : variable) (n : nat) (h : holder) (P : period) (a : list cell)
  : res holder :=
  if unit_eqb (p_unit P) Eternity && negb (eternal v) then Err EMismatch
  else
    match v_rule v with
    | RNone => holder_set v n h P a
    | RDispatch =>
        let* a' := check_len n a in
        if eternal v then Err EValue
        else let* T := walk_tiles v P in dispatch_tiles v n h T a'
    | RDivide =>
        let* a' := check_len n a in
        if eternal v then Err EValue
        else if negb (numeric v) then Err EUnmodelled
        else let* T := walk_tiles v P in divide_tiles v n h T a'
    end.

(** the test [variable.end is None or period.start.date <= variable.end] made before every
    set_input; [period.start.date] of the eternity period raises ValueError.
    [Ok None]: the input is dropped. *)
Definition set_input_unless_ended (v : variable) (n : nat) (h : holder) (P : period)
    (a : list cell) : res holder :=
  match v_end v with
  | None => holder_set_input v n h P a
  | Some e =>
      if unit_eqb (p_unit P) Eternity then Err EValue
      else if date_ltb e (p_start P) then Ok h
      else holder_set_input v n h P a
  end.

(** * The builder's state *)

Definition buffer := list (string * list (period * list cell)).

Record bstate := mkB {
  b_ids : list (string * list string);          (* entity_ids, by plural *)
  b_members : list (string * list Z);           (* memberships *)
  b_roles : list (string * list string);        (* roles (keys of flattened roles) *)
  b_buffer : buffer;                            (* input_buffer: variable -> canonical period -> array *)
  b_ax_ids : list (string * list string);       (* axes_entity_ids (counts follow) *)
  b_ax_members : list (string * list Z);
  b_ax_roles : list (string * list string)
}.

Definition b_empty : bstate := mkB [] [] [] [] [] [] [].

Definition set_ids st p l := mkB (aset p l (b_ids st)) (b_members st) (b_roles st) (b_buffer st)
                                 (b_ax_ids st) (b_ax_members st) (b_ax_roles st).
Definition set_members st p l := mkB (b_ids st) (aset p l (b_members st)) (b_roles st) (b_buffer st)
                                 (b_ax_ids st) (b_ax_members st) (b_ax_roles st).
Definition set_roles st p l := mkB (b_ids st) (b_members st) (aset p l (b_roles st)) (b_buffer st)
                                 (b_ax_ids st) (b_ax_members st) (b_ax_roles st).
Definition set_buffer st b := mkB (b_ids st) (b_members st) (b_roles st) b
                                 (b_ax_ids st) (b_ax_members st) (b_ax_roles st).

Definition ids_of (st : bstate) (p : string) : list string :=
  match aget p (b_ids st) with Some l => l | None => [] end.
(* get_ids / get_count / get_memberships / get_roles: the axes-expanded version when there is one *)
Definition get_ids (st : bstate) (p : string) : list string :=
  match aget p (b_ax_ids st) with Some l => l | None => ids_of st p end.
Definition get_count (st : bstate) (p : string) : nat := List.length (get_ids st p).
Definition get_memberships (st : bstate) (p : string) : list Z :=
  match aget p (b_ax_members st) with
  | Some l => l
  | None => match aget p (b_members st) with Some l => l | None => [] end
  end.
Definition get_roles (st : bstate) (p : string) : list string :=
  match aget p (b_ax_roles st) with
  | Some l => l
  | None => match aget p (b_roles st) with Some l => l | None => [] end
  end.

(* get_input: the lookup; the side effect (an empty entry for the variable) is in [buf_touch] *)
Definition buf_get (b : buffer) (vn : string) (p : period) : option (list cell) :=
  match aget vn b with Some h => hget h p | None => None end.
Definition buf_touch (b : buffer) (vn : string) : buffer :=
  match aget vn b with Some _ => b | None => b ++ [(vn, [])] end.
Definition buf_put (b : buffer) (vn : string) (p : period) (a : list cell) : buffer :=
  match aget vn b with
  | Some h => aset vn (hput h p a) b
  | None => b ++ [(vn, [(p, a)])]
  end.

(** SimulationBuilder.add_variable_value ([default_period] is never set by build_from_dict) *)
Definition add_variable_value (x : ext) (st : bstate) (e : entity) (v : variable)
    (idx : nat) (ktext : string) (value : json) : res bstate :=
  match value with
  | JNull => Ok st
  | _ =>
      let* p := canon_key (tok x ktext) in
      let b := buf_touch (b_buffer st) (v_name v) in
      let array := match buf_get b (v_name v) p with
                   | Some a => a
                   | None => default_array v (get_count st (e_plural e))
                   end in
      match check_set_value x v value with
      | Err EValue => Err ESituation
      | Err k => Err k
      | Ok c =>
          (* array[instance_index] = value : out of range is an IndexError *)
          if Nat.ltb idx (List.length array)
          then Ok (set_buffer st (buf_put b (v_name v) p (list_set idx c array)))
          else Err EIndex
      end
  end.

Fixpoint add_dated (x : ext) (st : bstate) (e : entity) (v : variable) (idx : nat)
    (l : list (string * json)) : res bstate :=
  match l with
  | [] => Ok st
  | (ktext, value) :: l' =>
      match parse_key (tok x ktext) with
      | Err _ => Err ESituation
      | Ok _ =>
          let* st' := add_variable_value x st e v idx ktext value in
          add_dated x st' e v idx l'
      end
  end.

(** SimulationBuilder.init_variable_values *)
Fixpoint init_variable_values (x : ext) (s : sys) (st : bstate) (e : entity)
    (fields : list (string * json)) (instance_id : string) : res bstate :=
  match fields with
  | [] => Ok st
  | (vn, vals) :: fields' =>
      match find_var vn (s_vars s) with
      | None => Err ESituation                      (* VariableNotFoundError -> situation error *)
      | Some v =>
          if negb (String.eqb (v_entity v) (e_key e)) then Err ESituation
          else
            match index_of instance_id (get_ids st (e_plural e)) with
            | None => Err EValue                    (* list.index: cannot happen *)
            | Some idx =>
                match vals with
                | JObj l =>
                    let* st' := add_dated x st e v idx l in
                    init_variable_values x s st' e fields' instance_id
                | _ => Err ESituation               (* no default period *)
                end
            end
      end
  end.

(** SimulationBuilder.add_person_entity *)
Fixpoint add_person_instances (x : ext) (s : sys) (st : bstate) (l : list (string * json))
  : res bstate :=
  match l with
  | [] => Ok st
  | (pid, JObj fields) :: l' =>
      let* st' := init_variable_values x s st (s_person s) fields pid in
      add_person_instances x s st' l'
  | _ :: _ => Err ESituation
  end.

Definition add_person_entity (x : ext) (s : sys) (st : bstate) (instances : list (string * json))
  : res bstate :=
  add_person_instances x s (set_ids st (e_plural (s_person s)) (map fst instances)) instances.

(** helpers.transform_to_strict_syntax *)
Definition strict_item (j : json) : json :=
  match j with
  | JInt z => JStr (string_of_Z z)
  | JBool b => JStr (if b then "True" else "False")
  | _ => j
  end.
Definition transform_to_strict_syntax (j : json) : json :=
  match j with
  | JStr _ | JInt _ | JBool _ => JArr [strict_item j]
  | JArr l => JArr (map strict_item l)
  | _ => j
  end.

(* roles_json: for every role of the entity (in the entity's order) the declared list *)
Definition roles_json (e : entity) (fields : list (string * json)) : list (role * json) :=
  map (fun r => (r, transform_to_strict_syntax
                      (match aget (role_name r) fields with Some j => j | None => JArr [] end)))
      (e_roles e).
Definition without_roles (e : entity) (fields : list (string * json)) : list (string * json) :=
  fold_left (fun f r => aremove (role_name r) f) (e_roles e) fields.

(* check_persons_to_allocate + discard, along one role's list *)
Fixpoint allocate_list (persons_ids : list string) (todo : list string) (l : list json)
  : res (list string) :=
  match l with
  | [] => Ok todo
  | JStr pid :: l' =>
      if negb (mem_str pid persons_ids) then Err ESituation        (* unknown person *)
      else if negb (mem_str pid todo) then Err ESituation          (* declared more than once *)
      else allocate_list persons_ids (filter (fun q => negb (String.eqb q pid)) todo) l'
  | _ :: _ => Err ESituation
  end.

Fixpoint allocate_roles (persons_ids : list string) (todo : list string) (rj : list (role * json))
  : res (list string) :=
  match rj with
  | [] => Ok todo
  | (_, JArr l) :: rj' =>
      let* todo' := allocate_list persons_ids todo l in
      allocate_roles persons_ids todo' rj'
  | _ :: _ => Err ESituation
  end.

Definition person_ids_of (l : list json) : list string :=
  flat_map (fun j => match j with JStr s => [s] | _ => [] end) l.

(* the person at [index_within_role] gets the sub-role of that rank, or the role itself *)
Definition role_at (r : role) (i : nat) : string :=
  match r_subroles r with [] => r_key r | l => nth i l (r_key r) end.

Fixpoint assign_members (persons_ids : list string) (r : role) (gidx : Z) (i : nat)
    (l : list string) (mr : list Z * list string) : list Z * list string :=
  match l with
  | [] => mr
  | pid :: l' =>
      let mr' := match index_of pid persons_ids with
                 | Some k => (list_set k gidx (fst mr), list_set k (role_at r i) (snd mr))
                 | None => mr
                 end in
      assign_members persons_ids r gidx (S i) l' mr'
  end.

Fixpoint assign_roles (persons_ids : list string) (gidx : Z) (rj : list (role * json))
    (mr : list Z * list string) : res (list Z * list string) :=
  match rj with
  | [] => Ok mr
  | (r, j) :: rj' =>
      let l := match j with JArr l => person_ids_of l | _ => [] end in
      match r_max r with
      | Some mx => if mx <? Z.of_nat (List.length l) then Err ESituation
                   else assign_roles persons_ids gidx rj' (assign_members persons_ids r gidx 0 l mr)
      | None => assign_roles persons_ids gidx rj' (assign_members persons_ids r gidx 0 l mr)
      end
  end.

(* the instance loop of add_group_entity; acc = (state, persons still to allocate, memberships, roles) *)
Fixpoint add_group_instances (x : ext) (s : sys) (e : entity) (persons_ids entity_ids : list string)
    (l : list (string * json)) (st : bstate) (todo : list string) (mr : list Z * list string)
  : res (bstate * list string * (list Z * list string)) :=
  match l with
  | [] => Ok (st, todo, mr)
  | (gid, JObj fields) :: l' =>
      let rj := roles_json e fields in
      let* todo' := allocate_roles persons_ids todo rj in
      match index_of gid entity_ids with
      | None => Err EValue
      | Some gi =>
          let* mr' := assign_roles persons_ids (Z.of_nat gi) rj mr in
          let* st' := init_variable_values x s st e (without_roles e fields) gid in
          add_group_instances x s e persons_ids entity_ids l' st' todo' mr'
      end
  | _ :: _ => Err ESituation
  end.

(* persons left out: a group of their own each, appended after the declared groups in the
   order of [own] *)
Fixpoint allocate_own (persons_ids : list string) (g : nat) (first : string) (own : list string)
    (mr : list Z * list string) : list Z * list string :=
  match own with
  | [] => mr
  | pid :: own' =>
      let mr' := match index_of pid persons_ids with
                 | Some k => (list_set k (Z.of_nat g) (fst mr), list_set k first (snd mr))
                 | None => mr
                 end in
      allocate_own persons_ids (S g) first own' mr'
  end.

(* the buffered arrays of this entity's variables are padded with defaults up to the new count *)
Definition pad_array (v : variable) (n : nat) (a : list cell) : list cell :=
  a ++ default_array v (n - List.length a).
Definition pad_buffer (s : sys) (e : entity) (n : nat) (b : buffer) : buffer :=
  map (fun vh => match find_var (fst vh) (s_vars s) with
                 | Some v => if String.eqb (v_entity v) (e_key e)
                             then (fst vh, map (fun pa => (fst pa, pad_array v n (snd pa))) (snd vh))
                             else vh
                 | None => vh
                 end) b.

(** SimulationBuilder.add_group_entity *)
Definition add_group_entity (x : ext) (s : sys) (st : bstate) (persons_ids : list string)
    (e : entity) (instances_json : json) : res bstate :=
  match instances_json with
  | JObj instances =>
      let entity_ids := map fst instances in
      let st0 := set_ids st (e_plural e) entity_ids in
      let n := List.length persons_ids in
      let* r := add_group_instances x s e persons_ids entity_ids instances st0 persons_ids
                  (repeat 0 n, repeat EmptyString n) in
      let '(st1, todo, mr) := r in
      match todo with
      | [] => Ok (set_roles (set_members st1 (e_plural e) (fst mr)) (e_plural e) (snd mr))
      | _ =>
          let own := set_order x todo in
          let entity_ids' := entity_ids ++ own in
          let mr' := allocate_own persons_ids (List.length entity_ids) (first_role e) own mr in
          let st2 := set_ids st1 (e_plural e) entity_ids' in
          let st3 := set_buffer st2 (pad_buffer s e (List.length entity_ids') (b_buffer st2)) in
          Ok (set_roles (set_members st3 (e_plural e) (fst mr')) (e_plural e) (snd mr'))
      end
  | _ => Err ESituation
  end.

(** SimulationBuilder.add_default_group_entity *)
Definition add_default_group_entity (st : bstate) (persons_ids : list string) (e : entity) : bstate :=
  let n := List.length persons_ids in
  set_roles (set_members (set_ids st (e_plural e) persons_ids) (e_plural e)
                         (map Z.of_nat (seq 0 n)))
            (e_plural e) (repeat (first_role e) n).

(** * Axes *)

Record axis := mkAxis {
  a_count : Z; a_name : string; a_min : Q; a_max : Q; a_index : Z; a_period : option string
}.

Definition json_num (j : json) : option Q :=
  match j with JInt z => Some (inject_Z z) | JFloat q => Some q | _ => None end.

Definition parse_axis (j : json) : res axis :=
  match j with
  | JObj l =>
      match aget "count" l, aget "name" l, aget "min" l, aget "max" l with
      | Some (JInt c), Some (JStr n), Some jmin, Some jmax =>
          match json_num jmin, json_num jmax with
          | Some mn, Some mx =>
              let* i := match aget "index" l with
                        | None => Ok 0
                        | Some (JInt i) => if 0 <=? i then Ok i else Err EUnmodelled
                        | Some _ => Err EUnmodelled
                        end in
              let* p := match aget "period" l with
                        | Some (JStr s) => Ok (Some s)
                        | _ => Err EUnmodelled
                        end in
              Ok (mkAxis c n mn mx i p)
          | _, _ => Err EUnmodelled
          end
      | _, _, _, _ => Err EUnmodelled
      end
  | _ => Err EUnmodelled
  end.

(* self.axes: axes[0] are the parallel axes, of every other entry only the first is kept *)
Definition parse_dims (axes : json) : res (list (list axis)) :=
  match axes with
  | JArr [] => Err EIndex
  | JArr (JArr [] :: _) => Err EIndex
  | JArr (JArr first :: rest) =>
      let* d0 := mapM parse_axis first in
      let* ds := mapM (fun j => match j with
                                | JArr (a :: _) => let* ax := parse_axis a in Ok [ax]
                                | JArr [] => Err EIndex
                                | _ => Err EUnmodelled
                                end) rest in
      Ok (d0 :: ds)
  | _ => Err EUnmodelled
  end.

Definition dim_count (d : list axis) : Z := match d with a :: _ => a_count a | [] => 0 end.
Definition cell_count (dims : list (list axis)) : Z := fold_left Z.mul (map dim_count dims) 1.

Definition suffix_ids (l : list string) : list string :=
  map (fun si => append (fst si) (string_of_nat (snd si))) (combine l (seq 0 (List.length l))).

(* repeated_memberships + repeat(arange(cell_count), len) * entity_count *)
Fixpoint tile_members (m : list Z) (cnt : Z) (k : nat) (cells : nat) : list Z :=
  match cells with
  | O => []
  | S c' => map (fun i => i + Z.of_nat k * cnt) m ++ tile_members m cnt (S k) c'
  end.

Fixpoint expand_entities (st : bstate) (person_plural : string) (cells : nat)
    (l : list (string * list string)) : bstate :=
  match l with
  | [] => st
  | (p, ids) :: l' =>
      let ax_ids := suffix_ids (repeat_list (get_ids st p) cells) in
      let ax_roles := repeat_list (get_roles st p) cells in
      let st1 := mkB (b_ids st) (b_members st) (b_roles st) (b_buffer st)
                     (aset p ax_ids (b_ax_ids st)) (b_ax_members st) (aset p ax_roles (b_ax_roles st)) in
      let st2 := if String.eqb p person_plural then st1
                 else mkB (b_ids st1) (b_members st1) (b_roles st1) (b_buffer st1) (b_ax_ids st1)
                          (aset p (tile_members (get_memberships st p) (Z.of_nat (List.length ids)) 0 cells)
                                (b_ax_members st1))
                          (b_ax_roles st1) in
      expand_entities st2 person_plural cells l'
  end.

(* the value that the float [q] becomes when stored into an array of the variable's dtype *)
Definition cell_of_q (v : variable) (q : Q) : res cell :=
  match v_type v with
  | TInt => cint32 (qtrunc q)
  | TEnum => cint16 (qtrunc q)
  | TFloat => Ok (CFloat q)
  | TBool => Ok (CBool (qnonzero q))
  | TDate | TStr => Err EUnmodelled
  end.

(* array[start::step] = values  (the numbers of slots and of values must agree) *)
Fixpoint set_strided (a : list cell) (pos : nat) (start step : nat) (vals : list cell)
  : res (list cell) :=
  match a with
  | [] => match vals with [] => Ok [] | _ => Err EValue end
  | c :: a' =>
      if Nat.leb start pos && Nat.eqb (Nat.modulo (pos - start) step) 0 then
        match vals with
        | [] => Err EValue
        | w :: vals' => let* r := set_strided a' (S pos) start step vals' in Ok (w :: r)
        end
      else let* r := set_strided a' (S pos) start step vals in Ok (c :: r)
  end.

(* numpy.linspace(min, max, num) *)
Definition linspace (mn mx : Q) (num : Z) : list Q :=
  if num =? 1 then [mn]
  else map (fun k => (mn + inject_Z k * (mx - mn) / inject_Z (num - 1))%Q) (zrange num).

(* numpy.meshgrid (indexing 'xy') of arange(c_d), reshaped to cell_count: the coordinate of
   cell k along dimension d.  Shape = (c1, c0, c2, ...). *)
Definition mesh_shape (counts : list Z) : list Z :=
  match counts with c0 :: c1 :: r => c1 :: c0 :: r | _ => counts end.
Fixpoint unravel (k : Z) (shape_rev : list Z) : list Z :=   (* least significant first *)
  match shape_rev with
  | [] => []
  | c :: r => (k mod c) :: unravel (k / c) r
  end.
Definition mesh_coord (counts : list Z) (d : nat) (k : Z) : Z :=
  let idx := rev (unravel k (rev (mesh_shape counts))) in   (* indices in shape order *)
  let pos := match d with O => 1%nat | S O => O | _ => d end in
  nth pos idx 0.

(* one axis of one dimension: the values of the cells, then the strided store *)
Definition apply_axis (x : ext) (s : sys) (st : bstate) (step : nat) (cells : nat)
    (vals : list Q) (a : axis) : res bstate :=
  let* ktext := match a_period a with Some t => Ok t | None => Err EUnmodelled end in
  let* p := canon_key (tok x ktext) in
  match find_var (a_name a) (s_vars s) with
  | None => Err EOther
  | Some v =>
      let b := buf_touch (b_buffer st) (a_name a) in
      let array := match buf_get b (a_name a) p with
                   | None => default_array v (cells * step)
                   | Some arr => if Nat.eqb (List.length arr) step then repeat_list arr cells else arr
                   end in
      let* cs := mapM (cell_of_q v) vals in
      if Nat.eqb step 0 then Err EValue
      else
        let* array' := set_strided array 0 (Z.to_nat (a_index a)) step cs in
        Ok (set_buffer st (buf_put b (a_name a) p array'))
  end.

Fixpoint apply_axes (x : ext) (s : sys) (st : bstate) (step cells : nat)
    (valsf : axis -> list Q) (l : list axis) : res bstate :=
  match l with
  | [] => Ok st
  | a :: l' =>
      let* st' := apply_axis x s st step cells (valsf a) a in
      apply_axes x s st' step cells valsf l'
  end.

Definition axis_entity_step (s : sys) (st : bstate) (d : list axis) : res nat :=
  match d with
  | [] => Err EIndex
  | a :: _ =>
      match find_var (a_name a) (s_vars s) with
      | None => Err ENotFound                          (* variable_entities[name] *)
      | Some v =>
          match find_entity_by e_key (v_entity v) (entities s) with
          | Some e => Ok (List.length (ids_of st (e_plural e)))
          | None => Err ENotFound
          end
      end
  end.

Fixpoint apply_dims (x : ext) (s : sys) (st : bstate) (counts : list Z) (cells : nat) (d : nat)
    (dims : list (list axis)) : res bstate :=
  match dims with
  | [] => Ok st
  | dim :: dims' =>
      let cnt := dim_count dim in
      let* step := axis_entity_step s st dim in
      if cnt <=? 1 then Err EUnmodelled
      else
        let valsf (a : axis) :=
          map (fun k => (a_min a + inject_Z (mesh_coord counts d k) * (a_max a - a_min a)
                                   / inject_Z (cnt - 1))%Q) (zrange (Z.of_nat cells)) in
        let* st' := apply_axes x s st step cells valsf dim in
        apply_dims x s st' counts cells (S d) dims'
  end.

(** SimulationBuilder.expand_axes *)
Definition expand_axes (x : ext) (s : sys) (st : bstate) (dims : list (list axis)) : res bstate :=
  let cc := cell_count dims in
  if cc <=? 0 then Err EUnmodelled
  else
    let cells := Z.to_nat cc in
    let st1 := expand_entities st (e_plural (s_person s)) cells (b_ids st) in
    match dims with
    | [dim] =>
        let cnt := dim_count dim in
        let* step := axis_entity_step s st1 dim in
        apply_axes x s st1 step (Z.to_nat cnt) (fun a => linspace (a_min a) (a_max a) cnt) dim
    | _ => apply_dims x s st1 (map dim_count dims) cells 0 dims
    end.

(** * The simulation that is built *)

Record population := mkPop {
  p_entity : string;                              (* key *)
  p_ids : list string;
  p_members : list Z;                             (* members_entity_id (groups) *)
  p_mroles : list string;                         (* members_role, as role keys (groups) *)
  p_holders : list (string * holder)              (* variable -> known periods -> array *)
}.

Definition simulation := list population.

(* sorted(periods, key = (unit_weight, size)) : stable insertion sort *)
Definition period_key_leb (a b : period) : bool :=
  (unit_weight (p_unit a) <? unit_weight (p_unit b))
  || ((unit_weight (p_unit a) =? unit_weight (p_unit b)) && (p_size a <=? p_size b)).

Fixpoint insert_sorted {A} (pa : period * A) (l : list (period * A)) : list (period * A) :=
  match l with
  | [] => [pa]
  | qb :: l' => if period_key_leb (fst qb) (fst pa) then qb :: insert_sorted pa l'
                else pa :: l
  end.
Definition sort_periods {A} (l : list (period * A)) : list (period * A) :=
  fold_left (fun acc pa => insert_sorted pa acc) l [].

Fixpoint flush_periods (v : variable) (count : nat) (h : holder) (l : list (period * list cell))
  : res holder :=
  match l with
  | [] => Ok h
  | (p, values) :: l' =>
      if Nat.eqb (List.length values) 0 then Err EOther
      else
        let array := repeat_list values (count / List.length values) in
        let* h' := set_input_unless_ended v count h p array in
        flush_periods v count h' l'
  end.

(* the loop over input_buffer of finalize_variables_init, for one population *)
Fixpoint flush_buffer (s : sys) (e : entity) (count : nat) (b : buffer)
    (hs : list (string * holder)) : res (list (string * holder)) :=
  match b with
  | [] => Ok hs
  | (vn, entries) :: b' =>
      match find_var vn (s_vars s) with
      | None => flush_buffer s e count b' hs
      | Some v =>
          if negb (String.eqb (v_entity v) (e_key e)) then flush_buffer s e count b' hs
          else
            let h0 := match aget vn hs with Some h => h | None => [] end in
            match flush_periods v count h0 (sort_periods entries) with
            | Err EMismatch => Err ESituation
            | Err k => Err k
            | Ok h => flush_buffer s e count b' (aset vn h hs)
            end
      end
  end.

(** SimulationBuilder.finalize_variables_init *)
Definition finalize_population (s : sys) (st : bstate) (e : entity) : res population :=
  let p := e_plural e in
  let* hs := flush_buffer s e (get_count st p) (b_buffer st) [] in
  Ok (mkPop (e_key e) (get_ids st p) (get_memberships st p) (get_roles st p) hs).

Fixpoint add_groups (x : ext) (s : sys) (st : bstate) (persons_ids : list string)
    (params : list (string * json)) (has_axes : bool) (gs : list entity) : res bstate :=
  match gs with
  | [] => Ok st
  | e :: gs' =>
      let* st' :=
        match aget (e_plural e) params with
        | Some JNull | None =>
            if has_axes then Err ESituation else Ok (add_default_group_entity st persons_ids e)
        | Some j => add_group_entity x s st persons_ids e j
        end in
      add_groups x s st' persons_ids params has_axes gs'
  end.

Definition truthy (j : json) : bool :=
  match j with
  | JNull => false
  | JBool b => b
  | JInt z => negb (z =? 0)
  | JFloat q => qnonzero q
  | JStr s => negb (String.eqb s "")
  | JArr l => match l with [] => false | _ => true end
  | JObj l => match l with [] => false | _ => true end
  end.

(** SimulationBuilder.build_from_entities *)
Definition build_from_entities (x : ext) (s : sys) (doc : list (string * json)) : res simulation :=
  let params := aremove "axes" doc in
  let axes := match aget "axes" doc with Some JNull | None => None | Some j => Some j end in
  if existsb (fun kv => negb (mem_str (fst kv) (plurals s))) params then Err ESituation
  else
    let pp := e_plural (s_person s) in
    match aget pp params with
    | Some (JObj (i :: instances)) =>
        let* st1 := add_person_entity x s b_empty (i :: instances) in
        let persons_ids := get_ids st1 pp in
        let* st2 := add_groups x s st1 persons_ids params
                      (match axes with Some _ => true | None => false end) (s_groups s) in
        let* st3 := match axes with
                    | None => Ok st2
                    | Some j => let* dims := parse_dims j in expand_axes x s st2 dims
                    end in
        mapM (finalize_population s st3) (entities s)
    | Some j => Err ESituation      (* falsy: "no person found"; otherwise: must be an Object *)
    | None => Err ESituation
    end.

(** SimulationBuilder.explicit_singular_entities *)
Definition explicit_singular_entities (s : sys) (doc : list (string * json))
  : list (string * json) :=
  let kept := filter (fun kv => negb (mem_str (fst kv) (singulars s))) doc in
  fold_left (fun acc e =>
               match aget (e_key e) doc with
               | Some j => aset (e_plural e) (JObj [(e_key e, j)]) acc
               | None => acc
               end) (entities s) kept.

(** * Variables-only situations *)

(* _person_count *)
Definition json_len (j : json) : nat :=
  match j with
  | JArr l => List.length l
  | JObj l => List.length l
  | _ => 1%nat
  end.
Definition person_count (doc : list (string * json)) : nat :=
  match doc with
  | [] => 1%nat
  | (_, JObj []) :: _ => 1%nat
  | (_, JObj ((_, v) :: _)) :: _ => json_len v
  | (_, v) :: _ => json_len v
  end.

Inductive jkind := KdInt | KdFloat | KdBool | KdStr | KdOther.
Definition kind_of (j : json) : jkind :=
  match j with JInt _ => KdInt | JFloat _ => KdFloat | JBool _ => KdBool | JStr _ => KdStr
          | _ => KdOther end.
Definition jkind_eqb (a b : jkind) : bool :=
  match a, b with
  | KdInt, KdInt | KdFloat, KdFloat | KdBool, KdBool | KdStr, KdStr | KdOther, KdOther => true
  | _, _ => false
  end.

(* numpy.asarray(value) then Enum.encode / astype(dtype), element by element (homogeneous
   arrays only); [scalar]: the value was a bare text, which Holder.set_input evaluates first *)
Definition convert_elem (x : ext) (v : variable) (scalar : bool) (j : json) : res cell :=
  match v_type v, j with
  | TInt, JInt z => cint32 z
  | TInt, JFloat q => cint32 (qtrunc q)
  | TInt, JBool b => Ok (CInt (zbool b))
  | TInt, JStr s =>
      if scalar then match evalx x s with Some q => cint32 (qtrunc q) | None => Err EValue end
      else Err EUnmodelled
  | TFloat, JInt z => Ok (CFloat (inject_Z z))
  | TFloat, JFloat q => Ok (CFloat q)
  | TFloat, JBool b => Ok (CFloat (inject_Z (zbool b)))
  | TFloat, JStr s =>
      if scalar then match evalx x s with Some q => Ok (CFloat q) | None => Err EValue end
      else Err EUnmodelled
  | TBool, JInt z => Ok (CBool (negb (z =? 0)))
  | TBool, JFloat q => Ok (CBool (qnonzero q))
  | TBool, JBool b => Ok (CBool b)
  | TEnum, JStr s =>
      match index_of s (v_enum v) with Some i => Ok (CInt (Z.of_nat i)) | None => Err EIndex end
  | TEnum, JInt z =>
      if (0 <=? z) && (z <? Z.of_nat (List.length (v_enum v))) then Ok (CInt z) else Err EIndex
  | TEnum, JFloat _ => Err EType
  | TEnum, JBool _ => Err EType
  | TDate, JStr s => match date_of_text x s with Some z => Ok (CInt z) | None => Err EValue end
  | TDate, JInt z => Ok (CInt z)
  | TDate, JBool b => Ok (CInt (zbool b))
  | TDate, JFloat q => Ok (CInt (qtrunc q))
  | TStr, JStr s => Ok (CStr s)
  | TStr, JInt z => Ok (CInt z)
  | TStr, JFloat q => Ok (CFloat q)
  | TStr, JBool b => Ok (CBool b)
  | _, _ => Err EUnmodelled
  end.

Definition convert_value (x : ext) (v : variable) (j : json) : res (list cell) :=
  match j with
  | JArr [] => Ok []
  | JArr (j0 :: l) =>
      if forallb (fun j' => jkind_eqb (kind_of j') (kind_of j0)) l
      then mapM (convert_elem x v false) (j0 :: l)
      else Err EUnmodelled
  | _ => let* c := convert_elem x v true j in Ok [c]
  end.

(** Simulation.set_input as called by _BuildFromVariables.add_dated_values *)
Definition sim_set_input (x : ext) (s : sys) (count : nat) (hs : list (string * holder))
    (vn : string) (ktext : string) (value : json) : res (list (string * holder)) :=
  match find_var vn (s_vars s) with
  | None => Err ENotFound
  | Some v =>
      let* p := parse_key (tok x ktext) in
      let h0 := match aget vn hs with Some h => h | None => [] end in
      let skip := match v_end v with
                  | None => Ok false
                  | Some e => if unit_eqb (p_unit p) Eternity then Err EValue
                              else Ok (date_ltb e (p_start p))
                  end in
      let* sk := skip in
      if sk then Ok hs
      else
        if unit_eqb (p_unit p) Eternity && negb (eternal v) then Err EMismatch
        else
          let* a := convert_value x v value in
          let* h := holder_set_input v count h0 p a in
          Ok (aset vn h hs)
  end.

Fixpoint set_dated (x : ext) (s : sys) (count : nat) (hs : list (string * holder)) (vn : string)
    (l : list (period * (string * json))) : res (list (string * holder)) :=
  match l with
  | [] => Ok hs
  | (_, (ktext, value)) :: l' =>
      let* hs' := sim_set_input x s count hs vn ktext value in
      set_dated x s count hs' vn l'
  end.

(* add_dated_values: per variable, sorted by (unit weight, size) of the parsed key *)
Fixpoint add_dated_values (x : ext) (s : sys) (count : nat) (hs : list (string * holder))
    (doc : list (string * json)) : res (list (string * holder)) :=
  match doc with
  | [] => Ok hs
  | (vn, JObj l) :: doc' =>
      let* keyed := mapM (fun kv => let* p := parse_key (tok x (fst kv)) in Ok (p, kv)) l in
      let* hs' := set_dated x s count hs vn (sort_periods keyed) in
      add_dated_values x s count hs' doc'
  | _ :: doc' => add_dated_values x s count hs doc'
  end.

(* add_undated_values: no default period *)
Definition has_undated (doc : list (string * json)) : bool :=
  existsb (fun kv => match snd kv with JObj _ => false | _ => true end) doc.

Definition default_population (count : nat) (hs : list (string * holder)) (s : sys) (e : entity)
  : population :=
  let ids := map string_of_nat (seq 0 count) in
  let hs_e := filter (fun vh => match find_var (fst vh) (s_vars s) with
                                | Some v => String.eqb (v_entity v) (e_key e)
                                | None => false
                                end) hs in
  if String.eqb (e_key e) (e_key (s_person s)) then mkPop (e_key e) ids [] [] hs_e
  else mkPop (e_key e) ids (map Z.of_nat (seq 0 count)) (repeat (first_role e) count) hs_e.

(** SimulationBuilder.build_from_variables *)
Definition build_from_variables (x : ext) (s : sys) (doc : list (string * json)) : res simulation :=
  let count := person_count doc in
  let* hs := add_dated_values x s count [] doc in
  if has_undated doc then Err ESituation
  else Ok (map (default_population count hs s) (entities s)).

(** SimulationBuilder.build_default_simulation *)
Definition build_default_simulation (s : sys) (count : nat) : simulation :=
  map (default_population count [] s) (entities s).

(** SimulationBuilder.build_from_dict *)
Definition build_from_dict (x : ext) (s : sys) (input : json) : res simulation :=
  match input with
  | JObj doc =>
      let keys := map fst doc in
      if existsb (fun k => mem_str k (singulars s)) keys then
        build_from_entities x s (explicit_singular_entities s doc)
      else if negb (Nat.eqb (List.length doc) 0)
              && forallb (fun k => String.eqb k "axes" || mem_str k (plurals s)) keys then
        build_from_entities x s doc
      else if Nat.eqb (List.length doc) 0
              || existsb (fun k => match find_var k (s_vars s) with Some _ => true | None => false end)
                         keys then
        build_from_variables x s doc
      else build_from_entities x s doc
  | _ => Err EUnmodelled
  end.
