(** [Engine.set_input] (Simulation.set_input -> Holder.set_input -> Holder._set for a variable
    without a set_input rule) re-assembled from the regenerated pieces of
    coq/gen/GuardsInput.v.  props/GuardsTie.v and props/C18.v say that it is
    [Engine.set_input].  No proofs here. *)
From Coq Require Import ZArith List Bool.
From Verif Require Import Base Cal Tables Period Engine GuardsTypes GuardsInput.
Import ListNotations.
Open Scope Z_scope.

Definition src_engine_set_input (sy : sys) (pp : popu) (s : st) (v : nat) (p : period) (a : val)
  : st * answer :=
  match nth_error (vars sy) v with
  | None => (s, AErr ENotFound)
  | Some x =>
      if gen_sim_set_input_ignored
           (match v_end x with Some _ => true | None => false end)
           (match v_end x with Some e => validb (p_start p) && date_ltb e (p_start p) | None => false end)
      then (s, ANone)
      else match gen_holder_set_input (p_unit p) (gen_holder_eternal (v_unit x)) (v_neutral x) false with
           | SOMismatch => (s, AErr EMismatch)
           | SOIgnored | SORule => (s, ANone)
           | SOSet =>
               if gen_to_array_rejects (Z.of_nat (length a)) (Z.of_nat (count_of pp (v_ent x)))
               then (s, AErr EValue)
               else match gen_holder_set_guard (gen_holder_eternal (v_unit x)) false
                                               (v_unit x) (p_unit p) (p_size p) with
                    | SGValueError => (s, AErr EValue)
                    | SGMismatch => (s, AErr EMismatch)
                    | SGOk => (put (v, norm x p) (cast x a) s, ANone)
                    end
           end
  end.
