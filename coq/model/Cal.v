(** Proleptic Gregorian and ISO-week calendar: executable model.
    Models what [pendulum.Date] / [datetime.date] compute for the calls made by
    openfisca_core.periods (instant_.py, period_.py).  No proofs in this file. *)
From Coq Require Import ZArith List Bool.
Import ListNotations.
Open Scope Z_scope.

Definition date := (Z * Z * Z)%type.   (* (year, month, day) *)

Definition leap (y : Z) : bool :=
  ((y mod 4 =? 0) && negb (y mod 100 =? 0)) || (y mod 400 =? 0).

(* days in month *)
Definition dim (y m : Z) : Z :=
  if m =? 2 then (if leap y then 29 else 28)
  else if (m =? 4) || (m =? 6) || (m =? 9) || (m =? 11) then 30 else 31.

(* days before month m in a non-leap year *)
Definition cum (m : Z) : Z :=
  if m =? 1 then 0 else if m =? 2 then 31 else if m =? 3 then 59
  else if m =? 4 then 90 else if m =? 5 then 120 else if m =? 6 then 151
  else if m =? 7 then 181 else if m =? 8 then 212 else if m =? 9 then 243
  else if m =? 10 then 273 else if m =? 11 then 304 else 334.

(* days before 1 January of year y (ordinal of 0001-01-01 is 1) *)
Definition ybase (y : Z) : Z := 365 * (y - 1) + (y - 1) / 4 - (y - 1) / 100 + (y - 1) / 400.

Definition ord (c : date) : Z :=
  let '(y, m, d) := c in
  ybase y + cum m + (if (2 <? m) && leap y then 1 else 0) + d.

Definition validb (c : date) : bool :=
  let '(y, m, d) := c in
  (1 <=? y) && (1 <=? m) && (m <=? 12) && (1 <=? d) && (d <=? dim y m).

Definition valid (c : date) : Prop := validb c = true.

(* month of a 0-based day-of-year *)
Definition month_of_doy (lp : bool) (doy : Z) : Z :=
  let l := if lp then 1 else 0 in
  if doy <? 31 then 1 else if doy <? 59 + l then 2 else if doy <? 90 + l then 3
  else if doy <? 120 + l then 4 else if doy <? 151 + l then 5 else if doy <? 181 + l then 6
  else if doy <? 212 + l then 7 else if doy <? 243 + l then 8 else if doy <? 273 + l then 9
  else if doy <? 304 + l then 10 else if doy <? 334 + l then 11 else 12.

(* inverse of [ord] (after CPython's _ord2ymd) *)
Definition of_ord (n : Z) : date :=
  let n0 := n - 1 in
  let n400 := n0 / 146097 in
  let r := n0 mod 146097 in
  let n100 := Z.min (r / 36524) 3 in
  let r2 := r - n100 * 36524 in
  let n4 := r2 / 1461 in
  let r3 := r2 mod 1461 in
  let n1 := Z.min (r3 / 365) 3 in
  let doy := r3 - n1 * 365 in
  let y := 400 * n400 + 100 * n100 + 4 * n4 + n1 + 1 in
  let m := month_of_doy (leap y) doy in
  (y, m, doy - cum m - (if (2 <? m) && leap y then 1 else 0) + 1).

Definition add_days (c : date) (n : Z) : date := of_ord (ord c + n).

(* pendulum add(months=n): total-month arithmetic, day clipped to month length *)
Definition add_months (c : date) (n : Z) : date :=
  let '(y, m, d) := c in
  let t := y * 12 + (m - 1) + n in
  let y' := t / 12 in
  let m' := t mod 12 + 1 in
  (y', m', Z.min d (dim y' m')).

Definition add_years (c : date) (n : Z) : date := add_months c (12 * n).

(* ISO weekday 1..7 (Monday = 1); ordinal 1 (0001-01-01) is a Monday *)
Definition isoweekday (c : date) : Z := (ord c - 1) mod 7 + 1.

Definition start_of_week (c : date) : date := add_days c (1 - isoweekday c).
Definition end_of_week (c : date) : date := add_days c (7 - isoweekday c).

(* ordinal of the Monday of ISO week 1 of ISO year y: the week containing 4 January *)
Definition iso_week1_monday (y : Z) : Z :=
  let jan4 := ord (y, 1, 4) in jan4 - ((jan4 - 1) mod 7).

(* (iso year, iso week, iso weekday), as datetime.date.isocalendar *)
Definition isocalendar (c : date) : Z * Z * Z :=
  let '(y, _, _) := c in
  let o := ord c in
  let iy := if o <? iso_week1_monday y then y - 1
            else if iso_week1_monday (y + 1) <=? o then y + 1 else y in
  let w1 := iso_week1_monday iy in
  (iy, (o - w1) / 7 + 1, isoweekday c).

Definition weeks_in_iso_year (y : Z) : Z :=
  (iso_week1_monday (y + 1) - iso_week1_monday y) / 7.

(* date of ISO (year, week, weekday) — no validity check here *)
Definition of_isocalendar (iy w wd : Z) : date :=
  of_ord (iso_week1_monday iy + (w - 1) * 7 + (wd - 1)).

Definition date_eqb (a b : date) : bool :=
  let '(y1, m1, d1) := a in let '(y2, m2, d2) := b in
  (y1 =? y2) && (m1 =? m2) && (d1 =? d2).

(* lexicographic order on tuples, as Python compares Instants *)
Definition date_leb (a b : date) : bool :=
  let '(y1, m1, d1) := a in let '(y2, m2, d2) := b in
  (y1 <? y2) || ((y1 =? y2) && ((m1 <? m2) || ((m1 =? m2) && (d1 <=? d2)))).
Definition date_ltb (a b : date) : bool := date_leb a b && negb (date_eqb a b).
Definition date_max (a b : date) : date := if date_leb a b then b else a.
Definition date_min (a b : date) : date := if date_leb a b then a else b.
