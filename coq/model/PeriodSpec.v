(** Specification vocabulary for C04 (no proofs, no model code): what a period
    *denotes* under the calendar, and the side conditions of the C04 theorems.
    Everything here is defined from the model functions of [Cal] / [Period]. *)
From Coq Require Import ZArith List Bool.
From Verif Require Import Base Cal Tables Period.
Import ListNotations.
Open Scope Z_scope.

(** ** Calendar *)

(** the day after [c], written directly from the Gregorian rules (independent of [ord]) *)
Definition next_day (c : date) : date :=
  let '(y, m, d) := c in
  if d <? dim y m then (y, m, d + 1)
  else if m <? 12 then (y, m + 1, 1)
  else (y + 1, 1, 1).

(** ** Denotation of a period: a set of day ordinals *)

(** [start ⊕ size·unit]: the first instant after the period
    ([end_excl_offset]: it is [instant_offset (p_start p) (p_size p) (p_unit p)]) *)
Definition end_excl (p : period) : date :=
  let '(u, s, n) := p in
  match u with
  | Year => add_years s n
  | Month => add_months s n
  | Week => add_days s (7 * n)
  | Day | Weekday => add_days s n
  | Eternity => s
  end.

Definition first_ord (p : period) : Z := ord (p_start p).
Definition last_ord (p : period) : Z := ord (end_excl p) - 1.

(** day number [d] (an ordinal, [ord] of a date) belongs to [p] *)
Definition day_in (p : period) (d : Z) : Prop := first_ord p <= d <= last_ord p.

(** well-formed: a dated unit, a valid start (year >= 1), a positive size *)
Definition wf (p : period) : Prop :=
  p_unit p <> Eternity /\ valid (p_start p) /\ 1 <= p_size p.

(** ** Tiling *)

(** [tiles l lo hi]: the periods of [l], in order, are non-empty, each starts the day
    after the previous one ends, the first starts at [lo], the last ends at [hi]. *)
Fixpoint tiles (l : list period) (lo hi : Z) : Prop :=
  match l with
  | [] => lo = hi + 1
  | q :: l' => first_ord q = lo /\ lo <= last_ord q /\ tiles l' (last_ord q + 1) hi
  end.

(** alignment of a start date to a unit *)
Definition aligned (u : unit_t) (s : date) : Prop :=
  let '(_, m, d) := s in
  match u with
  | Year => m = 1 /\ d = 1
  | Month => d = 1
  | Week => isoweekday s = 1
  | _ => True
  end.

(** the two calendar families: day < month < year and weekday < week;
    [same_family pu u]: [u] is an equal or smaller unit of [pu]'s family *)
Definition same_family (pu u : unit_t) : bool :=
  match pu, u with
  | Year, Year | Year, Month | Year, Day | Month, Month | Month, Day | Day, Day
  | Week, Week | Week, Weekday | Weekday, Weekday => true
  | _, _ => false
  end.

(** number of [u]-pieces of [p] (same family) *)
Definition count_in (p : period) (u : unit_t) : Z :=
  match p_unit p, u with
  | Year, Month => 12 * p_size p
  | _, Day | _, Weekday => days p
  | _, _ => p_size p
  end.

(** the model's [size_in_<unit>] selected by unit *)
Definition size_in (u : unit_t) (p : period) : res Z :=
  match u with
  | Year => size_in_years p
  | Month => size_in_months p
  | Week => size_in_weeks p
  | Day => size_in_days p
  | Weekday => size_in_weekdays p
  | Eternity => Err EValue
  end.

(** ** Offsets *)

(** the unit [Period.offset] shifts by: the given one, else the period's own *)
Definition eff_unit (p : period) (u : option unit_t) : unit_t :=
  match u with Some u' => u' | None => p_unit p end.

(** shifting [s] by [k] months does not clip the day-of-month *)
Definition no_clip (s : date) (k : Z) : Prop :=
  let '(y, m, d) := s in
  let t := y * 12 + (m - 1) + k in
  d <= dim (t / 12) (t mod 12 + 1).

(** number of months / days that [n] units of [u] stand for *)
Definition months_of (u : unit_t) (n : Z) : Z := match u with Year => 12 * n | _ => n end.
Definition days_of (u : unit_t) (n : Z) : Z := match u with Week => 7 * n | _ => n end.

Definition opt_ord (o : option date) (dflt : Z) : Z := match o with Some d => ord d | None => dflt end.
Definition opt_valid (o : option date) : Prop := match o with Some d => valid d | None => True end.
