(** The holder's reading and writing re-assembled from the regenerated decisions
    (coq/gen/GuardsHolder.v, from Holder.get_array / put_in_cache / _set / delete_arrays and the
    construction of the storages in holders/holder.py; coq/gen/GuardsStorage.v for the two
    storages), against the engine model, whose [cache] is the union of the memory storage and
    the disk storage of every holder.

    The abstraction.  A holder has a memory dictionary [mem] and, when [has_disk], a disk
    dictionary [disk].  The model's cache [c] *merges* them ([merged]): a key is looked up in
    the memory first, then on disk.  The regenerated selections only say WHERE a value is read
    ([gen_holder_get_array]) or written ([gen_holder_store_choice]); whichever it is, the key is
    the one of coq/gen/GuardsStorage.v, the same for both storages.  No proofs here. *)
From Coq Require Import ZArith List Bool.
From Verif Require Import Base Cal Tables Period Engine GuardsTypes GuardsStorage GuardsStorageSem GuardsHolder.
Import ListNotations.
Open Scope Z_scope.

Definition is_some {A} (o : option A) : bool := match o with Some _ => true | None => false end.

(** the model's cache is the memory storage laid over the disk storage *)
Definition merged (c mem disk : list (key * val)) (has_disk : bool) : Prop :=
  forall k, lookup k c = match lookup k mem with
                         | Some a => Some a
                         | None => if has_disk then lookup k disk else None
                         end.

Definition memory_key (x : var) (p : period) : period :=
  apply_key (gen_memory_get_key (holder_eternal x) false) p.
Definition disk_key (x : var) (p : period) : period :=
  apply_key (gen_disk_get_key (holder_eternal x) false) p.

(** Holder.get_array over the two dictionaries *)
Definition src_get_array (pp : popu) (x : var) (mem disk : list (key * val)) (has_disk : bool)
           (v : nat) (p : period) : option val :=
  match gen_holder_get_array (v_neutral x) (is_some (lookup (v, memory_key x p) mem)) has_disk with
  | GDefault => Some (default_array pp x)
  | GMemory => lookup (v, memory_key x p) mem
  | GDisk => lookup (v, disk_key x p) disk
  | GNothing => None
  end.

(** the key under which _set stores, in the storage it chooses *)
Definition store_key (c : store_choice) (x : var) (p : period) : period :=
  match c with
  | StMemory => apply_key (gen_memory_put_key (holder_eternal x) false) p
  | StDisk => apply_key (gen_disk_put_key (holder_eternal x) false) p
  end.

(** Holder.put_in_cache on the merged cache; [v_nostore x] is "dropped, or black-listed under
    opt_out_cache" (harness/rules.py) *)
Definition src_put_in_cache (dns oo ne inb : bool) (x : var) (v : nat) (p : period) (a : val) (s : st) : st :=
  match gen_holder_put_in_cache dns oo ne inb with
  | PSkip => s
  | PSet => put (v, src_put_period x p) a s
  end.
