(** Executable model of the set-input rules of openfisca-core:
      openfisca_core/holders/helpers.py :: set_input_dispatch_by_period, set_input_divide_by_period
      openfisca_core/holders/holder.py  :: Holder.set_input, Holder._to_array, Holder._set,
                                           Holder.get_array, Holder.delete_arrays (one dictionary
                                           period |-> array, whichever storage holds it)
      openfisca_core/data_storage/in_memory_storage.py :: get / put (eternal key folding)
      openfisca_core/simulations/simulation.py :: Simulation.set_input (the [end] short-cut),
                                           calculate_add of an input variable (sum over sub-periods)
    Written after the code that is in /repo now (the two [fix:] commits of helpers.py are in).
    A holder is an association list period |-> array in insertion order (a Python dict);
    arrays are lists of exact rationals (float rounding is not modelled, the int cast is).
    No proofs here. *)
From Coq Require Import ZArith QArith List Bool.
From Verif Require Import Base Cal Tables Period.
Import ListNotations.
Open Scope Z_scope.
Open Scope res_scope.

Inductive vtype := VFloat | VInt.
Inductive rule := RNone | RDivide | RDispatch.

(** What the routing looks at in a Variable: value type, definition period, the
    [set_input] attribute, the [end] attribute. *)
Record var := mkVar { v_type : vtype; v_def : unit_t; v_rule : rule; v_end : option date }.

Definition arr := list Q.
Definition holder := list (period * arr).

(** numpy [astype(int32)] of a float: truncation toward zero.  float32: identity
    (rounding is outside the model, the harness only sends exactly representable values). *)
Definition qtrunc (q : Q) : Q := inject_Z (Z.quot (Qnum q) (Zpos (Qden q))).
Definition cast (t : vtype) (q : Q) : Q := match t with VFloat => q | VInt => qtrunc q end.

(** dict lookup / dict store (a stored key keeps its position) *)
Fixpoint get (h : holder) (p : period) : option arr :=
  match h with
  | [] => None
  | (k, v) :: h' => if period_eqb k p then Some v else get h' p
  end.

Fixpoint put (h : holder) (p : period) (v : arr) : holder :=
  match h with
  | [] => [(p, v)]
  | (k, w) :: h' => if period_eqb k p then (k, v) :: h' else (k, w) :: put h' p v
  end.

Definition eternal (v : var) : bool := unit_eqb (v_def v) Eternity.

(** InMemoryStorage.get / put: an eternal storage folds every period to ETERNITY.
    Holder.get_array (not neutralized, no disk storage). *)
Definition storage_key (v : var) (p : period) : period :=
  if eternal v then eternity_period else p.
Definition holder_get (v : var) (h : holder) (p : period) : option arr := get h (storage_key v p).

(** Holder._to_array: length check against the population count, cast to the dtype.
    (A 0-dim input is a list of length 1 here.) *)
Definition to_array (v : var) (n : Z) (a : arr) : res arr :=
  if Z.of_nat (length a) =? n then Ok (map (cast (v_type v)) a) else Err EValue.

(** Holder._set *)
Definition _set (v : var) (n : Z) (h : holder) (p : period) (a : arr) : res holder :=
  let* a' := to_array v n a in
  if eternal v then Ok (put h (storage_key v p) a')
  else if negb (unit_eqb (v_def v) (p_unit p)) || (1 <? p_size p) then Err EMismatch
  else Ok (put h (storage_key v p) a').

(** The walk shared by both helpers:
      sub_period = Period((definition_period, period.start, 1))
      while sub_period.start < after_instant: ...; sub_period = sub_period.offset(1)
    The sequence of sub-periods does not depend on the holder, so it is computed first.
    Fuel: every step moves the start forward by at least one day. *)
Fixpoint walk (fuel : nat) (sp : period) (after : date) : res (list period) :=
  match fuel with
  | O => Err EFuel
  | S f =>
      if date_ltb (p_start sp) after then
        let* nx := offset sp 1 None in
        let* r := walk f nx after in
        Ok (sp :: r)
      else Ok []
  end.

Definition walk_tiles (v : var) (P : period) : res (list period) :=
  let* after := instant_offset (p_start P) (p_size P) (p_unit P) in
  walk (S (Z.to_nat (ord after - ord (p_start P)))) (v_def v, p_start P, 1) after.

(** The storing loop (second loop of divide, only loop of dispatch):
    every sub-period without a value receives [a]; the others are skipped. *)
Fixpoint dispatch_tiles (v : var) (n : Z) (h : holder) (T : list period) (a : arr) : res holder :=
  match T with
  | [] => Ok h
  | t :: T' =>
      match holder_get v h t with
      | Some _ => dispatch_tiles v n h T' a
      | None => let* h' := _set v n h t a in dispatch_tiles v n h' T' a
      end
  end.

(** element-wise [remaining_array -= existing_array] *)
Definition asub (a b : arr) : arr := map (fun xy => (fst xy - snd xy)%Q) (combine a b).

(** The counting loop of divide: remaining amount and number of sub-periods to fill. *)
Fixpoint divide_count (v : var) (h : holder) (T : list period) (rem : arr) (cnt : Z) : arr * Z :=
  match T with
  | [] => (rem, cnt)
  | t :: T' =>
      match holder_get v h t with
      | Some e => divide_count v h T' (asub rem e) cnt
      | None => divide_count v h T' rem (cnt + 1)
      end
  end.

Definition adiv (a : arr) (k : Z) : arr := map (fun x => (x / inject_Z k)%Q) a.
Definition all_zero (a : arr) : bool := forallb (fun x => Qeq_bool x 0) a.

Definition divide_tiles (v : var) (n : Z) (h : holder) (T : list period) (a : arr) : res holder :=
  let rc := divide_count v h T a 0 in
  if 0 <? snd rc then dispatch_tiles v n h T (adiv (fst rc) (snd rc))
  else if all_zero (fst rc) then Ok h
  else Err EValue.

(** helpers.set_input_dispatch_by_period *)
Definition set_input_dispatch_by_period (v : var) (n : Z) (h : holder) (P : period) (a : arr)
  : res holder :=
  let* a' := to_array v n a in
  if eternal v then Err EValue
  else
    let* T := walk_tiles v P in
    dispatch_tiles v n h T a'.

(** helpers.set_input_divide_by_period *)
Definition set_input_divide_by_period (v : var) (n : Z) (h : holder) (P : period) (a : arr)
  : res holder :=
  let* a' := to_array v n a in
  if eternal v then Err EValue
  else
    let* T := walk_tiles v P in
    divide_tiles v n h T a'.

(** Holder.set_input (variable not neutralized, numeric input) *)
Definition holder_set_input (v : var) (n : Z) (h : holder) (P : period) (a : arr) : res holder :=
  if unit_eqb (p_unit P) Eternity && negb (eternal v) then Err EMismatch
  else
    match v_rule v with
    | RDivide => set_input_divide_by_period v n h P a
    | RDispatch => set_input_dispatch_by_period v n h P a
    | RNone => _set v n h P a
    end.

(** Simulation.set_input: an input starting after the variable's [end] is dropped;
    [period.start.date] of the eternity period raises ValueError. *)
Definition sim_set_input (v : var) (n : Z) (h : holder) (P : period) (a : arr) : res holder :=
  match v_end v with
  | None => holder_set_input v n h P a
  | Some e =>
      if unit_eqb (p_unit P) Eternity then Err EValue
      else if date_ltb e (p_start P) then Ok h
      else holder_set_input v n h P a
  end.

(** A history of set_input calls; a failed call leaves the holder as it was. *)
Definition step_holder (v : var) (n : Z) (h : holder) (s : period * arr) : holder :=
  match sim_set_input v n h (fst s) (snd s) with Ok h' => h' | Err _ => h end.

Definition run_steps (v : var) (n : Z) (h : holder) (steps : list (period * arr)) : holder :=
  fold_left (step_holder v n) steps h.

(** Holder.delete_arrays / storage.delete: forget every stored period contained in [P]
    (all of them when no period is given). *)
Definition delete_arrays (v : var) (h : holder) (P : option period) : holder :=
  match P with
  | None => []
  | Some p => filter (fun kv => negb (contains (storage_key v p) (fst kv))) h
  end.

(** Simulation.calculate_add for an input variable whose sub-periods are all known
    (no formula runs): element-wise sum of the stored arrays over
    [period.get_subperiods(definition_period)]; an unknown one counts as the default 0. *)
Definition zeros (n : Z) : arr := map (fun _ => 0%Q) (zrange n).
Definition aadd (a b : arr) : arr := map (fun xy => (fst xy + snd xy)%Q) (combine a b).
Definition getd (v : var) (n : Z) (h : holder) (t : period) : arr :=
  match holder_get v h t with Some a => a | None => zeros n end.
Definition sum_tiles (v : var) (n : Z) (h : holder) (T : list period) : arr :=
  fold_left (fun acc t => aadd acc (getd v n h t)) T (zeros n).

Definition calculate_add (v : var) (n : Z) (h : holder) (P : period) : res arr :=
  if unit_weight (p_unit P) <? unit_weight (v_def v) then Err EValue
  else if unit_eqb (p_unit P) Eternity then Err EValue
  else if eternal v then Err EValue
  else
    let* T := subperiods P (v_def v) in
    Ok (sum_tiles v n h T).

(** Simulation.calculate of an input variable (no formula) for every definition-period piece of
    [P], one after the other: a known value is returned as it is; for an unknown one the default
    0 is returned and stored (Holder.put_in_cache -> _set). *)
Definition calculate_each (v : var) (n : Z) (h : holder) (P : period) : res holder :=
  let* T := subperiods P (v_def v) in
  dispatch_tiles v n h T (zeros n).

(** * Vocabulary of the statements in props/C16.v (definitions only) *)

(** value of entity [i] in an array (0 outside) *)
Definition ent (i : nat) (a : arr) : Q := nth i a 0%Q.
Definition qsum (l : list Q) : Q := fold_right Qplus 0%Q l.

Definition is_known (v : var) (h : holder) (t : period) : bool :=
  match holder_get v h t with Some _ => true | None => false end.
Definition known_tiles (v : var) (h : holder) (T : list period) : list period :=
  filter (is_known v h) T.
Definition unknown_tiles (v : var) (h : holder) (T : list period) : list period :=
  filter (fun t => negb (is_known v h t)) T.

(** value of entity [i] for sub-period [t] (the default 0 when unknown) *)
Definition val (v : var) (n : Z) (h : holder) (i : nat) (t : period) : Q := ent i (getd v n h t).

(** every stored array has one element per entity *)
Definition wf_holder (n : Z) (h : holder) : Prop :=
  forall p a, get h p = Some a -> Z.of_nat (length a) = n.

(** what [Holder._set] accepts for a non-eternal variable *)
Definition tile_ok (v : var) (t : period) : Prop := p_unit t = v_def v /\ p_size t <= 1.

(** what is left of the amount for entity [i] once the known sub-periods are subtracted,
    the number of sub-periods still to fill, the equal share *)
Definition remainder (v : var) (n : Z) (h : holder) (T : list period) (a : arr) (i : nat) : Q :=
  (ent i a - qsum (map (val v n h i) (known_tiles v h T)))%Q.
Definition n_unknown (v : var) (h : holder) (T : list period) : Z :=
  Z.of_nat (length (unknown_tiles v h T)).
Definition share (v : var) (n : Z) (h : holder) (T : list period) (a : arr) (i : nat) : Q :=
  (remainder v n h T a i / inject_Z (n_unknown v h T))%Q.

(** the input is not dropped by [Simulation.set_input] because of the variable's [end] *)
Definition not_after_end (v : var) (P : period) : Prop :=
  match v_end v with None => True | Some e => date_ltb e (p_start P) = false end.
