(** Text forms of instants and periods: executable model.

    Printing:  [Instant.__str__] (periods/instant_.py), [Period.__str__] (periods/period_.py).
    Parsing:   [helpers.instant] / [helpers.period] on a [str] argument (periods/helpers.py),
               [_parsers.parse_instant / parse_period / parse_unit] (periods/_parsers.py),
               the regular expressions [iso_format], [iso_calendar] and the metaclass
               [isinstance] checks [InstantStr], [PeriodStr] (openfisca_core/types.py),
               [pendulum.parse(text, exact=True)] restricted to the strings that pass the two
               regular expressions (date validity, ISO-week validity, date range 1..9999),
               Python's [int(str)], [str(int)], [f"{n:02d}"], [str.split], [str.lower].

    Strings are Coq [string]s of bytes; the correspondence run exercises printable ASCII
    only.  Models what the code does, including behaviour the property does not claim
    (non-positive sizes, unaligned starts, cross-family prefixes such as "week:2014-01").
    No proofs in this file. *)
From Coq Require Import ZArith List Bool Ascii String.
From Verif Require Import Base Cal Tables Period.
Import ListNotations.
Open Scope string_scope.
Open Scope Z_scope.
Open Scope res_scope.

(** * Characters *)

Definition digit_char (k : Z) : ascii :=
  match k with
  | 0 => "0" | 1 => "1" | 2 => "2" | 3 => "3" | 4 => "4"
  | 5 => "5" | 6 => "6" | 7 => "7" | 8 => "8" | 9 => "9"
  | _ => "?"
  end%char.

Definition digit_val (c : ascii) : option Z :=
  (if c =? "0" then Some 0 else if c =? "1" then Some 1 else if c =? "2" then Some 2
   else if c =? "3" then Some 3 else if c =? "4" then Some 4 else if c =? "5" then Some 5
   else if c =? "6" then Some 6 else if c =? "7" then Some 7 else if c =? "8" then Some 8
   else if c =? "9" then Some 9 else None)%char.

Definition is_digit (c : ascii) : bool :=
  match digit_val c with Some _ => true | None => false end.

(* value of a character already known to be a digit (0 otherwise) *)
Definition dv (c : ascii) : Z := match digit_val c with Some k => k | None => 0 end.

(* str.lower on ASCII *)
Definition lower_char (c : ascii) : ascii :=
  let n := nat_of_ascii c in
  if (Nat.leb 65 n && Nat.leb n 90)%bool then ascii_of_nat (n + 32) else c.

Fixpoint lower (s : string) : string :=
  match s with
  | EmptyString => EmptyString
  | String c r => String (lower_char c) (lower r)
  end.

Fixpoint has_char (c : ascii) (s : string) : bool :=
  match s with
  | EmptyString => false
  | String a r => (a =? c)%char || has_char c r
  end.

(** [s.split(c)] for a one-character separator: never empty. *)
Fixpoint split (c : ascii) (s : string) : list string :=
  match s with
  | EmptyString => [EmptyString]
  | String a r =>
      if (a =? c)%char then EmptyString :: split c r
      else match split c r with
           | h :: t => String a h :: t
           | [] => [String a EmptyString]
           end
  end.

(** * Integers as text *)

(** [str(n)] for an int.  [show_digits] emits the decimal digits of a non-negative
    number, least significant first, onto an accumulator; the fuel [log2 n] is at least
    the number of digits minus one (proved in PeriodStrProofs: [show_nat_step]). *)
Fixpoint show_digits (fuel : nat) (n : Z) (acc : string) : string :=
  let acc' := String (digit_char (n mod 10)) acc in
  match fuel with
  | O => acc'
  | S f => if n <? 10 then acc' else show_digits f (n / 10) acc'
  end.

Definition show_nat (n : Z) : string := show_digits (Z.to_nat (Z.log2 n)) n "".

Definition show_Z (n : Z) : string :=
  if n <? 0 then String "-" (show_nat (- n)) else show_nat n.

Fixpoint zeros (k : nat) : string :=
  match k with O => "" | S k' => String "0" (zeros k') end.

(** [f"{n:0Wd}"] for n >= 0 (for negative n Python pads after the sign; with W = 2 that
    never adds a zero, and W = 4 is only used for valid years). *)
Definition pad (w : nat) (n : Z) : string :=
  let s := show_Z n in zeros (w - String.length s) ++ s.
Definition pad2 := pad 2.
Definition pad4 := pad 4.

(** [int(s)] for a str, base 10: surrounding white space, an optional sign, digits with
    single underscores between digits.  (Non-ASCII digits and spaces are not modelled.) *)
Definition is_space (c : ascii) : bool :=
  let n := nat_of_ascii c in
  (Nat.leb 9 n && Nat.leb n 13) || (Nat.leb 28 n && Nat.leb n 32).

Fixpoint lstrip (s : string) : string :=
  match s with
  | String c r => if is_space c then lstrip r else s
  | EmptyString => EmptyString
  end.

(* drop trailing white space *)
Fixpoint rstrip (s : string) : string :=
  match s with
  | EmptyString => EmptyString
  | String c r =>
      match rstrip r with
      | EmptyString => if is_space c then EmptyString else String c EmptyString
      | r' => String c r'
      end
  end.

(* [prev] : the previous character was a digit *)
Fixpoint int_digits (a : Z) (prev : bool) (s : string) : option Z :=
  match s with
  | EmptyString => if prev then Some a else None
  | String c r =>
      match digit_val c with
      | Some k => int_digits (10 * a + k) true r
      | None => if ((c =? "_")%char && prev)%bool then int_digits a false r else None
      end
  end.

Definition py_int (s : string) : option Z :=
  let t := rstrip (lstrip s) in
  match t with
  | EmptyString => None
  | String c r =>
      if (c =? "+")%char then int_digits 0 false r
      else if (c =? "-")%char then option_map Z.opp (int_digits 0 false r)
      else int_digits 0 false t
  end.

(** * Date units as text *)

Definition unit_name (u : unit_t) : string :=
  match u with
  | Weekday => "weekday" | Week => "week" | Day => "day"
  | Month => "month" | Year => "year" | Eternity => "eternity"
  end.

Definition all_units : list unit_t := [Weekday; Week; Day; Month; Year; Eternity].

(* [unit in list(DateUnit)] followed by [DateUnit(unit)] *)
Definition unit_of_name (s : string) : option unit_t :=
  find (fun u => (unit_name u =? s)%string) all_units.

(* str.upper() of the (lower-case ASCII) unit names *)
Definition upper_char (c : ascii) : ascii :=
  let n := nat_of_ascii c in
  if (Nat.leb 97 n && Nat.leb n 122)%bool then ascii_of_nat (n - 32) else c.
Fixpoint upper (s : string) : string :=
  match s with
  | EmptyString => EmptyString
  | String c r => String (upper_char c) (upper r)
  end.

(** * Printing *)

(* what [datetime.date(y, m, d)] / [pendulum.date(y, m, d)] accept *)
Definition py_date_ok (c : date) : bool :=
  let '(y, _, _) := c in validb c && (y <=? 9999).

(* date.isoformat(): "%04d-%02d-%02d" *)
Definition iso_text (y m d : Z) : string :=
  pad4 y ++ "-" ++ pad2 m ++ "-" ++ pad2 d.

(** Instant.__str__ *)
Definition show_instant (c : date) : res string :=
  let '(y, m, d) := c in
  if py_date_ok c then Ok (iso_text y m d) else Err EValue.

(* "W0{week}" if week < 10 else "W{week}" *)
Definition week_text (w : Z) : string :=
  if w <? 10 then "W0" ++ show_Z w else "W" ++ show_Z w.

(** Period.__str__ *)
Definition show_period (p : period) : res string :=
  let '(u, (y, m, d), n) := p in
  match u with
  | Eternity => Ok (upper (unit_name Eternity))
  | _ =>
    if negb (py_date_ok (y, m, d)) then Err EValue     (* datetime.date(...) raises *)
    else
      let '(cy, w, wd) := isocalendar (y, m, d) in
      let ym := show_Z y ++ "-" ++ pad2 m in
      let ymd := ym ++ "-" ++ pad2 d in
      let yw := show_Z cy ++ "-" ++ week_text w in
      let ywd := yw ++ "-" ++ show_Z wd in
      let pre (body : string) := unit_name u ++ ":" ++ body ++ ":" ++ show_Z n in
      if (unit_eqb u Month && (n =? 12)) || (unit_eqb u Year && (n =? 1)) then
        if m =? 1 then Ok (show_Z y) else Ok (unit_name Year ++ ":" ++ ym)
      else if unit_eqb u Month && (n =? 1) then Ok ym
      else if unit_eqb u Year && (m =? 1) then Ok (pre (show_Z y))
      else if unit_eqb u Day then (if n =? 1 then Ok ymd else Ok (pre ymd))
      else if unit_eqb u Week && (n =? 1) then Ok yw
      else if unit_eqb u Week && (1 <? n) then Ok (pre yw)
      else if unit_eqb u Weekday && (n =? 1) then Ok ywd
      else if unit_eqb u Weekday && (1 <? n) then Ok (pre ywd)
      else Ok (pre ym)
  end.

(** * The two regular expressions (types.py), transliterated.
    [$] is modelled as the end of the string (Python's [$] also matches before one final
    newline; pendulum then rejects such a string, with the same error kind). *)

(* 0[1-9]|1[0-2] *)
Definition re_month (a b : ascii) : bool :=
  ((a =? "0")%char && is_digit b && negb (b =? "0")%char)
  || ((a =? "1")%char && ((b =? "0") || (b =? "1") || (b =? "2"))%char).

(* 0[1-9]|[12]\d|3[01] *)
Definition re_day (a b : ascii) : bool :=
  ((a =? "0")%char && is_digit b && negb (b =? "0")%char)
  || (((a =? "1") || (a =? "2"))%char && is_digit b)
  || ((a =? "3")%char && ((b =? "0") || (b =? "1"))%char).

(* 0[1-9]|[1-4][0-9]|5[0-3] *)
Definition re_week (a b : ascii) : bool :=
  ((a =? "0")%char && is_digit b && negb (b =? "0")%char)
  || (((a =? "1") || (a =? "2") || (a =? "3") || (a =? "4"))%char && is_digit b)
  || ((a =? "5")%char && ((b =? "0") || (b =? "1") || (b =? "2") || (b =? "3"))%char).

(* [1-7] *)
Definition re_weekday (a : ascii) : bool := is_digit a && (1 <=? dv a) && (dv a <=? 7).

(* ^\d{4}(-(?:0[1-9]|1[0-2])(-(?:0[1-9]|[12]\d|3[01]))?)?$ *)
Definition re_iso_format (s : string) : bool :=
  match s with
  | String y1 (String y2 (String y3 (String y4 r))) =>
      is_digit y1 && is_digit y2 && is_digit y3 && is_digit y4 &&
      match r with
      | EmptyString => true
      | String sep (String m1 (String m2 r2)) =>
          (sep =? "-")%char && re_month m1 m2 &&
          match r2 with
          | EmptyString => true
          | String sep2 (String d1 (String d2 EmptyString)) => (sep2 =? "-")%char && re_day d1 d2
          | _ => false
          end
      | _ => false
      end
  | _ => false
  end.

(* (-[1-7])?$ *)
Definition re_opt_weekday (r : string) : bool :=
  match r with
  | EmptyString => true
  | String sep (String d EmptyString) => (sep =? "-")%char && re_weekday d
  | _ => false
  end.

(* ^\d{4}(-W(0[1-9]|[1-4][0-9]|5[0-3]))?(-[1-7])?$ *)
Definition re_iso_calendar (s : string) : bool :=
  match s with
  | String y1 (String y2 (String y3 (String y4 r))) =>
      is_digit y1 && is_digit y2 && is_digit y3 && is_digit y4 &&
      match r with
      | String sep (String W (String w1 (String w2 r2))) =>
          if ((sep =? "-") && (W =? "W"))%char
          then re_week w1 w2 && re_opt_weekday r2
          else re_opt_weekday r
      | _ => re_opt_weekday r
      end
  | _ => false
  end.

(* isinstance(value, t.InstantStr) *)
Definition is_instant_str (s : string) : bool := re_iso_format s || re_iso_calendar s.

(* isinstance(value, t.PeriodStr) *)
Definition is_period_str (s : string) : bool :=
  has_char ":" s && is_instant_str (nth 1 (split ":" s) "").

(** * pendulum.parse(text, exact=True) on strings that pass [is_instant_str] *)

Definition num2 (a b : ascii) : Z := 10 * dv a + dv b.
Definition num4 (a b c d : ascii) : Z := 1000 * dv a + 100 * dv b + 10 * dv c + dv d.

Definition max_ordinal : Z := ord (9999, 12, 31).

(* calendar date: must exist; year 0 does not *)
Definition pendulum_ymd (y m d : Z) : res date :=
  if validb (y, m, d) then Ok (y, m, d) else Err EPeriod.

(* ISO week date: week 53 only in long years; the resulting date must be in 0001-01-01 .. 9999-12-31 *)
Definition pendulum_week_date (iy w wd : Z) : res date :=
  if weeks_in_iso_year iy <? w then Err EPeriod
  else
    let o := iso_week1_monday iy + (w - 1) * 7 + (wd - 1) in
    if (o <? 1) || (max_ordinal <? o) then Err EPeriod else Ok (of_ord o).

Definition pendulum_parse_date (s : string) : res date :=
  match s with
  | String y1 (String y2 (String y3 (String y4 r))) =>
      let y := num4 y1 y2 y3 y4 in
      match r with
      | EmptyString =>
          (* "YYYY": the Rust ISO parser refuses year 0, the fallback regular expression
             then reaches date(0, 1, 1): a plain ValueError *)
          if y =? 0 then Err EValue else Ok (y, 1, 1)
      | String _ (String a (String b r2)) =>
          if (a =? "W")%char then
            (* "YYYY-Www" / "YYYY-Www-D" *)
            match r2 with
            | String w2 EmptyString => pendulum_week_date y (num2 b w2) 1
            | String w2 (String _ (String d EmptyString)) => pendulum_week_date y (num2 b w2) (dv d)
            | _ => Err EPeriod
            end
          else
            (* "YYYY-MM" / "YYYY-MM-DD" *)
            match r2 with
            | EmptyString => pendulum_ymd y (num2 a b) 1
            | String _ (String d1 (String d2 EmptyString)) => pendulum_ymd y (num2 a b) (num2 d1 d2)
            | _ => Err EPeriod
            end
      | _ => Err EPeriod       (* "YYYY-D" passes iso_calendar; pendulum cannot parse it *)
      end
  | _ => Err EPeriod
  end.

(** * _parsers.py *)

(** parse_instant; also [helpers.instant(str)] *)
Definition parse_instant (s : string) : res date :=
  if negb (is_instant_str s) then Err EPeriod     (* InstantError *)
  else pendulum_parse_date s.

(* tuple[-k] *)
Definition neg_index {A} (l : list A) (k : nat) : res A :=
  if (Nat.ltb 0 k && Nat.leb k (List.length l))%bool then
    match nth_error l (List.length l - k) with Some x => Ok x | None => Err EIndex end
  else Err EIndex.

(** parse_unit *)
Definition parse_unit (s : string) : res unit_t :=
  if negb (is_instant_str s) then Err EPeriod
  else
    let k := List.length (split "-" s) in
    if re_iso_calendar s then neg_index units_isocalendar k else neg_index units_isoformat k.

(** _parsers.parse_period: ISO format/calendar strings such as "2012", "2015-03", "2022-W02-7" *)
Definition parse_simple (s : string) : res period :=
  let* i := parse_instant s in
  let* u := parse_unit s in
  Ok (u, i, 1).

(** * helpers.period on a str *)

(* the branch for "unit:start[:size]" texts, on [components = value.split(":")] *)
Definition period_of_components (components : list string) : res period :=
  match components with
  | uname :: body :: rest =>
      match unit_of_name uname with
      | None | Some Eternity => Err EPeriod      (* not a unit, or eternity *)
      | Some u =>
          let* p := parse_simple body in
          let* size :=
            match rest with
            | [] => Ok 1
            | [sz] => match py_int sz with Some n => Ok n | None => Err EPeriod end
            | _ => Err EPeriod                   (* more than 2 ":" *)
            end in
          (* "Reject ambiguous periods such as month:2014" *)
          if unit_weight u <? unit_weight (p_unit p) then Err EPeriod
          else Ok (u, p_start p, size)
      end
  | _ => Err EPeriod
  end.

Definition parse_period (s : string) : res period :=
  if (lower s =? unit_name Eternity)%string then Ok eternity_period
  else if is_instant_str s then parse_simple s
  else if is_period_str s then period_of_components (split ":" s)
  else Err EPeriod.

(** * helpers.instant / helpers.period on the other argument types (singledispatch)

    [IDate] stands for datetime.date, datetime.datetime, pendulum Date and DateTime (with
    or without time zone): only the calendar fields year, month, day are read.  [ISeq] is a
    tuple or list of ints ([t.SeqInt]: non-empty). *)
Inductive input :=
  | IStr (s : string)
  | IInt (n : Z)
  | IDate (c : date)
  | IInstant (c : date)
  | IPeriod (p : period)
  | ISeq (l : list Z)
  | INone.

(* Instant((list(value) + [1] * 3)[:3]) *)
Definition instant_of_seq (l : list Z) : res date :=
  match (l ++ [1; 1; 1])%list with
  | y :: m :: d :: _ => match l with [] => Err EPeriod | _ => Ok (y, m, d) end
  | _ => Err EPeriod
  end.

Definition instant_of (v : input) : res date :=
  match v with
  | IStr s => parse_instant s
  | IInt n => Ok (n, 1, 1)
  | IDate c => Ok c
  | IInstant c => Ok c
  | IPeriod p => Ok (p_start p)
  | ISeq l => instant_of_seq l
  | INone => Err EPeriod
  end.

Definition period_of (v : input) : res period :=
  match v with
  | IStr s => parse_period s
  | IInt n => Ok (Year, (n, 1, 1), 1)
  | IDate c => Ok (Day, c, 1)
  | IInstant c => Ok (Day, c, 1)
  | IPeriod p => Ok p
  | ISeq _ => Err EPeriod
  | INone => Err EPeriod
  end.
