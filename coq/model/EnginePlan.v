(** Reference plans: the order and nesting of the steps of the lazy evaluator, as the
    hand-written model coq/model/Engine.v implements them.  Each constant lists, statement
    by statement, what the Python function does (tags of coq/model/GuardsTypes.v) and the
    comment says which line of [Engine.calc] / [calc_body] / [purge] carries that step.
    coq/gen/GuardsPlan.v holds the same plans as re-read from /repo on every run by
    harness/gen_tables.py; props/GuardsTie.v and props/C18.v state that they are equal.
    A step that is moved, removed, added or re-nested in the source changes the regenerated
    plan (or the translator no longer recognises the function): the obligation fails.
    No proofs here. *)
From Coq Require Import List.
From Verif Require Import GuardsTypes.
Import ListNotations.

(** Simulation.calculate  <->  [Engine.calc]:
      let '(s1, r) := calc_body (calc f sy pp) sy pp (push (v, p) s) v p in (purge sy (pop s1), r)  *)
Definition calculate_plan : list step :=
  [ Do ANormPeriod                (* requests reach the model as periods ([apply_ptrans], harness) *)
  ; Do APush                      (* [push (v, p) s] *)
  ; TryExceptFinally
      [ Do ACalculate             (* [calc_body (calc f sy pp) sy pp (push (v, p) s) v p] *)
      ; Do ARecordResult          (* tracer only: EngineTrace.v *)
      ; Do AReturnResult ]        (* [r], answer or error alike *)
      []
      [ Do APop                   (* [pop s1], whatever [r] is: the finally clause *)
      ; Do APurge ]               (* [purge sy (pop s1)]: after the pop, also when [r] is an error *)
  ].

(** Simulation._calculate  <->  [Engine.calc_body] (frame already pushed) *)
Definition _calculate_plan : list step :=
  [ Do AGetPopulation             (* [count_of pp (v_ent x)] where needed *)
  ; Do AGetHolder                 (* the holder is the slice of [cache s0] for [v] *)
  ; Do AGetVariable               (* [nth_error (vars sy) v] *)
  ; IfThen TVariableIsNone [ Do ARaiseNotFound ]          (* [None => (s0, Err ENotFound)] *)
  ; Do ACheckConsistency          (* [match check_consistency x p with Err e => (s0, Err e)]: BEFORE the lookup *)
  ; Do ACacheLookup               (* [get_array pp x s0 v p] *)
  ; IfThen TCachedIsNotNone
      [ IfThen TKeyInvalidated    (* [existsb (key_eqb (v, p)) (invalid s0)] *)
          [ ForEach IStackFrames [ Do AMarkFrame ] ]      (* [add_invalid (stack s0) s0] *)
      ; Do AReturnCached ]        (* [Some a => (..., Ok a)] *)
  ; Do AInitNone
  ; TryExceptFinally
      [ Do ACheckForCycle         (* [prev_periods], [Err ECycle], the spiral branch: see below *)
      ; Do ARunFormula            (* [formula_at x p], [eval rec sy pp (v_ent x) s0 p e] *)
      ; IfThen TArrayIsNone [ Do ADefaultArray ]          (* [Ok None => default_array pp x] *)
      ; Do ACast                  (* [cast x a] *)
      ; Do APutInCache ]          (* [put_in_cache x v p a' s1] *)
      [ (XSpiralError, [ Do ADefaultArray ]) ]            (* spiral: [Ok (default_array pp x)], nothing stored *)
      []
  ; Do AReturnArray
  ].

(** Simulation._check_for_cycle  <->  the [None =>] branch of [calc_body] *)
Definition check_for_cycle_plan : list step :=
  [ Do APreviousPeriodsExcludeLast                        (* [prev_periods v (tl (stack s0))] *)
  ; IfThen TPeriodInPrevious [ Do ARaiseCycle ]           (* [existsb (period_eqb p) prev => Err ECycle] *)
  ; Do ASpiralIfLenGeMax                                  (* [Nat.leb (max_loops sy) (length prev)] *)
  ; IfThen TSpiral
      [ Do AInvalidateSpiral      (* [add_invalid (spiral_marks (max_loops sy) v 0 (stack s0)) s0] *)
      ; Do ARaiseSpiral ]         (* caught in _calculate: default array *)
  ].

(** Simulation.purge_cache_of_invalid_values  <->  [Engine.purge] *)
Definition purge_plan : list step :=
  [ IfThen TStackNonEmpty [ Do AReturn ]                  (* [match stack s with [] => ... | _ => s] *)
  ; ForEach IInvalidatedEntries
      [ Do AGetHolderOfEntry; Do ADeleteArrays ]          (* [fold_left (fun c k => delete_one sy k c) (invalid s) (cache s)] *)
  ; Do AResetInvalidated                                  (* [invalid := []] *)
  ].
