(** Vocabulary of the C05 statements (no proofs, no model code): which periods the
    round-trip claim covers, what "the same period up to month x 12 = year x 1" means,
    how a text is built from fields, what "rejected" means. *)
From Coq Require Import ZArith List Bool Ascii String.
From Verif Require Import Base Cal Tables Period PeriodStr.
Import ListNotations.
Open Scope string_scope.
Open Scope Z_scope.

(** Start aligned to the unit: first of month for month and year periods, Monday for weeks. *)
Definition aligned (p : period) : Prop :=
  let '(u, (y, m, d), n) := p in
  match u with
  | Month | Year => d = 1
  | Week => isoweekday (y, m, d) = 1
  | Day | Weekday => True
  | Eternity => True
  end.

(** Domain of the round-trip and injectivity claims: the eternity period; otherwise a real
    date with a four-digit year, a positive size, an aligned start.  No bound on the size. *)
Definition claimed (p : period) : Prop :=
  match p_unit p with
  | Eternity => p = eternity_period
  | _ => let '(y, _, _) := p_start p in
         valid (p_start p) /\ 1000 <= y <= 9999 /\ 0 < p_size p /\ aligned p
  end.

(** Twelve months print (and parse back) as one year; everything else is kept. *)
Definition canon (p : period) : period :=
  let '(u, s, n) := p in
  if unit_eqb u Month && (n =? 12) then (Year, s, 1) else p.

(** Fields joined with ":" *)
Fixpoint join_colon (l : list string) : string :=
  match l with
  | [] => ""
  | [x] => x
  | x :: xs => x ++ ":" ++ join_colon xs
  end.

Definition colon_free (s : string) : Prop := has_char ":" s = false.

Definition rejected (s : string) : Prop := exists e, parse_period s = Err e.

(** The characters [int()] can make sense of (ASCII): digits, sign, underscore, white space. *)
Definition int_char (c : ascii) : bool :=
  is_digit c || (c =? "+")%char || (c =? "-")%char || (c =? "_")%char || is_space c.
