(** A small heap model on top of the engine: several simulations, what [clone] copies
    and what it shares.

      Simulation.clone                      (simulations/simulation.py)
      Population.clone                      (populations/population.py)
      GroupPopulation.clone                 (populations/group_population.py)
      Holder.clone                          (holders/holder.py)
      commons.empty_clone                   (commons/misc.py)

    The engine state [Engine.st] of one simulation (cache / stack / invalid) is not kept
    as a value here: the values of every variable live in a store cell of the heap
    ([loc |-> list (key * val)], one cell per holder: [Holder._memory_storage._arrays] or
    the holder's on-disk store) and each simulation has a table [variable |-> loc];
    [Simulation.invalidated_caches] is a cell of a second heap.  A top-level request on
    simulation [i] reads the cells reachable from [i] into an [Engine.st], runs
    [Engine.step] unchanged, and writes the cells back.  Arrays are immutable values
    (the code never writes into a stored array), so sharing them is not modelled.

    [clone] is ONE definition parameterised by an allocation policy saying, for the store
    of each variable and for the set of invalidated entries, whether the clone gets a
    copy in a new cell or the same cell as the original.  The machines of interest are
    instances:
      - [pol_isolated]      everything copied: the code as it is now (Holder.clone builds a
                            new InMemoryStorage with a copy of [_arrays] and a new on-disk
                            store in the clone's own directory holding a copy of every
                            known period; Simulation.clone makes a new set of
                            invalidated_caches);
      - [pol_memory_only d] in-memory stores copied, on-disk stores (variables flagged in
                            [d]) and invalidated_caches shared: the code after the first
                            repair of F13 only (findings F23, F24);
      - [pol_shared]        everything shared: the code before any repair (F13).
    [clone_policy] is the policy of the code as it is now.  No proofs here. *)
From Coq Require Import ZArith List Bool Arith.
From Verif Require Import Base Cal Tables Period Np Group Param Engine.
Import ListNotations.
Open Scope nat_scope.
Local Notation length := List.length.

Definition loc := nat.
Definition store := list (key * val).

Inductive alloc := ACopy | AShare.

Record policy := mk_policy {
  pol_store : nat -> alloc;      (* per variable number: the holder's value store *)
  pol_inv : alloc                (* Simulation.invalidated_caches *)
}.

Record simu := mk_simu {
  s_tab : list loc;              (* variable number -> cell of its holder's store *)
  s_inv : loc;                   (* cell of invalidated_caches *)
  s_trace : bool;                (* Simulation.trace (the tracer object is always the simulation's own) *)
  s_pop : popu                   (* count / members_entity_id / members_role: immutable arrays *)
}.

Record world := mk_world {
  stores : list store;           (* heap of value stores, cell number = position *)
  invs : list (list key);        (* heap of invalidated_caches sets *)
  sims : list simu               (* simulation number = position; clones are appended *)
}.

Fixpoint set_nth {A} (l : list A) (n : nat) (x : A) : list A :=
  match l, n with
  | [], _ => []
  | _ :: t, O => x :: t
  | h :: t, S m => h :: set_nth t m x
  end.

(** * Reading a simulation out of the heap *)

Definition sim_cache (w : world) (sm : simu) : list (key * val) :=
  flat_map (fun l => nth l (stores w) []) (s_tab sm).

Definition sim_invalid (w : world) (sm : simu) : list key := nth (s_inv sm) (invs w) [].

(** between two top-level operations the evaluation stack is empty *)
Definition sim_state (w : world) (sm : simu) : st :=
  {| cache := sim_cache w sm; stack := []; invalid := sim_invalid w sm |}.

(** * Writing it back: every holder keeps the entries of its own variable *)

Definition entries_of (v : nat) (c : list (key * val)) : store :=
  filter (fun kv => Nat.eqb (fst (fst kv)) v) c.

Fixpoint write_tab (v : nat) (tab : list loc) (c : list (key * val)) (h : list store) : list store :=
  match tab with
  | [] => h
  | l :: r => write_tab (S v) r c (set_nth h l (entries_of v c))
  end.

(** * Which [calculate] a top-level request runs first (if any)

    [purge_cache_of_invalid_values] ends with [self.invalidated_caches = set()]: the
    simulation continues with a NEW set, and the old set object keeps whatever was marked
    during that calculate.  The dispatch of the request itself is run with a recording
    callback, so that no test of calculate_add / calculate_divide is written twice. *)
Definition rec_first (s : option key) (v : nat) (p : period) : option key * res val :=
  (match s with None => Some (v, p) | Some _ => s end, Err EOther).

Definition first_calc (sy : sys) (r : request) : option key :=
  match r with
  | RCalc v p => Some (v, p)
  | RAdd v p =>
      match nth_error (vars sy) v with
      | None => None
      | Some x => fst (calc_add rec_first None v x p)
      end
  | RDivide v p =>
      match nth_error (vars sy) v with
      | None => None
      | Some x => fst (calc_divide rec_first None v x p)
      end
  | _ => None
  end.

(** content of invalidated_caches when that first calculate reaches its purge *)
Definition marks_at_first_purge (sy : sys) (pp : popu) (s : st) (r : request) : option (list key) :=
  match first_calc sy r with
  | None => None
  | Some (v, p) =>
      Some (invalid (fst (calc_body (calc (pred (enough_fuel sy)) sy pp) sy pp (push (v, p) s) v p)))
  end.

(** * Operations on the world *)

Inductive op :=
  | OpOn (i : nat) (r : request)      (* a top-level request on simulation i *)
  | OpClone (i : nat) (tr : bool)     (* simulations[i].clone(trace=tr), appended to the world *)
  | OpTrace (i : nat) (b : bool).     (* simulations[i].trace = b *)

Definition step_on (sy : sys) (w : world) (i : nat) (r : request) : world * answer :=
  match nth_error (sims w) i with
  | None => (w, AErr EOther)
  | Some sm =>
      let s := sim_state w sm in
      let '(s1, a) := step (enough_fuel sy) sy (s_pop sm) s r in
      let h := write_tab 0 (s_tab sm) (cache s1) (stores w) in
      match marks_at_first_purge sy (s_pop sm) s r with
      | None =>
          ({| stores := h; invs := set_nth (invs w) (s_inv sm) (invalid s1); sims := sims w |}, a)
      | Some m =>
          let sm' := {| s_tab := s_tab sm; s_inv := length (invs w); s_trace := s_trace sm; s_pop := s_pop sm |} in
          ({| stores := h; invs := set_nth (invs w) (s_inv sm) m ++ [invalid s1];
              sims := set_nth (sims w) i sm' |}, a)
      end
  end.

(** Population.clone / GroupPopulation.clone: one Holder.clone per holder *)
Fixpoint clone_tab (pol : nat -> alloc) (v : nat) (tab : list loc) (h : list store) : list store * list loc :=
  match tab with
  | [] => (h, [])
  | l :: r =>
      match pol v with
      | AShare => let '(h', t') := clone_tab pol (S v) r h in (h', l :: t')
      | ACopy => let '(h', t') := clone_tab pol (S v) r (h ++ [nth l h []]) in (h', length h :: t')
      end
  end.

(** Simulation.clone *)
Definition clone (pol : policy) (w : world) (i : nat) (tr : bool) : world :=
  match nth_error (sims w) i with
  | None => w
  | Some sm =>
      let '(h, tab) := clone_tab (pol_store pol) 0 (s_tab sm) (stores w) in
      let '(iv, il) :=
        match pol_inv pol with
        | AShare => (invs w, s_inv sm)
        | ACopy => (invs w ++ [sim_invalid w sm], length (invs w))
        end in
      {| stores := h; invs := iv;
         sims := sims w ++ [ {| s_tab := tab; s_inv := il; s_trace := tr; s_pop := s_pop sm |} ] |}
  end.

Definition set_trace (w : world) (i : nat) (b : bool) : world :=
  match nth_error (sims w) i with
  | None => w
  | Some sm =>
      {| stores := stores w; invs := invs w;
         sims := set_nth (sims w) i {| s_tab := s_tab sm; s_inv := s_inv sm; s_trace := b; s_pop := s_pop sm |} |}
  end.

Definition wstep (pol : policy) (sy : sys) (w : world) (o : op) : world * answer :=
  match o with
  | OpOn i r => step_on sy w i r
  | OpClone i tr => (clone pol w i tr, ANone)
  | OpTrace i b => (set_trace w i b, ANone)
  end.

Fixpoint wrun (pol : policy) (sy : sys) (w : world) (os : list op) : world * list answer :=
  match os with
  | [] => (w, [])
  | o :: rest =>
      let '(w1, a) := wstep pol sy w o in
      let '(w2, l) := wrun pol sy w1 rest in
      (w2, a :: l)
  end.

(** a freshly built simulation: one empty store per variable *)
Definition winit (nv : nat) (pp : popu) (tr : bool) : world :=
  {| stores := repeat [] nv; invs := [[]];
     sims := [ {| s_tab := seq 0 nv; s_inv := 0; s_trace := tr; s_pop := pp |} ] |}.

(** * The policies *)

Definition pol_isolated : policy := {| pol_store := fun _ => ACopy; pol_inv := ACopy |}.
Definition pol_shared : policy := {| pol_store := fun _ => AShare; pol_inv := AShare |}.
Definition pol_memory_only (disk : list bool) : policy :=
  {| pol_store := fun v => if nth v disk false then AShare else ACopy; pol_inv := AShare |}.

(** The code as it is now.  [disk] (which variables keep their values in an on-disk store)
    no longer matters: memory and disk stores are both copied. *)
Definition clone_policy (disk : list bool) : policy := pol_isolated.

(** * What can be observed of one simulation, and a simulation operated alone

    [regroup] is what reading back after [write_tab] yields: the entries grouped by
    variable (the order inside a holder is kept; no reader depends on the order between
    holders). *)
Record lview := mk_lview { lv_st : st; lv_nv : nat; lv_trace : bool; lv_pop : popu }.

Definition view_of (w : world) (sm : simu) : lview :=
  {| lv_st := sim_state w sm; lv_nv := length (s_tab sm); lv_trace := s_trace sm; lv_pop := s_pop sm |}.

Definition view (w : world) (i : nat) : option lview := option_map (view_of w) (nth_error (sims w) i).

(** the same view with another trace flag (clone(trace=tr)) *)
Definition retraced (x : lview) (tr : bool) : lview :=
  {| lv_st := lv_st x; lv_nv := lv_nv x; lv_trace := tr; lv_pop := lv_pop x |}.

Definition regroup (n : nat) (c : list (key * val)) : list (key * val) :=
  flat_map (fun v => entries_of v c) (seq 0 n).

(** one operation of a simulation that is alone in the world: no heap, no other party *)
Inductive lop := LReq (r : request) | LTrace (b : bool).

Definition solo_step (sy : sys) (x : lview) (o : lop) : lview * answer :=
  match o with
  | LReq r =>
      let '(s1, a) := step (enough_fuel sy) sy (lv_pop x) (lv_st x) r in
      ({| lv_st := {| cache := regroup (lv_nv x) (cache s1); stack := []; invalid := invalid s1 |};
          lv_nv := lv_nv x; lv_trace := lv_trace x; lv_pop := lv_pop x |}, a)
  | LTrace b =>
      ({| lv_st := lv_st x; lv_nv := lv_nv x; lv_trace := b; lv_pop := lv_pop x |}, ANone)
  end.

Fixpoint solo_run (sy : sys) (x : lview) (os : list lop) : lview * list answer :=
  match os with
  | [] => (x, [])
  | o :: rest =>
      let '(x1, a) := solo_step sy x o in
      let '(x2, l) := solo_run sy x1 rest in
      (x2, a :: l)
  end.

(** the operations of an interleaved sequence that are simulation [i]'s own *)
Definition own_op (i : nat) (o : op) : option lop :=
  match o with
  | OpOn j r => if Nat.eqb j i then Some (LReq r) else None
  | OpTrace j b => if Nat.eqb j i then Some (LTrace b) else None
  | OpClone _ _ => None
  end.

Fixpoint own_ops (i : nat) (os : list op) : list lop :=
  match os with
  | [] => []
  | o :: rest => match own_op i o with Some l => l :: own_ops i rest | None => own_ops i rest end
  end.

(** the answers of an interleaved run that were given to simulation [i] *)
Fixpoint own_answers (i : nat) (os : list op) (ans : list answer) : list answer :=
  match os, ans with
  | o :: rest, a :: l => match own_op i o with Some _ => a :: own_answers i rest l | None => own_answers i rest l end
  | _, _ => []
  end.

(** the same interleaved sequence with every operation of the other parties removed
    (clones are kept: they do not change the simulation they copy) *)
Definition keeps (i : nat) (o : op) : bool :=
  match o with
  | OpOn j _ | OpTrace j _ => Nat.eqb j i
  | OpClone _ _ => false
  end.
