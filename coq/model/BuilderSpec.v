(** Vocabulary of the statements of props/C12.v about the situation builder (definitions only):
    how to read "declared" in a document and "stored" in a built simulation. *)
From Coq Require Import ZArith QArith List Bool String Permutation.
From Verif Require Import Base Cal Tables Period Builder.
Import ListNotations.
Open Scope Z_scope.

(** the tax-benefit system names its entities apart (and none is called "axes") *)
Definition wf_sys (s : sys) : Prop :=
  NoDup (plurals s) /\ NoDup (singulars s) /\ ~ In "axes"%string (plurals s) /\
  (forall v, In v (s_vars s) -> In (v_entity v) (singulars s)).

(** the instances declared for entity [e] in an entity-shaped document (plural keys) *)
Definition instances_of (doc : list (string * json)) (e : entity) : option (list (string * json)) :=
  match aget (e_plural e) doc with Some (JObj l) => Some l | _ => None end.

(** "[value] is declared for variable [vn] of instance [id] under the key text [t]" *)
Definition declares (l : list (string * json)) (id vn t : string) (value : json) : Prop :=
  exists fields dated,
    In (id, JObj fields) l /\ In (vn, JObj dated) fields /\ In (t, value) dated.

(** the persons given to role [r] in the declaration [fields] of one group *)
Definition role_members (r : role) (fields : list (string * json)) : list string :=
  match transform_to_strict_syntax
          (match aget (role_name r) fields with Some j => j | None => JArr [] end) with
  | JArr l => person_ids_of l
  | _ => []
  end.

(** "[pid] is declared as the [i]-th holder of role [r] in group [gid]" *)
Definition declared_member (e : entity) (l : list (string * json)) (gid : string) (r : role)
    (i : nat) (pid : string) : Prop :=
  exists fields, In (gid, JObj fields) l /\ In r (e_roles e)
                 /\ nth_error (role_members r fields) i = Some pid.

Definition left_out (e : entity) (l : list (string * json)) (pid : string) : Prop :=
  forall gid r i, ~ declared_member e l gid r i pid.

(** the population of entity [e] in a built simulation *)
Definition pop_of (sim : simulation) (e : entity) (pop : population) : Prop :=
  In pop sim /\ p_entity pop = e_key e.

(** "the array known for variable [vn] at period [p] holds [c] at index [i]" *)
Definition stored (pop : population) (vn : string) (p : period) (i : nat) (c : cell) : Prop :=
  exists h arr, aget vn (p_holders pop) = Some h /\ hget h p = Some arr /\ nth_error arr i = Some c.

(** no later key of the same declaration denotes the same period ("the last one wins") *)
Definition last_for (x : ext) (dated : list (string * json)) (t : string) (p : period) : Prop :=
  exists pre post value, dated = pre ++ (t, value) :: post /\
    forall t' v', In (t', v') post -> v' <> JNull -> canon_key (tok x t') <> Ok p.

(** the input is not one that the builder drops because the variable has ended *)
Definition not_after_end (v : variable) (p : period) : Prop :=
  match v_end v with
  | None => True
  | Some e => p_unit p = Eternity \/ date_ltb e (p_start p) = false
  end.

(** "[pid] is the [i]-th holder of the [b]-th role in the [a]-th declared group" *)
Definition member_at (e : entity) (l : list (string * json)) (a b i : nat) (pid : string) : Prop :=
  exists gid fields r, nth_error l a = Some (gid, JObj fields) /\ nth_error (e_roles e) b = Some r
                       /\ nth_error (role_members r fields) i = Some pid.

(** an ill-formed item of the classes named by the property, anywhere in an entity-shaped
    document *)
Inductive ill_formed (x : ext) (s : sys) (doc : list (string * json)) : Prop :=
  | IF_unknown_entity k :
      In k (map fst doc) -> k <> "axes"%string -> ~ In k (plurals s) -> ill_formed x s doc
  | IF_unknown_variable e l id fields vn vals :
      In e (entities s) -> instances_of doc e = Some l -> In (id, JObj fields) l ->
      In (vn, vals) fields -> ~ In vn (map role_name (e_roles e)) ->
      (forall v, find_var vn (s_vars s) = Some v -> v_entity v <> e_key e) ->
      ill_formed x s doc
  | IF_bad_value e l id vn t value v :
      In e (entities s) -> instances_of doc e = Some l -> declares l id vn t value ->
      ~ In vn (map role_name (e_roles e)) ->
      find_var vn (s_vars s) = Some v -> value <> JNull ->
      check_set_value x v value = Err EValue ->     (* text for a number, unknown enum name, impossible date *)
      ill_formed x s doc
  | IF_unparsable_period e l id vn t value k :
      In e (entities s) -> instances_of doc e = Some l -> declares l id vn t value ->
      ~ In vn (map role_name (e_roles e)) ->
      parse_key (tok x t) = Err k -> ill_formed x s doc
  | IF_mismatched_period e l id vn t value v p :
      In e (entities s) -> instances_of doc e = Some l -> declares l id vn t value ->
      ~ In vn (map role_name (e_roles e)) ->
      find_var vn (s_vars s) = Some v -> value <> JNull -> canon_key (tok x t) = Ok p ->
      eternal v = false -> not_after_end v p ->
      (p_unit p = Eternity \/ (v_rule v = RNone /\ (p_unit p <> v_def v \/ 1 < p_size p))) ->
      ill_formed x s doc
  | IF_unknown_person e l gid r i pid persons :
      In e (s_groups s) -> instances_of doc e = Some l -> declared_member e l gid r i pid ->
      instances_of doc (s_person s) = Some persons -> ~ In pid (map fst persons) ->
      ill_formed x s doc
  | IF_duplicate_membership e l a b i a' b' i' pid :
      In e (s_groups s) -> instances_of doc e = Some l ->
      member_at e l a b i pid -> member_at e l a' b' i' pid ->
      (a, b, i) <> (a', b', i') -> ill_formed x s doc
  | IF_too_many e l gid fields r mx :
      In e (s_groups s) -> instances_of doc e = Some l -> In (gid, JObj fields) l ->
      In r (e_roles e) -> r_max r = Some mx ->
      mx < Z.of_nat (List.length (role_members r fields)) -> ill_formed x s doc.

(** the classes of [ill_formed] that are detected while the document is read (all but the
    mismatched period, which is detected when the buffer is flushed) *)
Inductive ill_formed_read (x : ext) (s : sys) (doc : list (string * json)) : Prop :=
  | IR_unknown_entity k :
      In k (map fst doc) -> k <> "axes"%string -> ~ In k (plurals s) -> ill_formed_read x s doc
  | IR_unknown_variable e l id fields vn vals :
      In e (entities s) -> instances_of doc e = Some l -> In (id, JObj fields) l ->
      In (vn, vals) fields -> ~ In vn (map role_name (e_roles e)) ->
      (forall v, find_var vn (s_vars s) = Some v -> v_entity v <> e_key e) ->
      ill_formed_read x s doc
  | IR_bad_value e l id vn t value v :
      In e (entities s) -> instances_of doc e = Some l -> declares l id vn t value ->
      ~ In vn (map role_name (e_roles e)) ->
      find_var vn (s_vars s) = Some v -> value <> JNull ->
      check_set_value x v value = Err EValue ->
      ill_formed_read x s doc
  | IR_unparsable_period e l id vn t value k :
      In e (entities s) -> instances_of doc e = Some l -> declares l id vn t value ->
      ~ In vn (map role_name (e_roles e)) ->
      parse_key (tok x t) = Err k -> ill_formed_read x s doc
  | IR_unknown_person e l gid r i pid persons :
      In e (s_groups s) -> instances_of doc e = Some l -> declared_member e l gid r i pid ->
      instances_of doc (s_person s) = Some persons -> ~ In pid (map fst persons) ->
      ill_formed_read x s doc
  | IR_duplicate_membership e l a b i a' b' i' pid :
      In e (s_groups s) -> instances_of doc e = Some l ->
      member_at e l a b i pid -> member_at e l a' b' i' pid ->
      (a, b, i) <> (a', b', i') -> ill_formed_read x s doc
  | IR_too_many e l gid fields r mx :
      In e (s_groups s) -> instances_of doc e = Some l -> In (gid, JObj fields) l ->
      In r (e_roles e) -> r_max r = Some mx ->
      mx < Z.of_nat (List.length (role_members r fields)) -> ill_formed_read x s doc.
