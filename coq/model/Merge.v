(** Vocabulary of property C11 (definitions only, no proofs): simulating two situations
    together as ONE population, restricting a result of the merged simulation to the
    entities of one situation, reordering the persons and groups of a situation.

    Conventions
    - a PLACEMENT is a list [f] of positions: [nth i f 0] is the position that element
      number [i] (a person, a group) receives in the new population.  A placement of [n]
      elements is valid when it is a permutation of 0..n-1 ([Np.is_perm_b f n]).
    - an INTERLEAVING of two situations with n1 and n2 persons is a pair of placements
      [f1] (n1 positions) and [f2] (n2 positions) such that [f1 ++ f2] is a permutation of
      0..n1+n2-1: any order of the merged persons, keeping each situation's internal
      order or not; likewise [g1], [g2] for the groups.  ([placement_of_bools] gives the
      order-preserving interleaving described by a list of booleans.)
    - the merged population is what harness/c11.py builds for the real engine the same
      way rules.build_simulation does: members_entity_id, members_role, count; the harness
      builds its arrays by scattering, this file by gathering through the inverse
      placement; the correspondence (corr/Corr_C11.v) compares the two on every case. *)
From Coq Require Import ZArith List Bool Arith.
From Verif Require Import Base Cal Tables Period Np Group GroupSpec Param Engine.
Import ListNotations.
Open Scope nat_scope.

(** ** Arrays *)

(** numpy's a[idx]: the elements of [a] at the positions [idx], in that order (a position
    outside [a] contributes nothing). *)
Definition gather {A} (idx : list nat) (a : list A) : list A :=
  flat_map (fun j => match nth_error a j with Some x => [x] | None => [] end) idx.

(** First index at which [j] occurs in [f]. *)
Fixpoint index_of (j : nat) (f : list nat) : option nat :=
  match f with
  | [] => None
  | h :: t => if Nat.eqb h j then Some 0 else option_map S (index_of j t)
  end.

(** For every new position j, the element that the placement [f] puts there (an
    out-of-range index when nobody is put there). *)
Definition inverse (f : list nat) : list nat :=
  map (fun j => match index_of j f with Some i => i | None => length f end) (seq 0 (length f)).

(** The array whose element at position [nth i f 0] is the element number [i] of [a]. *)
Definition place {A} (f : list nat) (a : list A) : list A := gather (inverse f) a.

(** The part of a merged array that belongs to the situation placed by [f], in that
    situation's own order. *)
Definition restrict {A} (f : list nat) (a : list A) : list A := gather f a.

(** Two arrays merged under the interleaving (f1, f2). *)
Definition merge_arr {A} (f1 f2 : list nat) (a1 a2 : list A) : list A := place (f1 ++ f2) (a1 ++ a2).

Definition interleaving (f1 f2 : list nat) (n1 n2 : nat) : bool :=
  (length f1 =? n1) && is_perm_b (f1 ++ f2) (n1 + n2).

(** The interleaving that keeps each situation's internal order: [false] = the next
    element of situation 1, [true] = the next element of situation 2. *)
Fixpoint placement_of_bools (il : list bool) (pos : nat) : list nat * list nat :=
  match il with
  | [] => ([], [])
  | b :: t => let '(f1, f2) := placement_of_bools t (S pos) in
              if b then (f1, pos :: f2) else (pos :: f1, f2)
  end.

(** ** Populations *)

(** Persons renumbered by [fp], groups renumbered by [fg]. *)
Definition place_pop (fp fg : list nat) (p : gpop) : gpop :=
  {| g_entity := g_entity p;
     g_count := g_count p;
     g_ids := place fp (map (fun g => nth g fg 0) (g_ids p));
     g_roles := place fp (g_roles p) |}.

(** Situation 1 followed by situation 2. *)
Definition concat_pop (p1 p2 : gpop) : gpop :=
  {| g_entity := g_entity p1;
     g_count := g_count p1 + g_count p2;
     g_ids := g_ids p1 ++ map (fun g => g_count p1 + g) (g_ids p2);
     g_roles := g_roles p1 ++ g_roles p2 |}.

Definition merge_pop (f1 f2 g1 g2 : list nat) (p1 p2 : gpop) : gpop :=
  place_pop (f1 ++ f2) (g1 ++ g2) (concat_pop p1 p2).

Definition permute (fp fg : list nat) (pp : popu) : popu := {| grp := place_pop fp fg (grp pp) |}.
Definition merge (f1 f2 g1 g2 : list nat) (pp1 pp2 : popu) : popu :=
  {| grp := merge_pop f1 f2 g1 g2 (grp pp1) (grp pp2) |}.

(** A role declared unique (max = 1) is held by at most one member of every group (what
    SimulationBuilder enforces; group.value_from_person is specified for such populations). *)
Definition roles_unique (p : gpop) : Prop :=
  forall r, role_max (g_entity p) r = Some 1 -> role_unique_in p r.

(** ** Inputs *)

Definition pick {A} (c : ent) (xp xg : A) : A := match c with EPerson => xp | EGroup => xg end.

(** The entity a variable is defined for (persons for an unknown variable: its inputs
    are never read). *)
Definition ent_of (sy : sys) (v : nat) : ent :=
  match nth_error (vars sy) v with Some x => v_ent x | None => EPerson end.

Definition permute_inputs (sy : sys) (fp fg : list nat) (inp : inputs) : inputs :=
  map (fun kv => (fst kv, place (pick (ent_of sy (fst (fst kv))) fp fg) (snd kv))) inp.

(** Both situations give values for the same (variable, period) keys, in the same order. *)
Definition concat_inputs (inp1 inp2 : inputs) : inputs :=
  map (fun ab => (fst (fst ab), snd (fst ab) ++ snd (snd ab))) (combine inp1 inp2).

Definition merge_inputs (sy : sys) (f1 f2 g1 g2 : list nat) (inp1 inp2 : inputs) : inputs :=
  permute_inputs sy (f1 ++ f2) (g1 ++ g2) (concat_inputs inp1 inp2).

(** Every input array has one element per entity of its variable (what
    Holder._to_array checks in set_input). *)
Definition inputs_wf (sy : sys) (pp : popu) (inp : inputs) : Prop :=
  forall v x p a, nth_error (vars sy) v = Some x -> lookup (v, p) inp = Some a ->
                  length a = count_of pp (v_ent x).

(** ** Well-kinded rule systems: a formula returns one value per entity of its variable.
    Aggregations and nb_persons are group-level expressions over person-level arguments,
    projections person-level expressions over group-level arguments (what
    harness/rules.py generates; the engine itself does not check the size of a formula
    result). *)
Fixpoint kind_ok (c : ent) (e : expr) : bool :=
  match e with
  | EBin _ a b => kind_ok c a && kind_ok c b
  | ENot a => kind_ok c a
  | EWhere x a b => kind_ok c x && kind_ok c a && kind_ok c b
  | EAgg _ _ a => ent_eqb c EGroup && kind_ok EPerson a
  | ENb _ => ent_eqb c EGroup
  | EProject _ a => ent_eqb c EPerson && kind_ok EGroup a
  | _ => true
  end.

Definition kinded (sy : sys) : bool :=
  forallb (fun x => forallb (fun se => kind_ok (v_ent x) (snd se)) (v_formulas x)) (vars sy).
