(** Object identities and back-pointers of simulations, on top of model/Heap.v (which is
    about the value stores only): who points to whom after [clone].

      Simulation.clone        new simulation object; [new.persons = self.persons.clone(new)];
                              one [population.clone(new)] per group entity; [new.trace = trace]
                              goes through the setter, which builds a NEW tracer
      Population.clone        [result = Population(entity)]; [result.simulation = simulation];
                              every holder [holder.clone(result)]
      GroupPopulation.clone   [result = GroupPopulation(entity, simulation.persons)] (members =
                              the clone's persons, cloned first); [result.simulation = simulation];
                              every holder [holder.clone(result)]
      Holder.clone(population) [new.population = population];
                              [new.simulation = population.simulation]
      Simulation.trace setter [self.tracer = FullTracer() / SimpleTracer()]: a new object

    Every object (simulation, tracer, population) has an identity taken from a counter.
    Holders are records inside their population: the code creates a holder when a variable
    is first looked at, bound to its own population by [Holder.__init__]; every observed
    state has looked at every variable, so the model has all holders from the start.

    [rclone] is parameterised by a back-pointer policy: [BRebind] is the code as it is now;
    [BKeepOriginal] is GroupPopulation.clone before fix 0ac1a97 (finding F13):
    [GroupPopulation(self.entity, self.members)] and [holder.clone(self)] - the group
    holders of the clone stay bound to the original's population and simulation, and the
    members are the original's persons.  No proofs here. *)
From Coq Require Import List Bool Arith.
From Verif Require Import Base Engine Heap.
Import ListNotations.
Open Scope nat_scope.
Local Notation length := List.length.

Definition oid := nat.

Record rholder := mk_rholder { h_sim : oid; h_pop : oid }.

Record rpop := mk_rpop {
  p_id : oid;
  p_sim : oid;                          (* population.simulation *)
  p_members : option oid;               (* group population: .members (a persons population) *)
  p_holders : list (nat * rholder)      (* variable number -> holder *)
}.

Record rsim := mk_rsim {
  r_id : oid;
  r_tracer : oid;                       (* simulation.tracer *)
  r_persons : rpop;                     (* simulation.persons = populations["person"] *)
  r_group : rpop                        (* populations["household"] *)
}.

Record rworld := mk_rworld { r_next : oid; rsims : list rsim }.

Inductive bpolicy := BRebind | BKeepOriginal.

(** the variables held by the populations of an entity kind *)
Definition vars_of (sy : sys) (c : ent) : list nat :=
  filter (fun v => match nth_error (vars sy) v with Some x => ent_eqb (v_ent x) c | None => false end)
         (seq 0 (length (vars sy))).

(** SimulationBuilder.build: simulation 0, tracer 1, persons 2, household 3 *)
Definition rinit (sy : sys) : rworld :=
  {| r_next := 4;
     rsims := [ {| r_id := 0; r_tracer := 1;
                   r_persons := {| p_id := 2; p_sim := 0; p_members := None;
                                   p_holders := map (fun v => (v, mk_rholder 0 2)) (vars_of sy EPerson) |};
                   r_group := {| p_id := 3; p_sim := 0; p_members := Some 2;
                                 p_holders := map (fun v => (v, mk_rholder 0 3)) (vars_of sy EGroup) |} |} ] |}.

(** holder.clone(population): bound to [population] and to [population.simulation] *)
Definition clone_holders (pop_id pop_sim : oid) (hs : list (nat * rholder)) : list (nat * rholder) :=
  map (fun vh => (fst vh, mk_rholder pop_sim pop_id)) hs.

(** Population.clone(simulation) *)
Definition clone_persons (self : rpop) (fresh new_sim : oid) : rpop :=
  {| p_id := fresh; p_sim := new_sim; p_members := None;
     p_holders := clone_holders fresh new_sim (p_holders self) |}.

(** GroupPopulation.clone(simulation); [new_persons] = simulation.persons *)
Definition clone_group (bp : bpolicy) (self : rpop) (fresh new_sim new_persons : oid) : rpop :=
  match bp with
  | BRebind =>
      {| p_id := fresh; p_sim := new_sim; p_members := Some new_persons;
         p_holders := clone_holders fresh new_sim (p_holders self) |}
  | BKeepOriginal =>
      {| p_id := fresh; p_sim := new_sim; p_members := p_members self;
         p_holders := clone_holders (p_id self) (p_sim self) (p_holders self) |}
  end.

(** Simulation.clone: objects numbered next (simulation), next+1 (tracer), next+2
    (persons), next+3 (household) *)
Definition rclone (bp : bpolicy) (w : rworld) (i : nat) : rworld :=
  match nth_error (rsims w) i with
  | None => w
  | Some s =>
      let n := r_next w in
      {| r_next := n + 4;
         rsims := rsims w ++ [ {| r_id := n; r_tracer := n + 1;
                                  r_persons := clone_persons (r_persons s) (n + 2) n;
                                  r_group := clone_group bp (r_group s) (n + 3) n (n + 2) |} ] |}
  end.

(** simulation.trace = b: the setter installs a new tracer *)
Definition rset_trace (w : rworld) (i : nat) : rworld :=
  match nth_error (rsims w) i with
  | None => w
  | Some s =>
      {| r_next := S (r_next w);
         rsims := set_nth (rsims w) i {| r_id := r_id s; r_tracer := r_next w;
                                         r_persons := r_persons s; r_group := r_group s |} |}
  end.

(** requests move no pointer *)
Definition rstep (bp : bpolicy) (w : rworld) (o : op) : rworld :=
  match o with
  | OpOn _ _ => w
  | OpClone i _ => rclone bp w i
  | OpTrace i _ => rset_trace w i
  end.

Definition rrun (bp : bpolicy) (w : rworld) (os : list op) : rworld := fold_left (rstep bp) os w.

(** the code as it is now *)
Definition backpointer_policy : bpolicy := BRebind.

(** * "Every part refers to its own simulation" *)

Definition holders_bound (sim pop : oid) (hs : list (nat * rholder)) : bool :=
  forallb (fun vh => Nat.eqb (h_sim (snd vh)) sim && Nat.eqb (h_pop (snd vh)) pop) hs.

Definition opt_eqb (a b : option nat) : bool :=
  match a, b with
  | Some x, Some y => Nat.eqb x y
  | None, None => true
  | _, _ => false
  end.

(** every population of [s] points to [s]; the household's members are [s]'s persons; every
    holder points to [s] and to the population of [s] that holds it *)
Definition bound (s : rsim) : bool :=
  Nat.eqb (p_sim (r_persons s)) (r_id s)
  && Nat.eqb (p_sim (r_group s)) (r_id s)
  && opt_eqb (p_members (r_persons s)) None
  && opt_eqb (p_members (r_group s)) (Some (p_id (r_persons s)))
  && holders_bound (r_id s) (p_id (r_persons s)) (p_holders (r_persons s))
  && holders_bound (r_id s) (p_id (r_group s)) (p_holders (r_group s)).

(** the objects that make up a simulation *)
Definition objects (s : rsim) : list oid := [r_id s; r_tracer s; p_id (r_persons s); p_id (r_group s)].
