(** Period.get_subperiods re-assembled from the regenerated pieces (coq/gen/GuardsPeriod.v,
    re-emitted from /repo/openfisca_core/periods/period_.py by harness/gen_tables.py on every
    run): the weight test, then per requested unit the base period, the unit of the offsets
    and the count.  props/GuardsTie.v and props/C04.v say that this is [Period.subperiods].
    No proofs here. *)
From Coq Require Import ZArith List Bool.
From Verif Require Import Base Cal Tables Period GuardsTypes GuardsPeriod.
Import ListNotations.
Open Scope Z_scope.
Open Scope res_scope.

Definition src_subperiods (p : period) (u : unit_t) : res (list period) :=
  if gen_subperiods_guard (p_unit p) u then Err EValue
  else match gen_subperiods_choice u with
       | None => Err EValue
       | Some (base, off_unit, count) =>
           let* b := apply_named base p in
           let* n := apply_size count p in
           mapM (fun i => offset b i (Some off_unit)) (zrange n)
       end.
