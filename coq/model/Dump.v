(** Executable model of dumping a simulation to a directory and restoring it:

      dump_simulation / _dump_entity / _dump_holder /
      restore_simulation / _restore_entity / _restore_holder   (tools/simulation_dumper.py)
      OnDiskStorage.put / get / restore / get_known_periods    (data_storage/on_disk_storage.py)
      Holder.create_disk_storage / get_known_periods / get_array / put_in_cache / _set /
      _to_array                                                (holders/holder.py)
      GroupPopulation.members_position / members_role           (populations/group_population.py)
      GroupEntity.flattened_roles                               (entities/group_entity.py)

    as the code is in /repo now (entity counts are taken from the stored id arrays; string
    arrays can be read back).  No proofs here.

    The file system is an association list from paths to file contents.  A directory is
    the set of paths below it; numpy.save to an existing path overwrites ([fs_write]).
    Paths are structured:

      PIds c          __entities__/<key of entity c>/id.npy
      PPosition       __entities__/household/members_position.npy
      PEntityId       __entities__/household/members_entity_id.npy
      PRole           __entities__/household/members_role.npy
      PVar v file     <name of variable number v>/<file>

    (variables are identified by their number as everywhere in Engine.v: names are distinct
    in a tax-benefit system).  The FILE NAME of a stored array is text: str(period) + ".npy";
    the printing function [show] (Period.__str__) and the parsing function [parse]
    (periods.period) are parameters of this model.  Everything that the restore concludes
    about periods goes through [parse] applied to what [show] printed.

    A simulation ([simu]) is the machine state of Engine.v plus what the populations hold:
    ids, counts, members_entity_id, members_role, and the lazily computed members_position
    ([u_pos = None]: not computed yet).  Roles are rows of the entity's role table
    (Group.v); the Python value 0 that numpy.select leaves where no role matches is the
    row number [no_role e] = length of the table (no role has that number, so
    has_role is false for it, as [members_role == role] is for 0).

    The engine model has one group entity kind; a persons-only tax-benefit system is
    [og = None]. *)
From Coq Require Import ZArith List Bool String Arith Ascii.
From Verif Require Import Base Cal Tables Period Np Group Param Engine.
Import ListNotations.
Open Scope nat_scope.
Local Notation length := List.length.

(** * Files *)

Inductive content :=
  | CArr (a : val)              (* the array of a variable for one period *)
  | CNat (l : list nat)         (* ids, members_entity_id, members_position *)
  | CStr (l : list string)      (* role keys *)
  | CScalar.                    (* numpy.int16(0): an entity without roles *)

Inductive path :=
  | PIds (c : ent)
  | PPosition
  | PEntityId
  | PRole
  | PVar (v : nat) (file : string).

Definition path_eqb (a b : path) : bool :=
  match a, b with
  | PIds c, PIds d => ent_eqb c d
  | PPosition, PPosition | PEntityId, PEntityId | PRole, PRole => true
  | PVar v f, PVar w g => Nat.eqb v w && String.eqb f g
  | _, _ => false
  end.

Definition fs := list (path * content).

Definition fs_read (p : path) (f : fs) : option content :=
  option_map snd (find (fun e => path_eqb p (fst e)) f).

(** numpy.save(path, value): creates or replaces the file *)
Definition fs_write (p : path) (c : content) (f : fs) : fs :=
  (p, c) :: filter (fun e => negb (path_eqb p (fst e))) f.

(** os.listdir(<directory of variable v>) in the order of the association list *)
Fixpoint listdir_var (v : nat) (f : fs) : list string :=
  match f with
  | [] => []
  | (PVar w name, _) :: r => if Nat.eqb w v then name :: listdir_var v r else listdir_var v r
  | _ :: r => listdir_var v r
  end.

(** os.listdir(directory) without "__entities__": the variable directories, each once *)
Fixpoint listdir_top (f : fs) : list nat :=
  match f with
  | [] => []
  | (PVar w _, _) :: r => w :: filter (fun v => negb (Nat.eqb v w)) (listdir_top r)
  | _ :: r => listdir_top r
  end.

(** file names: <str(period)>.npy;  filename.endswith(".npy") and filename.rsplit(".", 1)[0] *)
Definition npy (s : string) : string := (s ++ ".npy")%string.

Fixpoint strip_suffix (suf s : string) : option string :=
  if String.eqb s suf then Some EmptyString
  else match s with
       | EmptyString => None
       | String c r => option_map (String c) (strip_suffix suf r)
       end.

Definition strip_npy (name : string) : option string := strip_suffix ".npy"%string name.

(** * Simulations *)

Record simu := mk_simu {
  u_pcount : nat;              (* persons.count *)
  u_pids : list nat;           (* persons.ids *)
  u_gcount : nat;              (* household.count *)
  u_gids : list nat;           (* household.ids *)
  u_members : list nat;        (* household.members_entity_id *)
  u_roles : list nat;          (* household.members_role, rows of the role table *)
  u_pos : option (list nat);   (* household._members_position *)
  u_st : st                    (* holders (cache), evaluation stack, invalidated entries *)
}.

Definition no_entity : gentity := {| e_key := ""%string; e_roles := []; e_containing := [] |}.

(** The population the engine model computes on. *)
Definition pop_of (og : option gentity) (u : simu) : popu :=
  match og with
  | Some e => {| grp := {| g_entity := e; g_count := u_gcount u; g_ids := u_members u;
                           g_roles := u_roles u |} |}
  | None => {| grp := {| g_entity := no_entity; g_count := 0; g_ids := repeat 0 (u_pcount u);
                         g_roles := repeat 0 (u_pcount u) |} |}
  end.

(** GroupPopulation.members_position (the property: computed on first read) *)
Definition positions (u : simu) : res (list nat) :=
  match u_pos u with
  | Some l => Ok l
  | None => Group.members_position {| g_entity := no_entity; g_count := u_gcount u;
                                      g_ids := u_members u; g_roles := u_roles u |}
  end.

Definition count_in (u : simu) (c : ent) : nat :=
  match c with EPerson => u_pcount u | EGroup => u_gcount u end.

Definition with_st (u : simu) (s : st) : simu :=
  {| u_pcount := u_pcount u; u_pids := u_pids u; u_gcount := u_gcount u; u_gids := u_gids u;
     u_members := u_members u; u_roles := u_roles u; u_pos := u_pos u; u_st := s |}.

(** * Roles as text *)

(** GroupEntity.flattened_roles: chain(role.subroles or [role] for role in self.roles) *)
Definition flattened_roles (e : gentity) : list nat :=
  flat_map (fun r => match nth_error (e_roles e) r with
                     | Some ri => if r_top ri then (match r_subs ri with [] => [r] | subs => subs end)
                                  else []
                     | None => []
                     end)
           (seq 0 (length (e_roles e))).

Definition role_key (e : gentity) (r : nat) : string :=
  match nth_error (e_roles e) r with Some ri => r_key ri | None => ""%string end.

Definition no_role (e : gentity) : nat := length (e_roles e).

(** numpy.select([members_role == role for role in flattened_roles], [role.key ...]):
    the first matching role's key, the default 0 (as text) when none matches *)
Definition encode_role (e : gentity) (r : nat) : string :=
  match find (Nat.eqb r) (flattened_roles e) with
  | Some f => role_key e f
  | None => "0"%string
  end.

(** numpy.select([encoded_roles == role.key for role in flattened_roles], flattened_roles) *)
Definition decode_role (e : gentity) (s : string) : nat :=
  match find (fun f => String.eqb (role_key e f) s) (flattened_roles e) with
  | Some f => f
  | None => no_role e
  end.

(** * Monadic loop *)

Fixpoint foldM {X S : Type} (f : X -> S -> res S) (l : list X) (s : S) : res S :=
  match l with
  | [] => Ok s
  | x :: r => match f x s with Err e => Err e | Ok s' => foldM f r s' end
  end.

Section Dump.
  Variable show : period -> string.           (* Period.__str__ *)
  Variable parse : string -> res period.      (* periods.period(text) *)

  Definition file_name (p : period) : string := npy (show p).

  Definition is_eternal (x : var) : bool := unit_eqb (v_unit x) Eternity.

  (** ** Dump *)

  (** OnDiskStorage.put(value, period) of the storage of variable number [v] *)
  Definition disk_put (eternal : bool) (v : nat) (a : val) (p : period) (f : fs) : fs :=
    let p' := if eternal then eternity_period else p in
    fs_write (PVar v (file_name p')) (CArr a) f.

  (** _dump_holder for every holder: for period in holder.get_known_periods():
      disk_storage.put(holder.get_array(period), period) *)
  Definition dump_key (sy : sys) (pp : popu) (s : st) (f : fs) (k : key) : fs :=
    match nth_error (vars sy) (fst k) with
    | None => f
    | Some x =>
        match get_array pp x s (fst k) (snd k) with
        | Some a => disk_put (is_eternal x) (fst k) a (snd k) f
        | None => f
        end
    end.

  Definition dump_holders (sy : sys) (pp : popu) (s : st) : fs :=
    fold_left (dump_key sy pp s) (map fst (cache s)) [].

  (** _dump_entity *)
  Definition dump_persons (u : simu) : fs := [(PIds EPerson, CNat (u_pids u))].

  Definition dump_group (e : gentity) (u : simu) : res fs :=
    match positions u with
    | Err er => Err er
    | Ok pos =>
        Ok [ (PIds EGroup, CNat (u_gids u));
             (PPosition, CNat pos);
             (PEntityId, CNat (u_members u));
             (PRole, match flattened_roles e with
                     | [] => CScalar
                     | _ => CStr (map (encode_role e) (u_roles u))
                     end) ]
    end.

  (** dump_simulation(simulation, directory); [dir] is what the directory holds before *)
  Definition dump_simulation (sy : sys) (og : option gentity) (u : simu) (dir : fs) : res fs :=
    match dir with
    | _ :: _ => Err EValue                         (* "Directory ... is not empty" *)
    | [] =>
        match (match og with Some e => dump_group e u | None => Ok [] end) with
        | Err er => Err er
        | Ok g => Ok (dump_persons u ++ g ++ dump_holders sy (pop_of og u) (u_st u))
        end
    end.

  (** ** Restore *)

  Definition read_nats (p : path) (f : fs) : res (list nat) :=
    match fs_read p f with
    | Some (CNat l) => Ok l
    | _ => Err EOther            (* FileNotFoundError / not what the dump writes *)
    end.

  (** _restore_entity: ids, count = len(ids), and for a group entity the member arrays *)
  Definition restore_group (e : gentity) (f : fs) (u : simu) : res simu :=
    match read_nats (PIds EGroup) f with Err er => Err er | Ok gids =>
    match read_nats PPosition f with Err er => Err er | Ok pos =>
    match read_nats PEntityId f with Err er => Err er | Ok members =>
    match fs_read PRole f with
    | None => Err EOther
    | Some enc =>
        match flattened_roles e with
        | [] => Err EType         (* members_role = numpy.int16(0): not iterable *)
        | _ =>
            match enc with
            | CStr keys =>
                Ok {| u_pcount := u_pcount u; u_pids := u_pids u;
                      u_gcount := length gids; u_gids := gids;
                      u_members := members; u_roles := map (decode_role e) keys;
                      u_pos := Some pos; u_st := u_st u |}
            | _ => Err EOther
            end
        end
    end end end end.

  Definition restore_persons (f : fs) (u : simu) : res simu :=
    match read_nats (PIds EPerson) f with
    | Err er => Err er
    | Ok pids =>
        Ok {| u_pcount := length pids; u_pids := pids; u_gcount := u_gcount u; u_gids := u_gids u;
              u_members := u_members u; u_roles := u_roles u; u_pos := u_pos u; u_st := u_st u |}
    end.

  (** OnDiskStorage._files: period -> file name *)
  Definition files := list (period * string).

  Definition files_get (p : period) (d : files) : option string :=
    option_map snd (find (fun e => period_eqb p (fst e)) d).

  Definition files_set (p : period) (name : string) (d : files) : files :=
    (p, name) :: filter (fun e => negb (period_eqb p (fst e))) d.

  (** OnDiskStorage.restore: for filename in os.listdir(storage_dir): *.npy only,
      files[periods.period(filename_core)] = path *)
  Fixpoint disk_restore (names : list string) (d : files) : res files :=
    match names with
    | [] => Ok d
    | name :: r =>
        match strip_npy name with
        | None => disk_restore r d
        | Some core =>
            match parse core with
            | Err er => Err er
            | Ok p => disk_restore r (files_set p name d)
            end
        end
    end.

  (** Holder.put_in_cache -> _set of a restored simulation (no memory configuration):
      _to_array's length check, the period check, InMemoryStorage.put *)
  Definition holder_set (x : var) (v : nat) (count : nat) (p : period) (a : val) (s : st) : res st :=
    if negb (Nat.eqb (length a) count) then Err EValue
    else if negb (is_eternal x) && (negb (unit_eqb (v_unit x) (p_unit p)) || (1 <? p_size p)%Z)
    then Err EMismatch
    else Ok (put (v, norm x p) a s).

  (** for period in disk_storage.get_known_periods():
          holder.put_in_cache(disk_storage.get(period), period) *)
  Definition restore_period (x : var) (v : nat) (count : nat) (f : fs) (d : files)
             (e : period * string) (s : st) : res st :=
    let p := fst e in
    match files_get (if is_eternal x then eternity_period else p) d with
    | None => Err EValue           (* value None: numpy.asarray(None) has the wrong length *)
    | Some name =>
        match fs_read (PVar v name) f with
        | Some (CArr a) => holder_set x v count p a s
        | _ => Err EOther
        end
    end.

  (** _restore_holder(simulation, variable_name, directory) *)
  Definition restore_holder (sy : sys) (pcount gcount : nat) (f : fs) (v : nat) (s : st) : res st :=
    match nth_error (vars sy) v with
    | None => Err ENotFound        (* simulation.get_holder: unknown variable *)
    | Some x =>
        match disk_restore (listdir_var v f) [] with
        | Err er => Err er
        | Ok d =>
            let count := match v_ent x with EPerson => pcount | EGroup => gcount end in
            foldM (restore_period x v count f d) d s
        end
    end.

  Definition empty_simu : simu :=
    {| u_pcount := 0; u_pids := []; u_gcount := 0; u_gids := []; u_members := []; u_roles := [];
       u_pos := None; u_st := init [] |}.

  (** restore_simulation(directory, tax_benefit_system) *)
  Definition restore_simulation (sy : sys) (og : option gentity) (f : fs) : res simu :=
    match (match og with Some e => restore_group e f empty_simu | None => Ok empty_simu end) with
    | Err er => Err er
    | Ok u1 =>
        match restore_persons f u1 with
        | Err er => Err er
        | Ok u2 =>
            match foldM (restore_holder sy (u_pcount u2) (u_gcount u2) f) (listdir_top f) (u_st u2) with
            | Err er => Err er
            | Ok s => Ok (with_st u2 s)
            end
        end
    end.
End Dump.

(** The restore as it was before "fix: restore_simulation takes entity counts from the
    stored ids": the number of groups was max(members_entity_id) + 1.  Kept for the
    refutation lemma in proofs/DumpProofs.v. *)
Definition group_count_before_fix (members : list nat) : nat :=
  match members with [] => 0 | _ => S (list_max members) end.

(** * A decidable check of what the theorems of C19 assume about a simulation
    (proofs/DumpProofs.v: [dumpable_b_sound]); the correspondence evaluates it on every
    generated state.  The storability of the stored periods is not part of it. *)
Definition key_ok_b (sy : sys) (u : simu) (k : key) (a : val) : bool :=
  match nth_error (vars sy) (fst k) with
  | None => false
  | Some x =>
      negb (v_neutral x)
      && (if is_eternal x then period_eqb (snd k) eternity_period
          else unit_eqb (p_unit (snd k)) (v_unit x) && (p_size (snd k) <=? 1)%Z)
      && Nat.eqb (length a) (count_in u (v_ent x))
  end.

Fixpoint nodup_strings (l : list string) : bool :=
  match l with
  | [] => true
  | x :: r => negb (existsb (String.eqb x) r) && nodup_strings r
  end.

Definition group_ok_b (e : gentity) (u : simu) : bool :=
  Nat.eqb (u_gcount u) (length (u_gids u))
  && match flattened_roles e with [] => false | _ => true end
  && nodup_strings (map (role_key e) (flattened_roles e))
  && forallb (fun r => existsb (Nat.eqb r) (flattened_roles e)) (u_roles u)
  && match positions u with Ok _ => true | Err _ => false end.

Definition dumpable_b (sy : sys) (og : option gentity) (u : simu) : bool :=
  forallb (fun kv => key_ok_b sy u (fst kv) (snd kv)) (cache (u_st u))
  && Nat.eqb (u_pcount u) (length (u_pids u))
  && match og with Some e => group_ok_b e u | None => Nat.eqb (u_gcount u) 0 end.
