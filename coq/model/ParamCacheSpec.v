(** Vocabulary of the statements about model/ParamCache.v (property C07): what the
    cache-free reference keeps of a system, the invariant of the cache, the state reached
    by a sequence, trees with unique member names, the names followed by element j of a
    fancy-indexing chain, the member in force at a date.  Definitions only. *)
From Coq Require Import ZArith List Bool String.
From Verif Require Import Base Cal Param ParamCache.
Import ListNotations.
Open Scope Z_scope.

(** What the reference keeps of a system. *)
Definition erase (s : sys) : option tree * tree :=
  (match s_base s with Some (_, b) => Some b | None => None end, s_root s).

(** The invariant: identities are fresh, and when the cache is stamped with the identity
    of the current tree, every entry is the graph of [at_instant] of the current tree. *)
Definition cache_ok (s : sys) : Prop :=
  (s_rid s < s_next s)%nat /\
  (forall k, s_cached s = Some k -> (k < s_next s)%nat) /\
  (s_cached s = Some (s_rid s) ->
   forall i ov, assoc i (s_cache s) = Some ov -> ov = at_instant (s_root s) i).


(** The state reached by a sequence. *)
Definition exec (m : mode) (s : sys) (ops : list op) : sys :=
  fold_left (fun s o => fst (step m s o)) ops s.


Fixpoint wf_tree (t : tree) : Prop :=
  match t with
  | TNode ch =>
      NoDup (map fst ch) /\
      (fix all (l : list (string * tree)) : Prop :=
         match l with [] => True | (_, c) :: r => wf_tree c /\ all r end) ch
  | _ => True
  end.


Definition wf_op (o : op) : Prop := match o with Load t => wf_tree t | _ => True end.

Definition wf_sys (s : sys) : Prop :=
  wf_tree (s_root s) /\ match s_base s with Some (_, b) => wf_tree b | None => True end.


Definition step_name (j : nat) (s : vstep) : option string :=
  match s with SField n => Some n | SKeys ks => nth_error ks j end.

Fixpoint step_names (j : nat) (l : list vstep) : option (list string) :=
  match l with
  | [] => Some []
  | s :: r => match step_name j s, step_names j r with
              | Some n, Some ns => Some (n :: ns)
              | _, _ => None
              end
  end.

Definition same_length (n : nat) (s : vstep) : Prop :=
  match s with SField _ => True | SKeys ks => List.length ks = n end.


(** the member in force at a date: the last dated member on or before it, the "before"
    member when there is none *)
Fixpoint in_force (cur : view) (afters : list (Z * view)) (d : Z) : view :=
  match afters with
  | [] => cur
  | (a, x) :: r => if a <=? d then in_force x r d else cur
  end.

(** declared in chronological order *)
Fixpoint chrono (l : list (Z * view)) : Prop :=
  match l with
  | [] => True
  | (a, _) :: r => match r with [] => True | (b, _) :: _ => a <= b end /\ chrono r
  end.

Definition after_dates (afters : list (Z * view)) : list (option Z) := map (fun a => Some (fst a)) afters.


Definition dated (nc : string * view) (ax : Z * view) : Prop :=
  classify_asof (fst nc) = ADate (fst ax) /\ snd nc = snd ax.

