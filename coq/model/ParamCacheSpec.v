(** Vocabulary of the statements about model/ParamCache.v (property C07): what the
    cache-free reference keeps of a system, the invariant of the cache, the state reached
    by a sequence, trees with unique member names, the names followed by element j of a
    fancy-indexing chain, the member in force at a date.  Definitions only. *)
From Coq Require Import ZArith List Bool String.
From Verif Require Import Base Cal Param ParamCache.
Import ListNotations.
Open Scope Z_scope.

(** The invariant of one system's cache, [next] being the next fresh identity of the
    world: identities in use are older than [next], and when the cache is stamped with
    the identity of the system's current tree, every entry is the graph of [at_instant]
    of that tree. *)
Definition cache_ok (next : nat) (s : sys) : Prop :=
  (s_rid s < next)%nat /\
  (forall k, s_cached s = Some k -> (k < next)%nat) /\
  (s_cached s = Some (s_rid s) ->
   forall i ov, assoc i (s_cache s) = Some ov -> ov = at_instant (s_root s) i).

Definition world_ok (w : world) : Prop := Forall (cache_ok (w_next w)) (w_sys w).

(** two worlds that differ by their caches only *)
Definition same_trees (s s' : sys) : Prop :=
  s_base s = s_base s' /\ s_root s = s_root s' /\ s_rid s = s_rid s'.

Definition same_world (w w' : world) : Prop :=
  w_next w = w_next w' /\ Forall2 same_trees (w_sys w) (w_sys w').

(** The world reached by a sequence. *)
Definition wexec (m : mode) (w : world) (ops : list (nat * op)) : world :=
  fold_left (fun w o => fst (wstep m w o)) ops w.

Fixpoint wf_tree (t : tree) : Prop :=
  match t with
  | TNode ch =>
      NoDup (map fst ch) /\
      (fix all (l : list (string * tree)) : Prop :=
         match l with [] => True | (_, c) :: r => wf_tree c /\ all r end) ch
  | _ => True
  end.


Definition wf_item (it : mitem) : Prop := match it with MAdd _ _ c => wf_tree c | MUpd _ _ => True end.

Definition wf_op (o : nat * op) : Prop :=
  match snd o with Load t => wf_tree t | Modify ups _ => Forall wf_item ups | _ => True end.

Definition wf_world (w : world) : Prop := Forall (fun s => wf_tree (s_root s)) (w_sys w).

Definition step_name (j : nat) (s : vstep) : option string :=
  match s with SField n => Some n | SKeys ks => nth_error ks j end.

Fixpoint step_names (j : nat) (l : list vstep) : option (list string) :=
  match l with
  | [] => Some []
  | s :: r => match step_name j s, step_names j r with
              | Some n, Some ns => Some (n :: ns)
              | _, _ => None
              end
  end.

Definition same_length (n : nat) (s : vstep) : Prop :=
  match s with SField _ => True | SKeys ks => List.length ks = n end.


(** the member in force at a date: the last dated member on or before it, the "before"
    member when there is none *)
Fixpoint in_force (cur : view) (afters : list (Z * view)) (d : Z) : view :=
  match afters with
  | [] => cur
  | (a, x) :: r => if a <=? d then in_force x r d else cur
  end.

(** declared in chronological order *)
Fixpoint chrono (l : list (Z * view)) : Prop :=
  match l with
  | [] => True
  | (a, _) :: r => match r with [] => True | (b, _) :: _ => a <= b end /\ chrono r
  end.

Definition after_dates (afters : list (Z * view)) : list (option Z) := map (fun a => Some (fst a)) afters.


Definition dated (nc : string * view) (ax : Z * view) : Prop :=
  classify_asof (fst nc) = ADate (fst ax) /\ snd nc = snd ax.

