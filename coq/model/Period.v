(** Executable model of openfisca_core.periods: Instant.offset and Period
    (period_.py) — stop, sizes, containment, intersection, sub-periods, offsets and the
    named reference periods.  Written function by function after the code; models what
    the code does, including behaviour no property asks for.  No proofs here. *)
From Coq Require Import ZArith List Bool.
From Verif Require Import Base Cal Tables.
Import ListNotations.
Open Scope Z_scope.
Open Scope res_scope.

Definition period := (unit_t * date * Z)%type.   (* (unit, start, size) *)

Definition p_unit (p : period) : unit_t := fst (fst p).
Definition p_start (p : period) : date := snd (fst p).
Definition p_size (p : period) : Z := snd p.

Definition eternity_instant : date := (-1, -1, -1).
Definition eternity_period : period := (Eternity, eternity_instant, -1).

(** Instant.offset with an integer offset.  Eternity fails the unit assertion. *)
Definition instant_offset (c : date) (n : Z) (u : unit_t) : res date :=
  match u with
  | Year => Ok (add_years c n)
  | Month => Ok (add_months c n)
  | Week => Ok (add_days c (7 * n))
  | Day | Weekday => Ok (add_days c n)
  | Eternity => Err EOther
  end.

(** Instant.offset("first-of", unit); [None] models the Python [None] result. *)
Definition instant_first_of (c : date) (u : unit_t) : res (option date) :=
  let '(y, m, _) := c in
  match u with
  | Year => Ok (Some (y, 1, 1))
  | Month => Ok (Some (y, m, 1))
  | Week => Ok (Some (start_of_week c))
  | Day | Weekday => Ok None
  | Eternity => Err EOther
  end.

Definition instant_last_of (c : date) (u : unit_t) : res (option date) :=
  let '(y, m, _) := c in
  match u with
  | Year => Ok (Some (y, 12, 31))
  | Month => Ok (Some (y, m, dim y m))
  | Week => Ok (Some (end_of_week c))
  | Day | Weekday => Ok None
  | Eternity => Err EOther
  end.

(** Period.stop *)
Definition stop (p : period) : date :=
  let '(u, s, n) := p in
  match u with
  | Eternity => eternity_instant
  | Year => add_days (add_years s n) (-1)
  | Month => add_days (add_months s n) (-1)
  | Week => add_days s (7 * n - 1)
  | Day | Weekday => add_days s (n - 1)
  end.

(** Period.days *)
Definition days (p : period) : Z := ord (stop p) - ord (p_start p) + 1.

Definition size_in_years (p : period) : res Z :=
  match p_unit p with Year => Ok (p_size p) | _ => Err EValue end.

Definition size_in_months (p : period) : res Z :=
  match p_unit p with
  | Year => Ok (p_size p * 12)
  | Month => Ok (p_size p)
  | _ => Err EValue
  end.

Definition size_in_days (p : period) : res Z :=
  let '(u, s, n) := p in
  match u with
  | Year | Month =>
      let* last := instant_offset s n u in
      let* last_day := instant_offset last (-1) Day in
      Ok (ord last_day - ord s + 1)
  | Week => Ok (n * 7)
  | Day | Weekday => Ok n
  | Eternity => Err EValue
  end.

(* pendulum: start.diff(cease).in_weeks() = |days| // 7 *)
Definition size_in_weeks (p : period) : res Z :=
  let '(u, s, n) := p in
  match u with
  | Year => Ok (Z.abs (ord (add_years s n) - ord s) / 7)
  | Month => Ok (Z.abs (ord (add_months s n) - ord s) / 7)
  | Week => Ok n
  | _ => Err EValue
  end.

Definition size_in_weekdays (p : period) : res Z :=
  let '(u, s, n) := p in
  match u with
  | Year => let* w := size_in_weeks p in Ok (w * 7)
  | Month =>
      let* last := instant_offset s n u in
      let* last_day := instant_offset last (-1) Day in
      Ok (ord last_day - ord s + 1)
  | Week => Ok (n * 7)
  | Day | Weekday => Ok n
  | Eternity => Err EValue
  end.

(** Period.offset(n, unit) — [u = None] means "the period's own unit". *)
Definition offset (p : period) (n : Z) (u : option unit_t) : res period :=
  let '(pu, s, sz) := p in
  let* s' := instant_offset s n (match u with Some u' => u' | None => pu end) in
  Ok (pu, s', sz).

(** Period.contains *)
Definition contains (p q : period) : bool :=
  date_leb (p_start p) (p_start q) && date_leb (stop q) (stop p).

(** Period.intersection(start, stop) *)
Definition intersection_core (p : period) (a' b' : date) : option period :=
  let ps := p_start p in
  let pe := stop p in
  if date_ltb b' ps || date_ltb pe a' then None
  else
    let is_ := date_max ps a' in
    let ie := date_min pe b' in
    if date_eqb is_ ps && date_eqb ie pe then Some p
    else
      let '(sy, sm, sd) := is_ in
      let '(ey, em, ed) := ie in
      if (sd =? 1) && (sm =? 1) && (ed =? 31) && (em =? 12)
      then Some (Year, is_, ey - sy + 1)
      else if (sd =? 1) && (ed =? dim ey em)
      then Some (Month, is_, (ey - sy) * 12 + em - sm + 1)
      else Some (Day, is_, ord ie - ord is_ + 1).

Definition intersection (p : period) (a b : option date) : option period :=
  match a, b with
  | None, None => Some p
  | _, _ =>
      intersection_core p (match a with Some x => x | None => p_start p end)
                          (match b with Some x => x | None => stop p end)
  end.

(** Named reference periods *)
Definition first_of_or_fail (c : date) (u : unit_t) : res date :=
  let* o := instant_first_of c u in
  match o with Some d => Ok d | None => Err EOther end.

Definition this_year (p : period) : res period :=
  let* s := first_of_or_fail (p_start p) Year in Ok (Year, s, 1).
Definition first_month (p : period) : res period :=
  let* s := first_of_or_fail (p_start p) Month in Ok (Month, s, 1).
Definition first_week (p : period) : res period :=
  let* s := first_of_or_fail (p_start p) Week in Ok (Week, s, 1).
Definition first_day (p : period) : res period := Ok (Day, p_start p, 1).
Definition first_weekday (p : period) : res period := Ok (Weekday, p_start p, 1).

Definition last_year (p : period) : res period :=
  let* q := this_year p in offset q (-1) None.
Definition n_2 (p : period) : res period :=
  let* q := this_year p in offset q (-2) None.
Definition last_month (p : period) : res period :=
  let* q := first_month p in offset q (-1) None.
Definition last_3_months (p : period) : res period :=
  let* q := first_month p in offset (Month, p_start q, 3) (-3) None.
Definition last_week (p : period) : res period :=
  let* q := first_week p in offset q (-1) None.
Definition last_fortnight (p : period) : res period :=
  let* q := first_week p in offset (Week, p_start q, 1) (-2) None.
Definition last_2_weeks (p : period) : res period :=
  let* q := first_week p in offset (Week, p_start q, 2) (-2) None.
Definition last_26_weeks (p : period) : res period :=
  let* q := first_week p in offset (Week, p_start q, 26) (-26) None.
Definition last_52_weeks (p : period) : res period :=
  let* q := first_week p in offset (Week, p_start q, 52) (-52) None.

(** Period.get_subperiods(unit) *)
Definition subperiods (p : period) (u : unit_t) : res (list period) :=
  if unit_weight (p_unit p) <? unit_weight u then Err EValue
  else
    let gen (base : res period) (count : res Z) : res (list period) :=
      let* b := base in
      let* n := count in
      mapM (fun i => offset b i (Some u)) (zrange n) in
    match u with
    | Year => gen (this_year p) (Ok (p_size p))
    | Month => gen (first_month p) (size_in_months p)
    | Day => gen (first_day p) (size_in_days p)
    | Week => gen (first_week p) (size_in_weeks p)
    | Weekday => gen (first_weekday p) (size_in_weekdays p)
    | Eternity => Err EValue
    end.

Definition period_eqb (p q : period) : bool :=
  unit_eqb (p_unit p) (p_unit q) && date_eqb (p_start p) (p_start q) && (p_size p =? p_size q).
