(** Executable model of the two outer layers that report engine values:

      openfisca_web_api/handlers.py        calculate, trace
      openfisca_web_api/app.py             status codes of /calculate and /trace
      openfisca_web_api/loader/parameters.py   build_api_values_history
      openfisca_web_api/loader/variables.py    build_variable (formulas by start date)
      openfisca_core/tracers/flat_trace.py     key, serialize
      openfisca_core/tools/test_runner.py  YamlItem.check_output / check_variable, ErrorMargin
      openfisca_core/tools/__init__.py     assert_near, assert_enum_equals, assert_datetime_equals

    A JSON situation is the list, in document order, of its depth-4 paths
    (entity plural, instance id, key, sub-key) with the leaf found there: for a variable
    the sub-key is the period key; the members of a role are leaves too
    (households, h, parents, "0") |-> Str "p1", so a response can be compared with the
    request as a whole.  Instances without any key ("Javier": {}) have no path: the ids of
    every population are given next to the document.

    The engine is abstract here: a function [calc] from a state, a variable name and a
    period key (the text found in the document) to a new state and an array or an error
    kind.  With the state type [unit] it is a pure table [value_of]; with [Engine.st] it is the
    machine of Engine.v.  No proofs in this file. *)
From Coq Require Import ZArith QArith Qabs List Bool String Ascii.
From Verif Require Import Base Cal Tables Period PeriodStr Param Engine.
Import ListNotations.
Open Scope string_scope.
Open Scope Z_scope.

(** * JSON leaves, paths, documents *)

Inductive leaf :=
  | Null
  | Num (z : Z)          (* a JSON integer *)
  | Flt (q : Q)          (* a JSON number with a fraction part or an exponent (a Python float) *)
  | Bool (b : bool)
  | Str (s : string).

Definition is_null (l : leaf) : bool := match l with Null => true | _ => false end.

Definition path := (string * string * string * string)%type.

Definition path_eqb (a b : path) : bool :=
  let '(a1, a2, a3, a4) := a in
  let '(b1, b2, b3, b4) := b in
  String.eqb a1 b1 && String.eqb a2 b2 && String.eqb a3 b3 && String.eqb a4 b4.

Definition doc := list (path * leaf).

Definition dlookup (p : path) (d : doc) : option leaf :=
  option_map snd (find (fun e => path_eqb p (fst e)) d).

Definition dmem (p : path) (d : doc) : bool := existsb (fun e => path_eqb p (fst e)) d.

(** * Value types and rendering (handlers.calculate, FlatTrace.serialize) *)

Inductive jtype := JInt | JFloat | JBool | JStr | JDate | JEnum (names : list string).

(** One element of an engine array.  Ints, bools (0/1) and enum indices are [RZ]; floats
    are [RZ] when integral (the arrays of Engine.v) or [RQ]. *)
Inductive raw :=
  | RZ (z : Z) | RQ (q : Q) | RS (s : string) | RD (d : date)
  | RNF                        (* a float that is NaN, +inf or -inf *)
  | RF (exact shortest : Q).   (* a float32 whose shortest decimal text, read back as a double, is not the
                                  float32 value itself (0.1, 18518.518): the value, and float(str(x)) *)

(* str(numpy.datetime64(..., 'D')) / date.isoformat() *)
Definition iso_date (d : date) : string := let '(y, m, dd) := d in iso_text y m dd.

(** The element of the response for one entity instance:
      Enum   result.decode()[i].name
      float  float(str(result[i]))
      date   str(result[i])          (ISO)
      str    str(result[i])
      else   result.tolist()[i]      (int, bool)
    FlatTrace.serialize renders whole arrays the same way element by element. *)
Definition render (ty : jtype) (r : raw) : leaf :=
  match ty, r with
  | JInt, RZ z => Num z
  | JBool, RZ z => Bool (negb (z =? 0))
  | JFloat, RZ z => Flt (inject_Z z)
  | JFloat, RQ q => Flt q
  | JFloat, RF _ s => Flt s          (* float(str(result[i])): the shortest text that identifies the float32 *)
  | JStr, RS s => Str s
  | JDate, RD d => Str (iso_date d)
  | JEnum names, RZ z => Str (nth (Z.to_nat z) names "")
  | _, _ => Null      (* an array whose dtype is not the variable's: never produced *)
  end.

(** FlatTrace.serialize: like [render], except that a float array goes through tolist():
    every element is the double equal to the float32 value. *)
Definition serialize (ty : jtype) (r : raw) : leaf :=
  match ty, r with
  | JFloat, RF e _ => Flt e
  | _, _ => render ty r
  end.

Fixpoint index_of (x : string) (l : list string) : option nat :=
  match l with
  | [] => None
  | y :: r => if String.eqb x y then Some O else option_map S (index_of x r)
  end.

(** The outcome of a request (app.py): the situation parser's refusal carries its own
    status (404 for an unknown variable, else 400); a PeriodMismatchError raised anywhere
    in the handler is a 400 too; any other exception goes to the 500 handler. *)
Inductive reply (A : Type) := Done (a : A) | Refused (status : Z) | Crashed (e : err).
Arguments Done {A} a.
Arguments Refused {A} status.
Arguments Crashed {A} e.

Definition parse_status (e : err) : Z := match e with ENotFound => 404 | _ => 400 end.

Definition failed {A} (e : err) : reply A :=
  match e with ESituation | EMismatch => Refused 400 | _ => Crashed e end.

Definition status_of {A} (r : reply A) : Z :=
  match r with Done _ => 200 | Refused s => s | Crashed _ => 500 end.

(** * The handlers *)

Section Handler.
  Context {St : Type}.
  (** tax_benefit_system.get_variable(name): value type and plural of its entity *)
  Variable var_info : string -> option (jtype * string).
  (** simulation.get_population(plural).ids, None for an unknown entity *)
  Variable ids_of : string -> option (list string).
  (** the key is a role of that group entity (its members are not variables) *)
  Variable is_role : string -> string -> bool.
  (** periods.period(key) succeeds *)
  Variable period_ok : string -> bool.
  (** SimulationBuilder().build_from_entities(tbs, input): the new simulation *)
  Variable build : doc -> res St.
  (** simulation.calculate(variable_name, period_key) *)
  Variable ecalc : St -> string -> string -> St * res (list raw).

  (** What build_from_entities refuses, as far as this model goes: an unknown entity
      (400), then in document order an unknown variable (404), a variable of another
      entity (400), a period key that is not a period (400). *)
  Definition check_entity (e : path * leaf) : res unit :=
    let '((pl, _, _, _), _) := e in
    match ids_of pl with None => Err ESituation | Some _ => Ok tt end.

  Definition check_variable_entry (e : path * leaf) : res unit :=
    let '((pl, _, k, pk), _) := e in
    if is_role pl k then Ok tt
    else match var_info k with
         | None => Err ENotFound
         | Some (_, vpl) =>
             if negb (String.eqb vpl pl) then Err ESituation
             else if period_ok pk then Ok tt else Err ESituation
         end.

  Fixpoint check_all (f : path * leaf -> res unit) (d : doc) : res unit :=
    match d with
    | [] => Ok tt
    | e :: r => match f e with Err x => Err x | Ok _ => check_all f r end
    end.

  Definition check_doc (d : doc) : res unit :=
    match check_all check_entity d with
    | Err x => Err x
    | Ok _ => check_all check_variable_entry d
    end.

  (** dpath.search(input_data, "*/*/*/*", afilter=lambda t: t is None) *)
  Definition null_paths (d : doc) : list path :=
    map fst (filter (fun e => is_null (snd e)) d).

  (** The body of the loop of handlers.calculate for one requested slot. *)
  Definition slot_leaf (s : St) (pa : path) : St * res leaf :=
    let '(pl, id, v, pk) := pa in
    match var_info v with
    | None => (s, Err ENotFound)
    | Some (ty, _) =>
        let '(s1, r) := ecalc s v pk in
        match r with
        | Err e => (s1, Err e)
        | Ok arr =>
            match ids_of pl with
            | None => (s1, Err EOther)
            | Some ids =>
                match index_of id ids with
                | None => (s1, Err EValue)                 (* list.index *)
                | Some i =>
                    match nth_error arr i with
                    | None => (s1, Err EIndex)
                    | Some x => (s1, Ok (render ty x))
                    end
                end
            end
        end
    end.

  (** computation_results, in the order of the search *)
  Fixpoint compute (s : St) (ps : list path) : St * res doc :=
    match ps with
    | [] => (s, Ok [])
    | pa :: r =>
        let '(s1, x) := slot_leaf s pa in
        match x with
        | Err e => (s1, Err e)
        | Ok l =>
            let '(s2, y) := compute s1 r in
            (s2, match y with Err e => Err e | Ok d => Ok ((pa, l) :: d) end)
        end
    end.

  (** dpath.merge(input_data, computation_results): leaves of the second replace those of
      the first, paths that the first does not have are added. *)
  Definition merge (d results : doc) : doc :=
    (map (fun e => match dlookup (fst e) results with Some l => (fst e, l) | None => e end) d
     ++ filter (fun r => negb (dmem (fst r) d)) results)%list.

  Definition api_calculate (d : doc) : reply doc :=
    match check_doc d with
    | Err e => Refused (parse_status e)
    | Ok _ =>
        match build d with
        | Err e => failed e
        | Ok s0 =>
            match snd (compute s0 (null_paths d)) with
            | Err e => failed e
            | Ok r => Done (merge d r)
            end
        end
    end.

  (** ** /trace *)

  (* f"{variable_name}<{period}>" *)
  Definition trace_key (v pk : string) : string := v ++ "<" ++ pk ++ ">".

  Record trace_out := mk_trace {
    requested : list string;                    (* requestedCalculations *)
    described : list (string * list string);    (* entitiesDescription *)
    traced : list (string * list leaf)          (* trace[key].value of the requested calculations *)
  }.

  (** tax-benefit system's entity plurals, persons first *)
  Variable plurals : list string.
  (** str(periods.period(key)) *)
  Variable canon : string -> string.

  Fixpoint trace_values (s : St) (ps : list path) : St * res (list (string * list leaf)) :=
    match ps with
    | [] => (s, Ok [])
    | (_, _, v, pk) :: r =>
        match var_info v with
        | None => (s, Err ENotFound)
        | Some (ty, _) =>
            let '(s1, x) := ecalc s v pk in
            match x with
            | Err e => (s1, Err e)
            | Ok arr =>
                let '(s2, y) := trace_values s1 r in
                (s2, match y with
                     | Err e => Err e
                     | Ok t => Ok ((trace_key v (canon pk), map (serialize ty) arr) :: t)
                     end)
            end
        end
    end.

  Definition describe_entities : list (string * list string) :=
    map (fun pl => (pl, match ids_of pl with Some ids => ids | None => [] end)) plurals.

  Definition api_trace (d : doc) : reply trace_out :=
    match check_doc d with
    | Err e => Refused (parse_status e)
    | Ok _ =>
        match build d with
        | Err e => failed e
        | Ok s0 =>
            match snd (trace_values s0 (null_paths d)) with
            | Err e => failed e
            | Ok t => Done {| requested := map (fun pa => let '(_, _, v, pk) := pa in trace_key v pk) (null_paths d);
                              described := describe_entities;
                              traced := t |}
            end
        end
    end.

  (** ** An application instance serving a sequence of requests.  create_app keeps the
      tax-benefit system and the listings; the handlers build a new simulation for every
      request, so the model of the server has no state at all. *)
  Inductive api_request := ReqCalculate (d : doc) | ReqTrace (d : doc).
  Inductive api_response := RespDoc (r : reply doc) | RespTrace (r : reply trace_out).

  Definition handle (r : api_request) : api_response :=
    match r with
    | ReqCalculate d => RespDoc (api_calculate d)
    | ReqTrace d => RespTrace (api_trace d)
    end.

  Definition serve (rs : list api_request) : list api_response := map handle rs.
End Handler.

(** The engine as a table: no state. *)
Definition table_calc (value_of : string -> string -> res (list raw))
  : unit -> string -> string -> unit * res (list raw) := fun _ v pk => (tt, value_of v pk).
Definition table_build : doc -> res unit := fun _ => Ok tt.

(** * Listings *)

(** loader/parameters.py build_api_values_history: {instant_str: value} of values_list.
    Histories of Param.v keep dates as ordinals. *)
Definition api_parameter_values (h : hist Z) : list (string * option Z) :=
  map (fun kv => (iso_date (of_ord (fst kv)), snd kv)) h.

(** loader/variables.py build_variable: result["formulas"] = {start date: source of the formula}
    for every dated formula of variable.formulas (a SortedDict keyed by the ISO start date),
    plus {get_next_day(variable.end): None} when the variable has an end; no "formulas" key at
    all for a variable without formula (even with an end).  A formula is [Some expr] here, the
    end marker [None]; a later entry with the same date replaces an earlier one (dict). *)
Definition api_variable_formula_dates (x : var) : list (date * option expr) :=
  match v_formulas x with
  | [] => []
  | fs => (map (fun se => (fst se, Some (snd se))) fs
           ++ match v_end x with Some e => [(add_days e 1, None)] | None => [] end)%list
  end.

Definition api_variable_formulas (x : var) : list (string * bool) :=
  map (fun e => (iso_date (fst e), match snd e with Some _ => true | None => false end))
      (api_variable_formula_dates x).

Definition unit_upper (u : unit_t) : string := upper (unit_name u).

(* "valueType": VALUE_TYPES[...]["formatted_value_type"] *)
Definition formatted_type (t : vtype) : string :=
  match t with TInt => "Int" | TFloat => "Float" | TBool => "Boolean" end.

Definition api_default_value (x : var) : leaf :=
  match v_type x with
  | TInt => Num (v_default x)
  | TFloat => Flt (inject_Z (v_default x))
  | TBool => Bool (negb (v_default x =? 0))
  end.

Definition entity_key (e : ent) : string :=
  match e with EPerson => "person" | EGroup => "household" end.

(** The attributes of GET /variable/<id> that depend on the variable's definition
    (build_variable): "defaultValue" (get_default_value), "valueType", "definitionPeriod"
    (definition_period.upper()), "entity" (entity.key), "formulas".  "id", "description",
    "source", "documentation", "references" are texts of the declaration; "possibleValues"
    exists for Enum variables only, which the rule language of Engine.v does not have (the
    harness compares it for its own enum variables, oracle side). *)
Record variable_listing := mk_listing {
  a_default : leaf;
  a_value_type : string;
  a_definition_period : string;
  a_entity : string;
  a_formulas : list (string * bool)      (* ISO start date |-> a formula (true) or null (false) *)
}.

Definition api_variable (x : var) : variable_listing :=
  {| a_default := api_default_value x;
     a_value_type := formatted_type (v_type x);
     a_definition_period := unit_upper (v_unit x);
     a_entity := entity_key (v_ent x);
     a_formulas := api_variable_formulas x |}.

(** * The engine of Engine.v behind the handlers *)

Definition raws (a : val) : list raw := map RZ a.

Definition jtype_of (t : vtype) : jtype :=
  match t with TInt => JInt | TFloat => JFloat | TBool => JBool end.

Definition persons_pl : string := "persons".
Definition groups_pl : string := "households".

Definition plural_of (e : ent) : string :=
  match e with EPerson => persons_pl | EGroup => groups_pl end.

Section Eng.
  Variable sy : sys.
  Variable pp : popu.
  Variable names : list string.          (* name of variable number i *)
  Variable pids gids : list string.      (* ids of the persons and of the groups *)

  Definition eng_var (v : string) : option (nat * var) :=
    match index_of v names with
    | None => None
    | Some i => match nth_error (vars sy) i with None => None | Some x => Some (i, x) end
    end.

  Definition eng_var_info (v : string) : option (jtype * string) :=
    match eng_var v with
    | None => None
    | Some (_, x) => Some (jtype_of (v_type x), plural_of (v_ent x))
    end.

  Definition eng_ids_of (pl : string) : option (list string) :=
    if String.eqb pl persons_pl then Some pids
    else if String.eqb pl groups_pl then Some gids else None.

  Definition eng_is_role (pl k : string) : bool :=
    String.eqb pl groups_pl && (String.eqb k "parents" || String.eqb k "children" || String.eqb k "heads").

  Definition eng_period_ok (pk : string) : bool :=
    match parse_period pk with Ok _ => true | Err _ => false end.

  Definition eng_canon (pk : string) : string :=
    match parse_period pk with
    | Ok p => match show_period p with Ok s => s | Err _ => pk end
    | Err _ => pk
    end.

  (** simulation.calculate(name, key) on the machine *)
  Definition eng_calc (s : st) (v pk : string) : st * res (list raw) :=
    match eng_var v with
    | None => (s, Err ENotFound)
    | Some (i, _) =>
        match parse_period pk with
        | Err e => (s, Err e)
        | Ok p => let '(s1, r) := calc (enough_fuel sy) sy pp s i p in (s1, rmap raws r)
        end
    end.

  (** the same request answered by the meaning of the rule system *)
  Definition eng_value_of (inp : inputs) (v pk : string) : res (list raw) :=
    match eng_var v with
    | None => Err ENotFound
    | Some (i, _) =>
        match parse_period pk with
        | Err e => Err e
        | Ok p => rmap raws (sem sy pp inp i p)
        end
    end.

  (** The inputs of the situation (SimulationBuilder.add_variable_value /
      finalize_variables_init): one array per (variable, period key) that has at least
      one non-null leaf, the default elsewhere. *)
  Definition leaf_Z (l : leaf) : option Z :=
    match l with
    | Num z => Some z
    | Bool b => Some (if b then 1 else 0)
    | Flt q => if (Zpos (Qden q) =? 1) then Some (Qnum q) else None
    | _ => None
    end.

  (** the buffer of SimulationBuilder is keyed by the canonical period: two spellings of a
      period fill the same array, a later leaf of the document overwrites an earlier one *)
  Definition same_period (pk : string) (p : period) : bool :=
    match parse_period pk with Ok q => period_eqb p q | Err _ => false end.

  Definition input_array (d : doc) (pl : string) (ids : list string) (v : string) (p : period) (dflt : Z) : val :=
    map (fun id =>
           fold_left (fun acc e =>
                        let '((pl', id', v', pk'), l) := e in
                        if String.eqb pl' pl && String.eqb id' id && String.eqb v' v && same_period pk' p
                        then match leaf_Z l with Some z => z | None => acc end
                        else acc) d dflt) ids.

  Fixpoint input_keys (d : doc) (seen : list (string * period)) : list (string * string * period) :=
    match d with
    | [] => []
    | ((pl, _, v, pk), l) :: r =>
        match parse_period pk with
        | Err _ => input_keys r seen
        | Ok p =>
            if is_null l || eng_is_role pl v
               || existsb (fun s => String.eqb (fst s) v && period_eqb (snd s) p) seen
            then input_keys r seen
            else (pl, v, p) :: input_keys r ((v, p) :: seen)
        end
    end.

  (** finalize_variables_init sets the buffered periods of a variable sorted by
      (unit weight, size), equal ones in the order of the document (an eternal variable
      keeps one array for all periods: the last one set wins) *)
  Definition key_leb (a b : string * string * period) : bool :=
    let pa := snd a in let pb := snd b in
    (unit_weight (p_unit pa) <? unit_weight (p_unit pb))
    || ((unit_weight (p_unit pa) =? unit_weight (p_unit pb)) && (p_size pa <=? p_size pb)).

  Fixpoint insert_key (k : string * string * period) (l : list (string * string * period)) :=
    match l with
    | [] => [k]
    | h :: t => if key_leb k h then k :: l else h :: insert_key k t
    end.

  Definition sort_keys (l : list (string * string * period)) := fold_right insert_key [] l.

  Definition input_requests (d : doc) : list request :=
    flat_map (fun k => let '(pl, v, p) := k in
                match eng_var v, eng_ids_of pl with
                | Some (i, x), Some ids => [RSetInput i p (input_array d pl ids v p (v_default x))]
                | _, _ => []
                end) (sort_keys (input_keys d [])).

  Fixpoint apply_inputs (s : st) (rs : list request) : res st :=
    match rs with
    | [] => Ok s
    | r :: rest =>
        match step (enough_fuel sy) sy pp s r with
        | (_, AErr e) => Err e
        | (s1, _) => apply_inputs s1 rest
        end
    end.

  Definition eng_build (d : doc) : res st := apply_inputs (init []) (input_requests d).

  Definition api_calculate_eng (d : doc) : reply doc :=
    api_calculate eng_var_info eng_ids_of eng_is_role eng_period_ok eng_build eng_calc d.

  Definition api_trace_eng (d : doc) : reply trace_out :=
    api_trace eng_var_info eng_ids_of eng_is_role eng_period_ok eng_build eng_calc
              [persons_pl; groups_pl] eng_canon d.
End Eng.

(** * YAML tests *)

(** A value of the output section: a scalar, a list, or a mapping. *)
Inductive ytree := YL (l : leaf) | YS (ls : list leaf) | YD (kv : list (string * ytree)).

(** absolute_error_margin / relative_error_margin of a test (build_test, ErrorMargin):
    absent, one number for every variable, or a mapping variable |-> margin with an
    optional "default" entry (each may be null). *)
Inductive margin :=
  | MNone
  | MAll (q : Q)
  | MMap (m : list (string * option Q)) (default : option (option Q)).

Record ytest := mk_ytest {
  t_period : option string;
  t_output : list (string * ytree);
  t_abs : margin;
  t_rel : margin
}.

(* ErrorMargin.__getitem__ *)
Definition margin_for (m : margin) (v : string) : res (option Q) :=
  match m with
  | MNone => Ok None
  | MAll q => Ok (Some q)
  | MMap l d =>
      match find (fun kv => String.eqb v (fst kv)) l with
      | Some kv => Ok (snd kv)
      | None => match d with Some x => Ok x | None => Err ENotFound end     (* KeyError 'default' *)
      end
  end.

(** numpy broadcasting of two one-dimensional arrays (a scalar is an array of one) *)
Fixpoint zip_eq {A B} (a : list A) (b : list B) : list (A * B) :=
  match a, b with
  | x :: a', y :: b' => (x, y) :: zip_eq a' b'
  | _, _ => []
  end.

Definition bcast {A B} (a : list A) (b : list B) : res (list (A * B)) :=
  if Nat.eqb (List.length a) (List.length b) then Ok (zip_eq a b)
  else match a, b with
       | [x], _ => Ok (map (fun y => (x, y)) b)
       | _, [y] => Ok (map (fun x => (x, y)) a)
       | _, _ => Err EValue
       end.

(** str(x) of an expected YAML scalar, as numpy.array(target).astype(str) gives it *)
Definition leaf_text (l : leaf) : option string :=
  match l with
  | Str s => Some s
  | Num z => Some (show_Z z)
  | Bool b => Some (if b then "True" else "False")
  | _ => None
  end.

Definition leaf_Q (l : leaf) : option Q :=
  match l with
  | Num z => Some (inject_Z z)
  | Flt q => Some q
  | Bool b => Some (if b then 1%Q else 0%Q)
  | _ => None
  end.

Definition raw_Q (r : raw) : option Q :=
  match r with RZ z => Some (inject_Z z) | RQ q => Some q | RF e _ => Some e | _ => None end.

(** the text an element is compared by, for the value types compared exactly *)
Definition raw_text (ty : jtype) (r : raw) : option string :=
  match ty, r with
  | JEnum names, RZ z => Some (nth (Z.to_nat z) names "")    (* decode_to_str *)
  | JDate, RD d => Some (iso_date d)
  | JStr, RS s => Some s
  | _, _ => None
  end.

Fixpoint all_some {A} (l : list (option A)) : option (list A) :=
  match l with
  | [] => Some []
  | None :: _ => None
  | Some x :: r => match all_some r with Some t => Some (x :: t) | None => None end
  end.

Definition near (am rm : option Q) (vt : Q * Q) : bool :=
  let '(v, t) := vt in
  let diff := Qabs (t - v) in
  match am with Some a => Qle_bool diff a | None => true end
  && match rm with Some r => Qle_bool diff (Qabs (r * t)) | None => true end.

(** What an element is compared by: a number (int, float, bool as 0/1: the float32 path
    of assert_near) or a text (enum name, ISO date, string: the exact paths). *)
Inductive cmp := CNum (q : Q) | CText (s : string) | CNaN.
(* [CNaN]: a non-finite engine value; the difference with any number is NaN or infinite and
   no comparison [diff <= margin] holds *)

Definition is_numeric (ty : jtype) : bool :=
  match ty with JInt | JFloat | JBool => true | _ => false end.

Definition raw_cmp (ty : jtype) (r : raw) : option cmp :=
  if is_numeric ty then match r with RNF => Some CNaN | _ => option_map CNum (raw_Q r) end
  else option_map CText (raw_text ty r).

Definition leaf_cmp (ty : jtype) (l : leaf) : option cmp :=
  if is_numeric ty then option_map CNum (leaf_Q l) else option_map CText (leaf_text l).

Definition closeb (am rm : option Q) (p : cmp * cmp) : bool :=
  match p with
  | (CNum v, CNum t) => near am rm (v, t)
  | (CText a, CText b) => String.eqb a b
  | _ => false
  end.

(* no margin given at all: the absolute margin is 0 *)
Definition effective_abs (am rm : option Q) : option Q :=
  match am, rm with None, None => Some 0%Q | _, _ => am end.

(* equal dates go on through the numeric comparison with a difference of 0 *)
Definition date_margin_ok (ty : jtype) (am : option Q) : bool :=
  match ty, am with JDate, Some a => Qle_bool 0 a | _, _ => true end.

(** tools.assert_near(value, target, absolute, message, relative): Ok true when no
    assertion fails, Ok false for an AssertionError, Err for another exception.
    Expected dates are full ISO dates (or YAML dates), compared through their text. *)
Definition assert_near (ty : jtype) (value : list raw) (target : list leaf) (am rm : option Q) : res bool :=
  let am := effective_abs am rm in
  match all_some (map (raw_cmp ty) value), all_some (map (leaf_cmp ty) target) with
  | Some vs, Some ts =>
      match bcast vs ts with
      | Err e => Err e
      | Ok pairs => Ok (forallb (closeb am rm) pairs && date_margin_ok ty am)
      end
  | _, _ => Err EOther
  end.

Section Yaml.
  Variable var_type : string -> option jtype.            (* tax_benefit_system.get_variable *)
  Variable is_singular : string -> bool.                 (* simulation.populations.get(key) *)
  Variable ids_of : string -> option (list string).      (* simulation.get_population(plural=key).ids *)
  Variable value_of : string -> string -> res (list raw).   (* simulation.calculate *)
  Variable tst : ytest.

  (* actual_value[entity_index : entity_index + 1] *)
  Definition select (idx : option nat) (a : list raw) : list raw :=
    match idx with None => a | Some i => firstn 1 (skipn i a) end.

  Definition check_target (name : string) (target : list leaf) (period : option string) (idx : option nat)
    : res bool :=
    match var_type name with
    | None => Err ENotFound
    | Some ty =>
        match period with
        | None => Err EValue
        | Some pk =>
            match value_of name pk with
            | Err e => Err e
            | Ok arr =>
                match margin_for (t_abs tst) name with
                | Err e => Err e
                | Ok am =>
                    match margin_for (t_rel tst) name with
                    | Err e => Err e
                    | Ok rm => assert_near ty (select idx arr) target am rm
                    end
                end
            end
        end
    end.

  (** YamlItem.check_variable: a mapping gives one expectation per period key *)
  Fixpoint check_variable (name : string) (x : ytree) (period : option string) (idx : option nat) : res bool :=
    match x with
    | YL l => check_target name [l] period idx
    | YS ls => check_target name ls period idx
    | YD kv =>
        (fix go (kv : list (string * ytree)) : res bool :=
           match kv with
           | [] => Ok true
           | (pk, x') :: r =>
               match check_variable name x' (Some pk) idx with
               | Ok true => go r
               | other => other
               end
           end) kv
    end.

  (** run the checks of a list in order, stopping at the first that does not pass *)
  Fixpoint all_pass {A} (f : A -> res bool) (l : list A) : res bool :=
    match l with
    | [] => Ok true
    | a :: r => match f a with Ok true => all_pass f r | other => other end
    end.

  Definition check_variables (kv : list (string * ytree)) (idx : option nat) : res bool :=
    all_pass (fun e => check_variable (fst e) (snd e) (t_period tst) idx) kv.

  Definition check_instance (ids : list string) (e : string * ytree) : res bool :=
    match snd e with
    | YD kv =>
        all_pass (fun ve => match index_of (fst e) ids with
                            | None => Err EValue               (* population.get_index *)
                            | Some i => check_variable (fst ve) (snd ve) (t_period tst) (Some i)
                            end) kv
    | _ => Err EOther
    end.

  (** YamlItem.check_output for one key of the output section *)
  Definition check_key (e : string * ytree) : res bool :=
    let '(k, x) := e in
    match var_type k with
    | Some _ => check_variable k x (t_period tst) None
    | None =>
        if is_singular k then
          match x with YD kv => check_variables kv None | _ => Err EOther end
        else
          match ids_of k with
          | None => Err ENotFound
          | Some ids =>
              match x with YD insts => all_pass (check_instance ids) insts | _ => Err EOther end
          end
    end.

  Definition check_output : res bool := all_pass check_key (t_output tst).

  Definition yaml_verdict : bool :=
    match check_output with Ok true => true | _ => false end.
End Yaml.
