(** C13 - A cloned simulation and its original never affect each other.
    Only statements here; proofs are in proofs/HeapProofs.v.

    Vocabulary (coq/model/Heap.v, on top of coq/model/Engine.v): a [world] is a heap of
    value stores (one cell per holder), a heap of invalidated_caches sets and a list of
    simulations, each with its table variable -> cell.  [wrun pol sy w os] executes the
    operations [os] - [OpOn i r]: a top-level request (set_input, delete_arrays, calculate,
    calculate_add, calculate_divide, get_array) on simulation [i]; [OpClone i tr]:
    [simulations[i].clone(trace=tr)], appended to the world; [OpTrace i b] - and returns the
    final world and the answers.  [clone_policy disk] is how the code allocates when it
    clones (the correspondence check runs exactly [wrun (clone_policy disk)]).
    [view w i] is everything that can be read from simulation [i]: its inputs and cached
    values, its invalidated entries, its trace flag, its population.  [solo_run sy x ops]
    operates ONE simulation that shows [x], with no heap and no other party;
    [own_ops i os] are the operations of [os] addressed to [i], [own_answers i os l] the
    answers among [l] given to [i], [keeps i] the filter removing every operation of
    the other parties. *)
From Coq Require Import ZArith List Bool Arith String.
From Verif Require Import Base Cal Period Group Engine Heap HeapProofs HeapRefs HeapRefsProofs.
Import ListNotations.
Open Scope nat_scope.
Local Notation length := List.length.

(** Immediately after cloning simulation [i] of any reachable world, the clone (the new
    last simulation) shows what the original shows - same inputs and cached values, same
    invalidated entries, same population - with the requested trace flag, and no
    existing simulation shows anything different from before. *)
Theorem clone_equal : forall disk sy nv pp tr0 pre i tr x,
  let w0 := fst (wrun (clone_policy disk) sy (winit nv pp tr0) pre) in
  view w0 i = Some x ->
  let w := clone (clone_policy disk) w0 i tr in
  length (sims w) = S (length (sims w0))
  /\ view w (length (sims w0)) = Some (retraced x tr)
  /\ forall j, j < length (sims w0) -> view w j = view w0 j.
Proof. intro disk. exact (clone_equal_reachable (clone_policy disk)). Qed.
Print Assumptions clone_equal.

(** The property for an allocation policy [pol]: clone simulation [i] of any world
    reachable from a freshly built simulation; then for EVERY interleaved sequence [os] of
    operations (on either side, on third simulations, further clones) and for both sides,
    the state the side shows at the end and every answer it was given are those of that
    side operated alone from what it showed right after the clone - a function of its own
    operations only. *)
Definition clone_isolated_statement (pol : policy) : Prop :=
  forall sy nv pp tr0 pre i tr,
  let w0 := fst (wrun pol sy (winit nv pp tr0) pre) in
  i < length (sims w0) ->
  let w := clone pol w0 i tr in
  forall side, side = i \/ side = length (sims w0) ->
  exists x, view w side = Some x /\
    forall os,
      view (fst (wrun pol sy w os)) side = Some (fst (solo_run sy x (own_ops side os)))
      /\ own_answers side os (snd (wrun pol sy w os)) = snd (solo_run sy x (own_ops side os)).

Theorem clone_isolated : forall disk, clone_isolated_statement (clone_policy disk).
Proof. intro disk. exact isolated_after_clone_holds. Qed.
Print Assumptions clone_isolated.

(** In the words of the property: every read on one side equals the read in the run where
    only that side's own operations were executed. *)
Theorem clone_isolated_own_run : forall disk sy nv pp tr0 pre i tr,
  let pol := clone_policy disk in
  let w0 := fst (wrun pol sy (winit nv pp tr0) pre) in
  i < length (sims w0) ->
  let w := clone pol w0 i tr in
  forall side, side = i \/ side = length (sims w0) ->
  forall os,
    view (fst (wrun pol sy w os)) side = view (fst (wrun pol sy w (filter (keeps side) os))) side
    /\ own_answers side os (snd (wrun pol sy w os))
       = own_answers side (filter (keeps side) os) (snd (wrun pol sy w (filter (keeps side) os))).
Proof. intro disk. exact isolated_vs_own_run. Qed.
Print Assumptions clone_isolated_own_run.

(** Not only the two sides of the latest clone: every simulation of every reachable world
    (original, clone, clone of clone ...) is unaffected by whatever happens to the others. *)
Theorem every_simulation_isolated : forall disk sy nv pp tr0 pre i x os,
  let pol := clone_policy disk in
  let w := fst (wrun pol sy (winit nv pp tr0) pre) in
  view w i = Some x ->
  view (fst (wrun pol sy w os)) i = Some (fst (solo_run sy x (own_ops i os)))
  /\ own_answers i os (snd (wrun pol sy w os)) = snd (solo_run sy x (own_ops i os)).
Proof. intro disk. exact isolated_any_simulation. Qed.
Print Assumptions every_simulation_isolated.

(** Every part of the clone is the clone's own: after a clone, the store cells of any
    simulation are pairwise distinct, reached by no other simulation, and so is its set of
    invalidated entries.  (The object identities - holder.simulation, holder.population,
    members, tracer - are not part of the model; the oracle of harness/c13.py checks them
    on the implementation after every clone.) *)
Theorem clone_owns_its_stores : forall disk sy nv pp tr0 pre i tr,
  let pol := clone_policy disk in
  let w0 := fst (wrun pol sy (winit nv pp tr0) pre) in
  let w := clone pol w0 i tr in
  forall c sc j sj, c <> j -> nth_error (sims w) c = Some sc -> nth_error (sims w) j = Some sj ->
  NoDup (s_tab sc) /\ (forall l, In l (s_tab sc) -> ~ In l (s_tab sj)) /\ s_inv sc <> s_inv sj.
Proof. intro disk. exact clone_owns_its_cells. Qed.
Print Assumptions clone_owns_its_stores.

(** The earlier clones, kept as instances of the same [clone] with another policy, do
    not have the property.  Everything shared (before the repair of F13): the original
    reads an input that was given to the clone. *)
Theorem clone_isolated_refuted_shared : ~ clone_isolated_statement pol_shared.
Proof. exact shared_clone_refuted. Qed.
Print Assumptions clone_isolated_refuted_shared.

(** In-memory stores copied but on-disk stores shared (F23): the same, for a variable
    whose values are kept on disk. *)
Theorem clone_isolated_refuted_disk_shared : ~ clone_isolated_statement (pol_memory_only [true]).
Proof. exact disk_shared_clone_refuted. Qed.
Print Assumptions clone_isolated_refuted_disk_shared.

(** All value stores copied but the invalidated_caches set shared (F24): a spiral
    calculation of the original leaves its marks in the clone's set and the clone's next
    calculation purges the clone's own input. *)
Theorem clone_isolated_refuted_invalid_shared : ~ clone_isolated_statement (pol_memory_only [false]).
Proof. exact invalid_shared_clone_refuted. Qed.
Print Assumptions clone_isolated_refuted_invalid_shared.

(** Non-vacuity.  A system with an input, a formula and a group sum; the original gets
    inputs and a cached result, is cloned, then both sides are written to; they end up
    showing different things, each what it shows when operated alone. *)
Definition ex_pop : popu :=
  {| grp := {| g_entity := {| e_key := "household"%string; e_roles := []; e_containing := [] |};
               g_count := 2; g_ids := [0; 1; 0]; g_roles := [0; 0; 0] |} |}.
Definition ex_sys : sys :=
  {| vars := [ mk_var EPerson TInt Month None [] 0%Z false false;
               mk_var EPerson TInt Month None [((1, 1, 1)%Z, EBin BAdd (EDep 0 PSame OPlain) (EConst 1))] 0%Z false false;
               mk_var EGroup TInt Month None [((1, 1, 1)%Z, EAgg GSum None (EDep 1 PSame OPlain))] 0%Z false false ];
     params := []; switches := []; max_loops := 1 |}.
Definition jan : period := (Month, (2018, 1, 1)%Z, 1%Z).
Definition ex_pre : list op := [ OpOn 0 (RSetInput 0 jan [10; 20; 30]%Z); OpOn 0 (RCalc 1 jan) ].
Definition ex_os : list op :=
  [ OpOn 1 (RSetInput 0 jan [1; 2; 3]%Z); OpOn 1 (RDelete 1 None); OpOn 0 (RCalc 2 jan); OpOn 1 (RCalc 2 jan);
    OpOn 0 (RDelete 0 (Some jan)) ].
Definition ex_w0 : world := fst (wrun (clone_policy []) ex_sys (winit 3 ex_pop false) ex_pre).
Definition ex_w : world := clone (clone_policy []) ex_w0 0 true.

Example ex_clone_has_values :
  option_map (fun x => cache (lv_st x)) (view ex_w 1)
  = Some [((0, jan), [10; 20; 30]%Z); ((1, jan), [11; 21; 31]%Z)]
  /\ view ex_w 0 = view ex_w0 0 /\ 0 < length (sims ex_w0).
Proof. vm_compute. repeat split; auto. Qed.

Example ex_sides_diverge :
  snd (wrun (clone_policy []) ex_sys ex_w ex_os)
  = [ANone; ANone; AVal [42; 21]%Z; AVal [6; 3]%Z; ANone]
  /\ option_map (fun x => cache (lv_st x)) (view (fst (wrun (clone_policy []) ex_sys ex_w ex_os)) 0)
     = Some [((1, jan), [11; 21; 31]%Z); ((2, jan), [42; 21]%Z)]
  /\ option_map (fun x => cache (lv_st x)) (view (fst (wrun (clone_policy []) ex_sys ex_w ex_os)) 1)
     = Some [((0, jan), [1; 2; 3]%Z); ((1, jan), [2; 3; 4]%Z); ((2, jan), [6; 3]%Z)].
Proof. vm_compute. repeat split; reflexivity. Qed.

(** the witnesses of the refutations really are two-sided interleavings *)
Example ex_refutation_witnesses :
  own_ops 0 wit_ops_input = [LReq (RGet 0 (m18 2))]
  /\ snd (wrun pol_shared wit_sys_input (clone pol_shared (winit 1 wit_pop false) 0 false) wit_ops_input)
     = [ANone; AVal [7; 8]%Z]
  /\ snd (wrun pol_isolated wit_sys_input (clone pol_isolated (winit 1 wit_pop false) 0 false) wit_ops_input)
     = [ANone; ANone]
  /\ snd (wrun (pol_memory_only [false]) wit_sys_spiral (clone (pol_memory_only [false]) (winit 1 wit_pop false) 0 false) wit_ops_spiral)
     = [AVal [1; 1]%Z; ANone; AVal [51; 61]%Z; ANone]
  /\ snd (wrun pol_isolated wit_sys_spiral (clone pol_isolated (winit 1 wit_pop false) 0 false) wit_ops_spiral)
     = [AVal [1; 1]%Z; ANone; AVal [51; 61]%Z; AVal [50; 60]%Z].
Proof. vm_compute. repeat split; reflexivity. Qed.

(** "Every part of the clone refers to the clone rather than to the original."
    Vocabulary (coq/model/HeapRefs.v): every simulation, tracer and population is an object
    with an identity; a population records its [p_sim] (population.simulation), a household
    population its [p_members] (its persons population), every holder its [h_sim] and
    [h_pop] (holder.simulation, holder.population).  [rrun bp (rinit sy) os] is the world of
    objects after the operations [os]; [rclone bp w i] clones simulation [i] under the
    back-pointer policy [bp] ([backpointer_policy] = the code as it is now; the
    correspondence check compares these pointers with the real objects' after every
    operation).  [bound s]: both populations of [s] point to [s], the household's members
    are [s]'s persons, every holder points to [s] and to the population of [s] holding it.
    [objects s] = the simulation, its tracer, its persons and its household population.

    The clone is one new simulation [c] appended to the world (every earlier simulation is
    literally unchanged), made of four objects the world had never used; every part of [c]
    points to [c]'s own objects; every earlier simulation - the original among them - still
    points to its own objects, all older than [c]'s. *)
Definition clone_backpointers_statement (bp : bpolicy) : Prop :=
  forall sy pre i,
  let w0 := rrun bp (rinit sy) pre in
  i < length (rsims w0) ->
  let w := rclone bp w0 i in
  exists c,
    rsims w = rsims w0 ++ [c]
    /\ objects c = [r_next w0; r_next w0 + 1; r_next w0 + 2; r_next w0 + 3]
    /\ bound c = true
    /\ forall s, In s (rsims w0) -> bound s = true /\ Forall (fun o => o < r_next w0) (objects s).

Theorem clone_backpointers : clone_backpointers_statement backpointer_policy.
Proof. exact backpointers_after_clone_holds. Qed.
Print Assumptions clone_backpointers.

(** GroupPopulation.clone before fix 0ac1a97 (F13) - [GroupPopulation(self.entity, self.members)],
    [holder.clone(self)] - as the policy [BKeepOriginal] of the same [rclone]: the clone's
    household holders point to the original's population and simulation, its members are
    the original's persons. *)
Theorem clone_backpointers_refuted_prefix : ~ clone_backpointers_statement BKeepOriginal.
Proof. exact backpointers_keep_original_refuted. Qed.
Print Assumptions clone_backpointers_refuted_prefix.

(** Non-vacuity: the clone of a clone (after a trace toggle) in the example system; under the
    old policy the same clone has a household holder pointing to simulation 0 / population 3. *)
Example ex_backpointers :
  let w := rrun backpointer_policy (rinit ex_sys) [OpClone 0 false; OpTrace 1 true; OpClone 1 false] in
  map objects (rsims w) = [[0; 1; 2; 3]; [4; 8; 6; 7]; [9; 10; 11; 12]]
  /\ map bound (rsims w) = [true; true; true]
  /\ map (fun s => p_holders (r_group s)) (rsims w)
     = [[(2, mk_rholder 0 3)]; [(2, mk_rholder 4 7)]; [(2, mk_rholder 9 12)]]
  /\ map (fun s => (p_holders (r_group s), p_members (r_group s), bound s))
         (rsims (rrun BKeepOriginal (rinit ex_sys) [OpClone 0 false]))
     = [([(2, mk_rholder 0 3)], Some 2, true); ([(2, mk_rholder 0 3)], Some 2, false)].
Proof. vm_compute. repeat split; reflexivity. Qed.
