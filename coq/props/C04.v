(** C04 - Period arithmetic agrees with the calendar.  Only statements here; proofs
    are in proofs/CalProofs.v and proofs/PeriodProofs.v. *)
From Coq Require Import ZArith List Bool.
From Verif Require Import Base Cal Tables Period CalProofs.
Open Scope Z_scope.

Theorem ord_of_ord_inverse : forall n, 1 <= n -> ord (of_ord n) = n /\ valid (of_ord n).
Proof. exact of_ord_spec. Qed.
Print Assumptions ord_of_ord_inverse.

Theorem ord_injective : forall a b, valid a -> valid b -> ord a = ord b -> a = b.
Proof. exact ord_inj. Qed.
Print Assumptions ord_injective.
