(** C04 - Period arithmetic agrees with the calendar.
    Only statements here; proofs are in proofs/CalProofs.v, proofs/PeriodProofs.v and
    proofs/PeriodMoreProofs.v.  The model functions ([ord], [add_days], [add_months],
    [stop], [days], [size_in_*], [contains], [intersection], [subperiods], [offset],
    [this_year] ...) are those of model/Cal.v and model/Period.v, the very definitions the
    correspondence check (corr/Corr_C04.v) runs against the implementation.  The
    specification vocabulary ([next_day], [end_excl], [first_ord], [last_ord], [day_in],
    [wf], [aligned], [same_family], [count_in], [size_in], [eff_unit], [no_clip],
    [days_of], [months_of]) is in model/PeriodSpec.v.

    A date [c] is identified with its day number [ord c] ([ord] is a bijection between
    valid dates and the integers >= 1: [ord_of_ord_inverse], [ord_injective]), and a
    period [p] denotes the set of day numbers [day_in p].  All theorems hold for every
    year >= 1 and every size >= 1, without upper bounds. *)
From Coq Require Import ZArith List Bool Lia.
From Verif Require Import Base Cal Tables Period PeriodSpec CalProofs PeriodProofs PeriodMoreProofs.
Import ListNotations.
Open Scope Z_scope.

(** * 1. The calendar: [ord] counts days *)

Theorem ord_epoch : ord (1, 1, 1) = 1.
Proof. exact CalProofs.ord_epoch. Qed.
Print Assumptions ord_epoch.

(** [next_day] is written from the Gregorian rules (month lengths, leap years) alone *)
Theorem ord_next_day : forall c, valid c -> valid (next_day c) /\ ord (next_day c) = ord c + 1.
Proof. exact CalProofs.ord_next_day. Qed.
Print Assumptions ord_next_day.
Example ord_next_day_nonvacuous :
  valid (2023, 2, 28) /\ next_day (2023, 2, 28) = (2023, 3, 1) /\ next_day (2024, 2, 28) = (2024, 2, 29)
  /\ valid (1900, 12, 31) /\ next_day (1900, 12, 31) = (1901, 1, 1).
Proof. c04_example. Qed.

Theorem ord_of_ord_inverse : forall n, 1 <= n -> ord (of_ord n) = n /\ valid (of_ord n).
Proof. exact of_ord_spec. Qed.
Print Assumptions ord_of_ord_inverse.
Example ord_of_ord_inverse_nonvacuous : 1 <= 738945 /\ of_ord 738945 = (2024, 2, 29).
Proof. c04_example. Qed.

Theorem of_ord_ord_inverse : forall c, valid c -> of_ord (ord c) = c.
Proof. exact of_ord_ord. Qed.
Print Assumptions of_ord_ord_inverse.
Example of_ord_ord_inverse_nonvacuous : valid (2000, 2, 29).
Proof. c04_example. Qed.

Theorem ord_injective : forall a b, valid a -> valid b -> ord a = ord b -> a = b.
Proof. exact ord_inj. Qed.
Print Assumptions ord_injective.
Example ord_injective_nonvacuous : valid (2024, 2, 29) /\ valid (of_ord 738945) /\ ord (2024, 2, 29) = ord (of_ord 738945).
Proof. c04_example. Qed.

(** the tuple order used by [Instant] comparisons is the order of day numbers *)
Theorem ord_strictly_monotone : forall a b, valid a -> valid b -> (date_ltb a b = true <-> ord a < ord b).
Proof. exact ord_lt_iff. Qed.
Print Assumptions ord_strictly_monotone.

Theorem ord_monotone : forall a b, valid a -> valid b -> (date_leb a b = true <-> ord a <= ord b).
Proof. exact ord_le_iff. Qed.
Print Assumptions ord_monotone.
Example ord_monotone_nonvacuous :
  valid (1999, 12, 31) /\ valid (2000, 1, 1) /\ date_ltb (1999, 12, 31) (2000, 1, 1) = true.
Proof. c04_example. Qed.

Theorem add_days_spec : forall c n, valid c -> 1 <= ord c + n ->
  valid (add_days c n) /\ ord (add_days c n) = ord c + n.
Proof. exact add_days_ord. Qed.
Print Assumptions add_days_spec.

Theorem add_days_one : forall c, valid c -> add_days c 1 = next_day c.
Proof. exact add_days_1. Qed.
Print Assumptions add_days_one.
Example add_days_spec_nonvacuous :
  valid (2024, 3, 1) /\ 1 <= ord (2024, 3, 1) + (-1) /\ add_days (2024, 3, 1) (-1) = (2024, 2, 29).
Proof. c04_example. Qed.

(** ISO weekdays (Monday = 1) repeat with period 7 *)
Theorem isoweekday_range : forall c, 1 <= isoweekday c <= 7.
Proof. exact CalProofs.isoweekday_range. Qed.
Print Assumptions isoweekday_range.

Theorem isoweekday_next_day : forall c, valid c -> isoweekday (next_day c) = isoweekday c mod 7 + 1.
Proof. exact isoweekday_next. Qed.
Print Assumptions isoweekday_next_day.

Theorem weekday_period_7 : forall c n, valid c -> 1 <= ord c + 7 * n ->
  isoweekday (add_days c (7 * n)) = isoweekday c.
Proof. exact CalProofs.weekday_period_7. Qed.
Print Assumptions weekday_period_7.
Example weekday_period_7_nonvacuous :
  valid (2024, 1, 1) /\ 1 <= ord (2024, 1, 1) + 7 * (-3) /\ isoweekday (2024, 1, 1) = 1
  /\ isoweekday (1, 1, 1) = 1.
Proof. c04_example. Qed.

Theorem start_of_week_spec : forall c, valid c ->
  valid (start_of_week c) /\ isoweekday (start_of_week c) = 1
  /\ ord (start_of_week c) <= ord c < ord (start_of_week c) + 7.
Proof. exact CalProofs.start_of_week_spec. Qed.
Print Assumptions start_of_week_spec.
Example start_of_week_spec_nonvacuous : valid (2021, 1, 3) /\ start_of_week (2021, 1, 3) = (2020, 12, 28).
Proof. c04_example. Qed.

(** * 2. Spans: a period is the days from its start to [start + size units] minus one *)

(** [end_excl p] is the model's [Instant.offset(size, unit)] of the start (month-end
    clipping as [add_months] does it, i.e. as pendulum does) *)
Theorem end_excl_is_offset : forall p, p_unit p <> Eternity ->
  instant_offset (p_start p) (p_size p) (p_unit p) = Ok (end_excl p).
Proof. exact end_excl_offset. Qed.
Print Assumptions end_excl_is_offset.

(** every unit: [ord (stop p) = ord (start + size.unit) - 1], and [stop p] is a real date *)
Theorem stop_spec : forall p, wf p -> valid (stop p) /\ ord (stop p) = ord (end_excl p) - 1.
Proof. exact PeriodProofs.stop_spec. Qed.
Print Assumptions stop_spec.
Example stop_spec_nonvacuous :
  wf (Month, (2024, 1, 31), 1) /\ stop (Month, (2024, 1, 31), 1) = (2024, 2, 28)
  /\ wf (Week, (2020, 12, 28), 1) /\ stop (Week, (2020, 12, 28), 1) = (2021, 1, 3)
  /\ wf (Year, (2024, 2, 29), 1) /\ stop (Year, (2024, 2, 29), 1) = (2025, 2, 27).
Proof. c04_example. Qed.

(** the period is non-empty; [stop] is its last day *)
Theorem stop_is_last_day : forall p, wf p ->
  day_in p (first_ord p) /\ day_in p (ord (stop p)) /\ ~ day_in p (ord (stop p) + 1).
Proof. exact stop_last_day. Qed.
Print Assumptions stop_is_last_day.

(** [Period.days] is the number of days of the span *)
Theorem days_spec : forall p, wf p -> days p = last_ord p - first_ord p + 1 /\ 1 <= days p.
Proof. exact PeriodProofs.days_spec. Qed.
Print Assumptions days_spec.
Example days_spec_nonvacuous : wf (Year, (2024, 1, 1), 1) /\ days (Year, (2024, 1, 1), 1) = 366.
Proof. c04_example. Qed.

(** size expressed in an equal or smaller unit of the same family = number of such
    pieces ([count_in]; [subperiods_tile] below shows there are exactly that many) *)
Theorem size_in_spec : forall p u, wf p -> same_family (p_unit p) u = true ->
  size_in u p = Ok (count_in p u).
Proof. exact PeriodMoreProofs.size_in_spec. Qed.
Print Assumptions size_in_spec.
Example size_in_spec_nonvacuous :
  wf (Month, (2023, 12, 1), 3) /\ same_family Month Day = true
  /\ size_in_days (Month, (2023, 12, 1), 3) = Ok 91.
Proof. c04_example. Qed.

(** * 3. Containment and intersection are those of the day sets *)

Theorem contains_spec : forall p q, wf p -> wf q ->
  (contains p q = true <-> forall d, day_in q d -> day_in p d).
Proof. exact contains_subset. Qed.
Print Assumptions contains_spec.

Theorem contains_bounds : forall p q, wf p -> wf q ->
  (contains p q = true <-> first_ord p <= first_ord q /\ last_ord q <= last_ord p).
Proof. exact PeriodProofs.contains_spec. Qed.
Print Assumptions contains_bounds.
Example contains_spec_nonvacuous :
  wf (Year, (2024, 1, 1), 1) /\ wf (Week, (2024, 12, 30), 1) /\ wf (Month, (2024, 2, 1), 1)
  /\ contains (Year, (2024, 1, 1), 1) (Week, (2024, 12, 30), 1) = false
  /\ contains (Year, (2024, 1, 1), 1) (Month, (2024, 2, 1), 1) = true.
Proof. c04_example. Qed.

(** [intersection p a b] ([None] bound = open on that side, [a <= b]): the result
    denotes exactly the days of [p] within [a, b] - through its own re-derived unit and
    size - and it is [None] exactly when there is no such day *)
Theorem intersection_spec : forall p a b,
  wf p -> opt_valid a -> opt_valid b ->
  opt_ord a (first_ord p) <= opt_ord b (last_ord p) ->
  let in_range d := opt_ord a (first_ord p) <= d <= opt_ord b (last_ord p) in
  match intersection p a b with
  | None => forall d, ~ (day_in p d /\ in_range d)
  | Some r => wf r /\ (exists d, day_in r d) /\ forall d, day_in r d <-> (day_in p d /\ in_range d)
  end.
Proof. exact intersection_days. Qed.
Print Assumptions intersection_spec.
Example intersection_spec_nonvacuous :
  let p := (Year, (2023, 1, 1), 2) in
  wf p /\ valid (2023, 12, 1) /\ valid (2024, 2, 29) /\ ord (2023, 12, 1) <= ord (2024, 2, 29)
  /\ intersection p (Some (2023, 12, 1)) (Some (2024, 2, 29)) = Some (Month, (2023, 12, 1), 3)
  /\ intersection p (Some (2025, 1, 1)) (Some (2025, 1, 2)) = None.
Proof. c04_example. Qed.

(** * 4. Sub-periods tile the period *)

(** aligned start, same family, equal or smaller unit: the list has [count_in p u]
    elements, all of unit [u] and size one; a day belongs to [p] iff it belongs to some
    piece; pieces are in increasing order, pairwise disjoint, and consecutive pieces are
    adjacent *)
Theorem subperiods_tile : forall p u,
  wf p -> same_family (p_unit p) u = true -> aligned u (p_start p) ->
  exists l, subperiods p u = Ok l
    /\ Z.of_nat (length l) = count_in p u
    /\ Forall (fun q => p_unit q = u /\ p_size q = 1 /\ wf q) l
    /\ (forall d, day_in p d <-> exists q, In q l /\ day_in q d)
    /\ (forall i j q q', (i < j)%nat -> nth_error l i = Some q -> nth_error l j = Some q' ->
          last_ord q + 1 <= first_ord q' /\ (S i = j -> last_ord q + 1 = first_ord q')).
Proof. exact subperiods_partition. Qed.
Print Assumptions subperiods_tile.
Example subperiods_tile_nonvacuous :
  wf (Month, (2024, 2, 1), 1) /\ same_family Month Day = true /\ aligned Day (2024, 2, 1)
  /\ rmap (@length _) (subperiods (Month, (2024, 2, 1), 1) Day) = Ok 29%nat
  /\ wf (Week, (2024, 12, 30), 2) /\ same_family Week Week = true /\ aligned Week (2024, 12, 30)
  /\ subperiods (Week, (2024, 12, 30), 2) Week = Ok [(Week, (2024, 12, 30), 1); (Week, (2025, 1, 6), 1)]
  /\ wf (Year, (2023, 1, 1), 2) /\ same_family Year Month = true /\ aligned Month (2023, 1, 1)
  /\ rmap (@length _) (subperiods (Year, (2023, 1, 1), 2) Month) = Ok 24%nat.
Proof. c04_example. Qed.

(** * 5. Shifting by n units, then by -n units *)

(** day, weekday and week shifts are always undone (as long as the shifted date exists,
    i.e. is not before 0001-01-01) *)
Theorem offset_inverse_days : forall p n u,
  valid (p_start p) ->
  let eu := eff_unit p u in
  eu = Day \/ eu = Weekday \/ eu = Week ->
  1 <= ord (p_start p) + days_of eu n ->
  exists q, offset p n u = Ok q
    /\ p_unit q = p_unit p /\ p_size q = p_size p
    /\ valid (p_start q) /\ ord (p_start q) = ord (p_start p) + days_of eu n
    /\ offset q (- n) u = Ok p.
Proof. exact PeriodMoreProofs.offset_inverse_days. Qed.
Print Assumptions offset_inverse_days.
Example offset_inverse_days_nonvacuous :
  let p := (Month, (2024, 1, 31), 1) in
  valid (p_start p) /\ eff_unit p (Some Week) = Week /\ 1 <= ord (p_start p) + days_of Week (-5)
  /\ offset p (-5) (Some Week) = Ok (Month, (2023, 12, 27), 1).
Proof. c04_example. Qed.

(** month and year shifts are undone exactly when the first shift does not clip the
    day-of-month ([no_clip]: day <= length of the target month) *)
Theorem offset_inverse_months : forall p n u,
  valid (p_start p) ->
  let eu := eff_unit p u in
  eu = Month \/ eu = Year ->
  exists q, offset p n u = Ok q
    /\ p_unit q = p_unit p /\ p_size q = p_size p
    /\ p_start q = add_months (p_start p) (months_of eu n)
    /\ (offset q (- n) u = Ok p <-> no_clip (p_start p) (months_of eu n)).
Proof. exact PeriodMoreProofs.offset_inverse_months. Qed.
Print Assumptions offset_inverse_months.
Example offset_inverse_months_nonvacuous :
  let p := (Day, (2024, 1, 31), 1) in
  valid (p_start p) /\ eff_unit p (Some Month) = Month
  /\ no_clip (p_start p) 2 /\ ~ no_clip (p_start p) 1
  /\ offset p 1 (Some Month) = Ok (Day, (2024, 2, 29), 1)
  /\ offset (Day, (2024, 2, 29), 1) (-1) (Some Month) = Ok (Day, (2024, 1, 29), 1).
Proof. c04_example. Qed.

(** * 6. Named reference periods, relative to the start (y, m, d) of the period *)

Theorem this_year_spec : forall u y m d n, this_year (u, (y, m, d), n) = Ok (Year, (y, 1, 1), 1).
Proof. exact PeriodMoreProofs.this_year_spec. Qed.
Print Assumptions this_year_spec.

Theorem last_year_spec : forall u y m d n, last_year (u, (y, m, d), n) = Ok (Year, (y - 1, 1, 1), 1).
Proof. exact PeriodMoreProofs.last_year_spec. Qed.
Print Assumptions last_year_spec.

Theorem n_2_spec : forall u y m d n, n_2 (u, (y, m, d), n) = Ok (Year, (y - 2, 1, 1), 1).
Proof. exact PeriodMoreProofs.n_2_spec. Qed.
Print Assumptions n_2_spec.

Theorem first_month_spec : forall u y m d n, first_month (u, (y, m, d), n) = Ok (Month, (y, m, 1), 1).
Proof. exact PeriodMoreProofs.first_month_spec. Qed.
Print Assumptions first_month_spec.

Theorem first_day_spec : forall u s n, first_day (u, s, n) = Ok (Day, s, 1).
Proof. exact PeriodMoreProofs.first_day_spec. Qed.
Print Assumptions first_day_spec.

Theorem first_weekday_spec : forall u s n, first_weekday (u, s, n) = Ok (Weekday, s, 1).
Proof. exact PeriodMoreProofs.first_weekday_spec. Qed.
Print Assumptions first_weekday_spec.

Theorem last_month_spec : forall u y m d n, 1 <= m <= 12 ->
  last_month (u, (y, m, d), n)
  = Ok (Month, (if m =? 1 then (y - 1, 12, 1) else (y, m - 1, 1)), 1).
Proof. exact PeriodMoreProofs.last_month_spec. Qed.
Print Assumptions last_month_spec.
Example last_month_spec_nonvacuous : last_month (Year, (2024, 1, 15), 1) = Ok (Month, (2023, 12, 1), 1).
Proof. c04_example. Qed.

(** the three whole months ending the day before the start's month begins *)
Theorem last_3_months_spec : forall u y m d n, 1 <= m <= 12 ->
  exists s, last_3_months (u, (y, m, d), n) = Ok (Month, s, 3)
    /\ s = add_months (y, m, 1) (-3)
    /\ end_excl (Month, s, 3) = (y, m, 1).
Proof. exact PeriodMoreProofs.last_3_months_spec. Qed.
Print Assumptions last_3_months_spec.
Example last_3_months_spec_nonvacuous : last_3_months (Day, (2024, 2, 29), 1) = Ok (Month, (2023, 11, 1), 3).
Proof. c04_example. Qed.

(** the ISO week (Monday to Sunday) containing the start *)
Theorem first_week_spec : forall p, valid (p_start p) ->
  exists mo, first_week p = Ok (Week, mo, 1) /\ mo = start_of_week (p_start p)
    /\ valid mo /\ isoweekday mo = 1 /\ ord mo <= ord (p_start p) < ord mo + 7.
Proof. exact PeriodMoreProofs.first_week_spec. Qed.
Print Assumptions first_week_spec.
Example first_week_spec_nonvacuous : first_week (Day, (2021, 1, 3), 1) = Ok (Week, (2020, 12, 28), 1).
Proof. c04_example. Qed.

(** last_week (1 week, 1 back), last_fortnight (1, 2), last_2_weeks (2, 2),
    last_26_weeks (26, 26), last_52_weeks (52, 52): [sz] weeks starting on the Monday
    [k] weeks before the Monday of the start's week *)
Theorem last_weeks_spec : forall p f sz k, valid (p_start p) ->
  In (f, sz, k) [(last_week, 1, 1); (last_fortnight, 1, 2); (last_2_weeks, 2, 2);
                 (last_26_weeks, 26, 26); (last_52_weeks, 52, 52)] ->
  1 <= ord (start_of_week (p_start p)) - 7 * k ->
  exists mo, f p = Ok (Week, mo, sz)
    /\ valid mo /\ isoweekday mo = 1 /\ ord mo = ord (start_of_week (p_start p)) - 7 * k.
Proof. exact PeriodMoreProofs.last_weeks_spec. Qed.
Print Assumptions last_weeks_spec.
Example last_weeks_spec_nonvacuous :
  valid (2021, 1, 3) /\ 1 <= ord (start_of_week (2021, 1, 3)) - 7 * 52
  /\ last_52_weeks (Day, (2021, 1, 3), 1) = Ok (Week, (2019, 12, 30), 52).
Proof. c04_example. Qed.

(** ** Tie to the regenerated dispatch of Period.get_subperiods

    coq/gen/GuardsPeriod.v is re-emitted on every run from the Python text of
    Period.get_subperiods (harness/gen_tables.py, fail-closed): the weight test
    [gen_subperiods_guard] (true = raises ValueError) and, per requested unit, the base period,
    the unit of the offsets and the count [gen_subperiods_choice] (None = raises ValueError).
    [apply_named] / [apply_size] (coq/model/GuardsTypes.v) read the chosen names as the
    functions of Period.v of the same name.  The [subperiods] the theorems above are about is
    the one written in the source now. *)
From Verif Require Import GuardsTypes GuardsPeriod GuardsPeriodSem GuardsPeriodProofs.

Theorem source_subperiods_is_model_subperiods : forall p u,
  subperiods p u
  = if gen_subperiods_guard (p_unit p) u then Err EValue
    else match gen_subperiods_choice u with
         | None => Err EValue
         | Some (base, off_unit, count) =>
             bind (apply_named base p) (fun b =>
             bind (apply_size count p) (fun n =>
             mapM (fun i => offset b i (Some off_unit)) (zrange n)))
         end.
Proof. exact subperiods_is_source. Qed.
Print Assumptions source_subperiods_is_model_subperiods.
