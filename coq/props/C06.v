(** C06 - A parameter's value at a date is its latest entry; edits touch only their
    span.  Only statements here; proofs are in proofs/ParamProofs.v. *)
From Coq Require Import ZArith List Bool String.
From Verif Require Import Base Cal Period Param ParamProofs.
Import ListNotations.
Open Scope Z_scope.

Theorem update_spec : forall (V : Type) (h : hist V) (s e : Z) (v : option V) (d : Z),
  get_at (update_range h s (Some e) v) d = (if (s <=? d) && (d <=? e) then v else get_at h d).
Proof. exact @update_range_closed_spec. Qed.
Print Assumptions update_spec.
