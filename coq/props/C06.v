(** C06 - A parameter's value at a date is its latest entry; edits touch only their
    span.  Only statements here; proofs are in proofs/ParamProofs.v and
    proofs/ParamTreeProofs.v.  All statements are about the functions of model/Param.v
    that corr/Corr_C06.v runs against the implementation: [of_yaml], [get_at], [update]
    (and its phases [update_range]), [at_instant], [scale_at].  Dates are proleptic
    Gregorian ordinals; a value [None] is the YAML null. *)
From Coq Require Import ZArith List Bool String Sorted Lia.
From Verif Require Import Base Cal Period Param ParamProofs ParamTreeProofs.
Import ListNotations.
Open Scope Z_scope.

(** ** The value at a date is the value of the latest entry on or before it *)

Theorem get_at_latest : forall (V : Type) (h : hist V) (d : Z), decreasing h ->
  (exists k v, In (k, v) h /\ k <= d
      /\ (forall k' v', In (k', v') h -> k' <= d -> k' <= k)
      /\ get_at h d = v)
  \/ ((forall k v, In (k, v) h -> d < k) /\ get_at h d = None).
Proof. exact @get_at_latest_exists. Qed.
Print Assumptions get_at_latest.

(** whichever entry is the latest on or before [d], its value is the answer *)
Theorem get_at_latest_any_witness : forall (V : Type) (h : hist V) (d k : Z) (v : option V),
  decreasing h -> In (k, v) h -> k <= d ->
  (forall k' v', In (k', v') h -> k' <= d -> k' <= k) ->
  get_at h d = v.
Proof. exact @get_at_latest_any. Qed.
Print Assumptions get_at_latest_any_witness.

Theorem get_at_undefined_before_first : forall (V : Type) (h : hist V) (d : Z),
  (forall k v, In (k, v) h -> d < k) -> get_at h d = None.
Proof. exact @get_at_before_first. Qed.
Print Assumptions get_at_undefined_before_first.

(** ** Construction from data: sorted, 'expected' placeholders dropped *)

(** the keys of a dict are distinct; the result is strictly decreasing and holds
    exactly the entries that carry a value (null included) *)
Theorem of_yaml_sorted_values : forall (V : Type) (w : bool) (entries : list (Z * yentry V)) (h : hist V),
  NoDup (map fst entries) -> of_yaml w entries = Ok h ->
  decreasing h /\ (forall k v, In (k, v) h <-> In (k, YValue v) entries).
Proof. exact @of_yaml_spec. Qed.
Print Assumptions of_yaml_sorted_values.

(** the first sentence of the property, read off the data the parameter was built from *)
Theorem of_yaml_value_at_latest : forall (V : Type) (w : bool) (entries : list (Z * yentry V))
    (h : hist V) (d : Z),
  NoDup (map fst entries) -> of_yaml w entries = Ok h ->
  (exists k v, In (k, YValue v) entries /\ k <= d
      /\ (forall k' v', In (k', YValue v') entries -> k' <= d -> k' <= k)
      /\ get_at h d = v)
  \/ ((forall k v, In (k, YValue v) entries -> d < k) /\ get_at h d = None).
Proof. exact @of_yaml_value_at. Qed.
Print Assumptions of_yaml_value_at_latest.

(** data is refused exactly when an entry is invalid, a key is not a date, or the
    'values' dict is empty; placeholders never cause a refusal *)
Theorem of_yaml_refused_iff : forall (V : Type) (w : bool) (entries : list (Z * yentry V)),
  of_yaml w entries = Err EOther
  <-> (w = true /\ entries = [])
      \/ (exists k e, In (k, e) entries /\ (e = YInvalid \/ e = YBadKey)).
Proof. exact @of_yaml_refuses. Qed.
Print Assumptions of_yaml_refused_iff.

(** ** update touches only its span - for EVERY history (sorted or not) and all bounds *)

Theorem update_spec : forall (V : Type) (h : hist V) (s e : Z) (v : option V) (d : Z),
  get_at (update_range h s (Some e) v) d = (if (s <=? d) && (d <=? e) then v else get_at h d).
Proof. exact @update_range_closed_spec. Qed.
Print Assumptions update_spec.

Theorem update_spec_open_ended : forall (V : Type) (h : hist V) (s : Z) (v : option V) (d : Z),
  get_at (update_range h s None v) d = (if s <=? d then v else get_at h d).
Proof. exact @update_range_open_spec. Qed.
Print Assumptions update_spec_open_ended.

(** the three accepted ways of calling update, and the refused ones *)
Theorem update_by_period : forall (V : Type) (h : hist V) (p : period) (v : option V),
  p_unit p <> Eternity ->
  exists h', update h (Some p) None None v = Ok h'
    /\ forall d, get_at h' d
         = if (ord (p_start p) <=? d) && (d <=? ord (Period.stop p)) then v else get_at h d.
Proof. exact @update_period_spec. Qed.
Print Assumptions update_by_period.

Theorem update_by_start_stop : forall (V : Type) (h : hist V) (s e : Z) (v : option V),
  exists h', update h None (Some s) (Some e) v = Ok h'
    /\ forall d, get_at h' d = if (s <=? d) && (d <=? e) then v else get_at h d.
Proof. exact @update_start_stop_spec. Qed.
Print Assumptions update_by_start_stop.

Theorem update_by_start_only : forall (V : Type) (h : hist V) (s : Z) (v : option V),
  exists h', update h None (Some s) None v = Ok h'
    /\ forall d, get_at h' d = if s <=? d then v else get_at h d.
Proof. exact @update_start_only_spec. Qed.
Print Assumptions update_by_start_only.

Theorem update_ill_formed_calls_refused : forall (V : Type) (h : hist V) (v : option V),
  (forall p start stop, start <> None \/ stop <> None ->
     update h (Some p) start stop v = Err EType)
  /\ (forall stop, update h None None stop v = Err EValue)
  /\ (forall p, p_unit p = Eternity -> update h (Some p) None None v = Err EValue).
Proof. exact @update_refused. Qed.
Print Assumptions update_ill_formed_calls_refused.

(** a value of a type that is not allowed (str, dict, object): the call is refused whatever
    its other arguments - there is no resulting history, the parameter stays as it was
    (corr/Corr_C06.v, [steps] and [tree_steps], carry on with the old history) - and with
    an allowed value [update_checked] is [update] *)
Theorem update_ill_typed_value_refused : forall (V : Type) (h : hist V) p start stop,
  (forall v, update_checked h p start stop (UVal v) = update h p start stop v)
  /\ (exists x, update_checked h p start stop (@UIllTyped V) = Err x).
Proof. exact @update_checked_spec. Qed.
Print Assumptions update_ill_typed_value_refused.

(** ** update keeps the history strictly decreasing, so the statements compose *)

Theorem update_sorted : forall (V : Type) (h : hist V) (s : Z) (e : option Z) (v : option V),
  decreasing h -> (match e with Some e => s <= e | None => True end) ->
  decreasing (update_range h s e v).
Proof. exact @update_range_sorted. Qed.
Print Assumptions update_sorted.

(** ** Any sequence of updates, against the abstract function date -> value *)

Theorem updates_spec : forall (V : Type) (us : list (Z * option Z * option V)) (h : hist V) (d : Z),
  get_at (apply_updates h us) d
  = fold_left (fun (f : Z -> option V) (u : Z * option Z * option V) =>
                 let '(s, e, v) := u in
                 fun d => if (s <=? d) && match e with Some e => d <=? e | None => true end
                          then v else f d)
              us (get_at h) d.
Proof. exact @apply_updates_spec_explicit. Qed.
Print Assumptions updates_spec.

Theorem updates_sorted : forall (V : Type) (us : list (Z * option Z * option V)) (h : hist V),
  decreasing h ->
  Forall (fun u => match u with (s, Some e, _) => s <= e | (_, None, _) => True end) us ->
  decreasing (apply_updates h us).
Proof. exact @apply_updates_sorted. Qed.
Print Assumptions updates_sorted.

(** the same over calls of [update] itself (period / start+stop / start only / ill-formed),
    a refused call leaving the history as it was; [call_span] (ParamProofs.v) is the span
    a call denotes, as in the three theorems update_by_... above *)
Theorem update_calls_spec : forall (V : Type)
    (cs : list (option period * option Z * option Z * option V)) (h : hist V) (d : Z),
  get_at (fold_left (fun h c => let '(p, s, e, v) := c in
                       match update h p s e v with Ok h' => h' | Err _ => h end) cs h) d
  = fold_left (fun (f : Z -> option V) c =>
                 let '(p, s, e, v) := c in
                 match call_span p s e with
                 | Ok (a, b) =>
                     fun d => if (a <=? d) && match b with Some b => d <=? b | None => true end
                              then v else f d
                 | Err _ => f
                 end) cs (get_at h) d.
Proof. exact @apply_calls_spec_explicit. Qed.
Print Assumptions update_calls_spec.

Theorem update_call_span : forall (V : Type) (h : hist V) p start stop (v : option V),
  update h p start stop v
  = match call_span p start stop with
    | Ok (s, e) => Ok (update_range h s e v)
    | Err x => Err x
    end.
Proof. exact @update_call. Qed.
Print Assumptions update_call_span.

(** ** A group at a date exposes exactly the members defined at that date *)

(** the children of the node at an instant are, in declaration order, the members whose
    own value at the date is not None, each with that value; a leaf is undefined where
    its history gives None (before its first entry, or a null), groups and scales are
    always present *)
Theorem node_at_exposes_defined : forall (ch : list (string * tree)) (d : Z),
  exists l, at_instant (TNode ch) d = Some (VNode l)
    /\ Forall2 (fun nc nx => fst nc = fst nx /\ at_instant (snd nc) d = Some (snd nx))
               (filter (fun nc => match snd nc with
                                  | TParam h => is_some (get_at h d)
                                  | TScale _ | TNode _ => true
                                  end) ch) l
    /\ (forall n x, In (n, x) l <-> exists c, In (n, c) ch /\ at_instant c d = Some x).
Proof. exact node_at_lemma. Qed.
Print Assumptions node_at_exposes_defined.

Theorem member_at_instant : forall (d : Z),
  (forall h, at_instant (TParam h) d
             = match get_at h d with Some v => Some (VValue v) | None => None end)
  /\ (forall s, exists k l, at_instant (TScale s) d = Some (VScale k l) /\ scale_at s d = (k, l))
  /\ (forall ch, exists l, at_instant (TNode ch) d = Some (VNode l)).
Proof. exact member_defined. Qed.
Print Assumptions member_at_instant.

(** ** A scale at a date: which brackets contribute *)

(** the calls of add_bracket: one per bracket whose threshold AND whose field of the
    chosen kind are both defined at the date, in declaration order, with those values *)
Theorem scale_at_contributions : forall (k : scale_kind) (brs : list bracket) (d : Z),
  Forall2 (fun b tx => field_at (b_threshold b) d = Some (fst tx)
                       /\ field_at (kind_field k b) d = Some (snd tx))
          (filter (fun b => is_some (field_at (b_threshold b) d)
                            && is_some (field_at (kind_field k b) d)) brs)
          (contributions k brs d).
Proof. exact contributions_spec. Qed.
Print Assumptions scale_at_contributions.

(** the resulting scale: thresholds strictly increasing; a threshold is present iff some
    bracket with that threshold and a defined rate/amount exists; its rate/amount is the
    sum of what those brackets contribute (add_bracket merges equal thresholds) *)
Theorem scale_at_brackets : forall (s : scale) (d : Z),
  exists l, scale_at s d = (kind_at s d, l)
    /\ StronglySorted (fun a b : Z * Z => fst a < fst b) l
    /\ forall t y, In (t, y) l
         <-> (exists b, In b (s_brackets s)
                /\ field_at (b_threshold b) d = Some t
                /\ field_at (kind_field (kind_at s d) b) d <> None)
             /\ y = fold_right Z.add 0
                      (map snd (filter (fun tx : Z * Z => fst tx =? t)
                                       (contributions (kind_at s d) (s_brackets s) d))).
Proof. exact scale_at_brackets_lemma. Qed.
Print Assumptions scale_at_brackets.

(** which kind of scale is assembled (hence which field "rate/amount" means) *)
Theorem scale_at_kind : forall (s : scale) (d : Z),
  let has f := exists b, In b (s_brackets s) /\ field_at (f b) d <> None in
  (s_single_amount s = true -> kind_at s d = SingleAmount)
  /\ (s_single_amount s = false -> has b_amount -> kind_at s d = MarginalAmount)
  /\ (s_single_amount s = false -> ~ has b_amount -> has b_average_rate ->
      kind_at s d = LinearAverageRate)
  /\ (s_single_amount s = false -> ~ has b_amount -> ~ has b_average_rate ->
      kind_at s d = MarginalRate).
Proof. exact kind_at_spec. Qed.
Print Assumptions scale_at_kind.

(** ** Non-vacuity: the hypotheses are satisfiable and the conclusions say something *)

(** a strictly decreasing history with a null; each disjunct of get_at_latest occurs *)
Example ex_history : hist Z := [(30, Some 7); (20, None); (10, Some 5)].

Example get_at_latest_nonvacuous :
  decreasing ex_history
  /\ get_at ex_history 25 = None /\ get_at ex_history 19 = Some 5
  /\ get_at ex_history 30 = Some 7 /\ get_at ex_history 9 = None
  /\ (forall k v, In (k, v) ex_history -> 9 < k).
Proof.
  repeat split; try reflexivity; try (simpl; lia).
  intros k v [H|[H|[H|[]]]]; inversion H; lia.
Qed.

(** sortedness is needed by get_at_latest: on an unsorted list the first match wins *)
Example get_at_latest_needs_order :
  get_at [(10, Some 1); (20, Some 2)] 25 = Some 1.
Proof. reflexivity. Qed.

(** of_yaml: distinct keys in any order, a placeholder and a null *)
Example of_yaml_nonvacuous :
  NoDup (map fst [(10, YValue (Some 5)); (30, YExpected); (20, YValue None); (25, YValue (Some 7))])
  /\ of_yaml true [(10, YValue (Some 5)); (30, @YExpected Z); (20, YValue None); (25, YValue (Some 7))]
     = Ok [(25, Some 7); (20, None); (10, Some 5)]
  /\ of_yaml false [(10, YValue (Some 5)); (0, @YBadKey Z)] = Err EOther
  /\ of_yaml true (@nil (Z * yentry Z)) = Err EOther
  /\ of_yaml false (@nil (Z * yentry Z)) = Ok [].
Proof.
  repeat split; try reflexivity.
  repeat constructor; simpl; intuition discriminate.
Qed.

(** update: an entry inside the span is dropped and its value restored the day after the
    stop; an entry dated stop+1 is kept as it is; s <= e holds *)
Example update_nonvacuous :
  update_range ex_history 15 (Some 24) (Some 1) = [(30, Some 7); (25, None); (15, Some 1); (10, Some 5)]
  /\ update_range ex_history 15 (Some 29) (Some 1) = [(30, Some 7); (15, Some 1); (10, Some 5)]
  /\ update_range ex_history 15 None (Some 1) = [(15, Some 1); (10, Some 5)]
  /\ update_range ex_history 40 (Some 41) (Some 1) = [(42, Some 7); (40, Some 1); (30, Some 7); (20, None); (10, Some 5)]
  /\ update_range ex_history 1 (Some 2) (Some 1) = [(30, Some 7); (20, None); (10, Some 5); (3, None); (1, Some 1)]
  /\ decreasing (update_range ex_history 15 (Some 24) (Some 1)).
Proof. repeat split; try reflexivity; simpl; lia. Qed.

(** update_sorted needs s <= e: a stop before the start gives an unsorted list (while
    update_spec still holds for it) *)
Example update_sorted_needs_range :
  update_range (@nil (Z * option Z)) 10 (Some 5) (Some 1) = [(6, None); (10, Some 1)]
  /\ ~ decreasing (update_range (@nil (Z * option Z)) 10 (Some 5) (Some 1)).
Proof. split; [reflexivity|]. simpl. lia. Qed.

Example updates_nonvacuous :
  Forall (fun u : Z * option Z * option Z =>
            match u with (s, Some e, _) => s <= e | (_, None, _) => True end)
         [(15, Some 24, Some 1); (22, None, None); (5, Some 12, Some 9)]
  /\ apply_updates ex_history [(15, Some 24, Some 1); (22, None, None); (5, Some 12, Some 9)]
     = [(22, None); (15, Some 1); (13, Some 5); (5, Some 9)].
Proof. split; [repeat constructor; lia|reflexivity]. Qed.

Example update_calls_nonvacuous :
  p_unit (Month, (2015, 2, 1), 1) <> Eternity
  /\ update ex_history (Some (Month, (2015, 2, 1), 1)) None None (Some 1)
     = Ok [(735658, Some 7); (735630, Some 1); (30, Some 7); (20, None); (10, Some 5)]
  /\ call_span (Some (Month, (2015, 2, 1), 1)) None None = Ok (735630, Some 735657)
  /\ update ex_history (Some (Month, (2015, 2, 1), 1)) (Some 3) None (Some 1) = Err EType.
Proof. repeat split; try reflexivity. discriminate. Qed.

(** a group whose members start at different dates, with a null, a sub-group and a scale *)
Example ex_tree : list (string * tree) :=
  [("a"%string, TParam [(10, Some 5)]); ("b"%string, TParam [(30, Some 7); (20, None)]);
   ("g"%string, TNode [("c"%string, TParam [(40, Some 1)])]);
   ("s"%string, TScale (mk_scale false []))].

Example node_at_nonvacuous :
  at_instant (TNode ex_tree) 5
  = Some (VNode [("g"%string, VNode []); ("s"%string, VScale MarginalRate [])])
  /\ at_instant (TNode ex_tree) 25
     = Some (VNode [("a"%string, VValue 5); ("g"%string, VNode []); ("s"%string, VScale MarginalRate [])])
  /\ at_instant (TNode ex_tree) 45
     = Some (VNode [("a"%string, VValue 5); ("b"%string, VValue 7);
                    ("g"%string, VNode [("c"%string, VValue 1)]); ("s"%string, VScale MarginalRate [])]).
Proof. repeat split; reflexivity. Qed.

(** a scale: a bracket without a defined rate does not contribute, nor one whose
    threshold is not yet defined; equal thresholds are merged; the kind follows the
    fields defined at the date *)
Example ex_scale : scale :=
  mk_scale false
    [ mk_bracket (Some [(10, Some 0)]) (Some [(10, Some 1)]) None None;
      mk_bracket (Some [(10, Some 100)]) (Some [(20, Some 2)]) None None;
      mk_bracket (Some [(20, Some 50)]) (Some [(10, Some 3)]) None None;
      mk_bracket (Some [(30, Some 100)]) (Some [(30, Some 4)]) (Some [(40, Some 9)]) None;
      mk_bracket None (Some [(10, Some 8)]) None None ].

Example scale_at_nonvacuous :
  scale_at ex_scale 5 = (MarginalRate, [])
  /\ scale_at ex_scale 15 = (MarginalRate, [(0, 1)])
  /\ scale_at ex_scale 25 = (MarginalRate, [(0, 1); (50, 3); (100, 2)])
  /\ scale_at ex_scale 35 = (MarginalRate, [(0, 1); (50, 3); (100, 6)])
  /\ scale_at ex_scale 45 = (MarginalAmount, [(100, 9)]).
Proof. repeat split; reflexivity. Qed.
