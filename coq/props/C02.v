(** C02 - What was calculated before never corrupts what is calculated or kept next.
    Only statements here; proofs are in proofs/EngineProofs.v and proofs/EngineC02*.v.
    Vocabulary: see props/C01.v. *)
From Coq Require Import ZArith List Bool Arith String.
From Verif Require Import Base Cal Period Engine EngineProofs EngineC02Proofs.
Import ListNotations.
Open Scope nat_scope.

(** Sentence 1.  In a rule system without self-dependence, the answer to a request made
    at any position of any sequence of calculation requests (calculate, calculate_add,
    calculate_divide), from any state reached by such requests on the given inputs, is
    the meaning of that request: it depends neither on what was requested before nor on
    the order. *)
Theorem order_independence : forall sy pp inp, ranked sy = true -> 1 <= max_loops sy ->
  forall rs s i r, forallb is_calc_request rs = true -> Top sy pp inp s ->
  nth_error rs i = Some r ->
  nth_error (snd (run (enough_fuel sy) sy pp s rs)) i = Some (sem_answer sy pp inp r).
Proof. exact order_independent. Qed.
Print Assumptions order_independence.

(** ... in particular for two different orders of the same requests: *)
Theorem same_answer_in_any_two_orders : forall sy pp inp, ranked sy = true -> 1 <= max_loops sy ->
  forall rs1 rs2 i j r,
  forallb is_calc_request rs1 = true -> forallb is_calc_request rs2 = true ->
  nth_error rs1 i = Some r -> nth_error rs2 j = Some r ->
  nth_error (snd (run (enough_fuel sy) sy pp (init inp) rs1)) i
  = nth_error (snd (run (enough_fuel sy) sy pp (init inp) rs2)) j.
Proof.
  intros sy pp inp Hr HL rs1 rs2 i j r H1 H2 Hi Hj.
  rewrite (order_independent sy pp inp Hr HL rs1 (init inp) i r H1 (Top_init sy pp inp) Hi).
  rewrite (order_independent sy pp inp Hr HL rs2 (init inp) j r H2 (Top_init sy pp inp) Hj).
  reflexivity.
Qed.
Print Assumptions same_answer_in_any_two_orders.

(** ... and it equals what a fresh simulation with the same inputs returns. *)
Theorem equals_fresh_simulation : forall sy pp inp, ranked sy = true -> 1 <= max_loops sy ->
  forall r, is_calc_request r = true ->
  snd (step (enough_fuel sy) sy pp (init inp) r) = sem_answer sy pp inp r.
Proof. exact fresh_answer. Qed.
Print Assumptions equals_fresh_simulation.

(** Non-vacuity: the system of props/C01.v is ranked; two orders of two requests. *)
Example ex_two_orders :
  let sy := {| vars := [ mk_var EPerson TInt Month None [] 0%Z false false;
                         mk_var EPerson TInt Month None
                           [((1, 1, 1)%Z, EBin BAdd (EDep 0 PLastMonth OPlain) (EConst 1))] 0%Z false false ];
               params := []; switches := []; max_loops := 1 |} in
  let pp := {| grp := {| Group.g_entity := {| Group.e_key := EmptyString; Group.e_roles := []; Group.e_containing := [] |};
                         Group.g_count := 1; Group.g_ids := [0]; Group.g_roles := [0] |} |} in
  let a := RCalc 1 (Month, (2018, 3, 1)%Z, 1%Z) in
  let b := RCalc 0 (Month, (2018, 2, 1)%Z, 1%Z) in
  ranked sy = true /\
  snd (run (enough_fuel sy) sy pp (init []) [a; b]) = [AVal [1%Z]; AVal [0%Z]] /\
  snd (run (enough_fuel sy) sy pp (init []) [b; a]) = [AVal [0%Z]; AVal [1%Z]].
Proof. vm_compute. auto. Qed.
