(** C02 - What was calculated before never corrupts what is calculated or kept next.
    Only statements here; proofs are in proofs/EngineProofs.v and proofs/EngineC02*.v.
    Vocabulary: see props/C01.v. *)
From Coq Require Import ZArith List Bool Arith String.
From Verif Require Import Base Cal Period Engine EngineProofs EngineC02Proofs.
Import ListNotations.
Open Scope nat_scope.

(** Sentence 1.  In a rule system without self-dependence, the answer to a request made
    at any position of any sequence of calculation requests (calculate, calculate_add,
    calculate_divide), from any state reached by such requests on the given inputs, is
    the meaning of that request: it depends neither on what was requested before nor on
    the order. *)
Theorem order_independence : forall sy pp inp, ranked sy = true -> 1 <= max_loops sy ->
  forall rs s i r, forallb is_calc_request rs = true -> Top sy pp inp s ->
  nth_error rs i = Some r ->
  nth_error (snd (run (enough_fuel sy) sy pp s rs)) i = Some (sem_answer sy pp inp r).
Proof. exact order_independent. Qed.
Print Assumptions order_independence.

(** ... in particular for two different orders of the same requests: *)
Theorem same_answer_in_any_two_orders : forall sy pp inp, ranked sy = true -> 1 <= max_loops sy ->
  forall rs1 rs2 i j r,
  forallb is_calc_request rs1 = true -> forallb is_calc_request rs2 = true ->
  nth_error rs1 i = Some r -> nth_error rs2 j = Some r ->
  nth_error (snd (run (enough_fuel sy) sy pp (init inp) rs1)) i
  = nth_error (snd (run (enough_fuel sy) sy pp (init inp) rs2)) j.
Proof.
  intros sy pp inp Hr HL rs1 rs2 i j r H1 H2 Hi Hj.
  rewrite (order_independent sy pp inp Hr HL rs1 (init inp) i r H1 (Top_init sy pp inp) Hi).
  rewrite (order_independent sy pp inp Hr HL rs2 (init inp) j r H2 (Top_init sy pp inp) Hj).
  reflexivity.
Qed.
Print Assumptions same_answer_in_any_two_orders.

(** ... and it equals what a fresh simulation with the same inputs returns. *)
Theorem equals_fresh_simulation : forall sy pp inp, ranked sy = true -> 1 <= max_loops sy ->
  forall r, is_calc_request r = true ->
  snd (step (enough_fuel sy) sy pp (init inp) r) = sem_answer sy pp inp r.
Proof. exact fresh_answer. Qed.
Print Assumptions equals_fresh_simulation.

(** Non-vacuity: the system of props/C01.v is ranked; two orders of two requests. *)
Example ex_two_orders :
  let sy := {| vars := [ mk_var EPerson TInt Month None [] 0%Z false false;
                         mk_var EPerson TInt Month None
                           [((1, 1, 1)%Z, EBin BAdd (EDep 0 PLastMonth OPlain) (EConst 1))] 0%Z false false ];
               params := []; switches := []; max_loops := 1 |} in
  let pp := {| grp := {| Group.g_entity := {| Group.e_key := EmptyString; Group.e_roles := []; Group.e_containing := [] |};
                         Group.g_count := 1; Group.g_ids := [0]; Group.g_roles := [0] |} |} in
  let a := RCalc 1 (Month, (2018, 3, 1)%Z, 1%Z) in
  let b := RCalc 0 (Month, (2018, 2, 1)%Z, 1%Z) in
  ranked sy = true /\
  snd (run (enough_fuel sy) sy pp (init []) [a; b]) = [AVal [1%Z]; AVal [0%Z]] /\
  snd (run (enough_fuel sy) sy pp (init []) [b; a]) = [AVal [0%Z]; AVal [1%Z]].
Proof. vm_compute. auto. Qed.

(** * Sentence 2: every rule system, spirals included.

    Vocabulary (Engine.v): a state is a cache (key = (variable, period) -> array), the
    evaluation stack and the set [invalid] of keys marked for deletion; [calc] is
    Simulation.calculate: push, [calc_body] (= _calculate), pop, purge.  Proofs are in
    proofs/EngineC02{Gen,SpiralProofs,Sim,Justify}.v. *)
From Verif Require Import EngineC02SpiralProofs EngineC02Sim EngineC02Justify.

(** Every value that is readable when a top-level request has returned, and was not
    already there with that value before the request, is the value that a fresh simulation
    computes when it is given a set [W] of OTHER values that are readable after the request.
    Any rule system without eternal variables (cycles, spirals, raising formulas, unknown
    variables, any [max_loops], any fuel, any outcome of the request itself - value or error).

    Hypothesis [Hpurge] is about the purge, not about the rule system: a mark deletes the
    stored periods of its variable that it *contains* (InMemoryStorage.delete), and the
    hypothesis says that, in the state [se] just before the purge, a mark contains no other
    stored period of its variable than its own.  It holds whenever the periods in play start
    on a day <= 28 (e.g. the first of the month).  It cannot be dropped: see
    [ex_purge_hypothesis_needed] below (month:2018-01-29 contains month:2018-01-30, both stop
    on 2018-02-27), which the implementation reproduces.  Without it the witness consists of
    values stored and unmarked just before the purge ([retained_values_justified_before_purge]). *)
Theorem retained_values_justified : forall sy pp f s0 v p,
  forallb (fun x => negb (unit_eqb (v_unit x) Eternity)) (vars sy) = true ->
  stack s0 = [] -> invalid s0 = [] ->
  let se := pop (fst (calc_body (calc f sy pp) sy pp (push (v, p) s0) v p)) in
  forall Hpurge : (forall m k a, In m (invalid se) -> lookup k (cache se) = Some a ->
                     fst m = fst k -> contains (snd m) (snd k) = true -> snd m = snd k),
  let s1 := fst (calc (S f) sy pp s0 v p) in
  forall k a, lookup k (cache s1) = Some a -> lookup k (cache s0) <> Some a ->
  exists W : list (key * val),
    (forall k' a', lookup k' W = Some a' -> k' <> k /\ lookup k' (cache s1) = Some a') /\
    snd (calc (S f) sy pp {| cache := W; stack := []; invalid := [] |} (fst k) (snd k)) = Ok a.
Proof. exact retained_justified. Qed.
Print Assumptions retained_values_justified.

Theorem retained_values_justified_before_purge : forall sy pp f s0 v p,
  forallb (fun x => negb (unit_eqb (v_unit x) Eternity)) (vars sy) = true ->
  stack s0 = [] -> invalid s0 = [] ->
  let se := pop (fst (calc_body (calc f sy pp) sy pp (push (v, p) s0) v p)) in
  let s1 := fst (calc (S f) sy pp s0 v p) in
  forall k a, lookup k (cache s1) = Some a -> lookup k (cache s0) <> Some a ->
  exists W : list (key * val),
    (forall k' a', lookup k' W = Some a' ->
       k' <> k /\ lookup k' (cache se) = Some a' /\ ~ In k' (invalid se)) /\
    snd (calc (S f) sy pp {| cache := W; stack := []; invalid := [] |} (fst k) (snd k)) = Ok a.
Proof. exact retained_justified_pre. Qed.
Print Assumptions retained_values_justified_before_purge.

(** The core of the argument (stack-suffix irrelevance and taint filtering in one
    simulation): a frame (v, p) started in ANY state [s] (any frames below it, any marks
    already placed) whose body returns a value while (v, p) is still unmarked when it ends,
    returns what a fresh simulation given the entries unmarked at its start returns. *)
Theorem unmarked_frame_recomputed_fresh : forall sy pp f s v p s' a,
  forallb (fun x => negb (unit_eqb (v_unit x) Eternity)) (vars sy) = true ->
  calc_body (calc f sy pp) sy pp (push (v, p) s) v p = (s', Ok a) ->
  ~ In (v, p) (invalid s') ->
  snd (calc (S f) sy pp
         {| cache := filter (fun kv => negb (existsb (key_eqb (fst kv)) (invalid s))) (cache s);
            stack := []; invalid := [] |} v p) = Ok a.
Proof. exact justify_frame. Qed.
Print Assumptions unmarked_frame_recomputed_fresh.

(** A run that returns a value returns the same value, in the same state, with more fuel. *)
Theorem more_fuel_same_value : forall sy pp f n s v p s' a,
  calc f sy pp s v p = (s', Ok a) -> calc (f + n) sy pp s v p = (s', Ok a).
Proof. exact calc_fuel_ok. Qed.
Print Assumptions more_fuel_same_value.

(** Non-vacuity.  W = V@last_month + 1; V = W + 1; C = 10.W; D = V; A = D + C, one spiral
    loop allowed, request A: the cut in V marks V and W but not D; C then reads the tainted
    W and is marked together with A (the F1 repair).  D = 2 is what stays readable, the
    hypotheses of [retained_values_justified] hold, and a fresh simulation given nothing
    computes D = 2. *)
Example ex_retained_justified :
  let mv e := mk_var EPerson TInt Month None [((1, 1, 1)%Z, e)] 0%Z false false in
  let sy := {| vars := [ mv (EBin BAdd (EDep 1 PLastMonth OPlain) (EConst 1));
                         mv (EBin BAdd (EDep 0 PSame OPlain) (EConst 1));
                         mv (EBin BMul (EConst 10) (EDep 0 PSame OPlain));
                         mv (EDep 1 PSame OPlain);
                         mv (EBin BAdd (EDep 3 PSame OPlain) (EDep 2 PSame OPlain)) ];
               params := []; switches := []; max_loops := 1 |} in
  let pp := {| grp := {| Group.g_entity := {| Group.e_key := EmptyString; Group.e_roles := []; Group.e_containing := [] |};
                         Group.g_count := 1; Group.g_ids := [0]; Group.g_roles := [0] |} |} in
  let p : period := (Month, (2018, 3, 1)%Z, 1%Z) in
  let f := (max_loops sy + 2) * List.length (vars sy) in
  let se := pop (fst (calc_body (calc f sy pp) sy pp (push (4, p) (init [])) 4 p)) in
  let s1 := fst (calc (S f) sy pp (init []) 4 p) in
  forallb (fun x => negb (unit_eqb (v_unit x) Eternity)) (vars sy) = true /\
  marks_exact_b se = true /\
  snd (calc (S f) sy pp (init []) 4 p) = Ok [12%Z] /\
  cache s1 = [((3, p), [2%Z])] /\
  snd (calc (S f) sy pp {| cache := []; stack := []; invalid := [] |} 3 p) = Ok [2%Z].
Proof. vm_compute. repeat split. Qed.

(** ... [marks_exact_b] decides the purge hypothesis: *)
Theorem purge_hypothesis_decided : forall s, marks_exact_b s = true ->
  forall m k a, In m (invalid s) -> lookup k (cache s) = Some a ->
    fst m = fst k -> contains (snd m) (snd k) = true -> snd m = snd k.
Proof. exact marks_exact_b_sound. Qed.
Print Assumptions purge_hypothesis_decided.

(** The purge hypothesis cannot be dropped.  W = W@last_month + 1;
    A = W@month:2018-01-30 + W@month:2018-01-29; input W@month:2018-01-30 = 5.  Request A:
    the spiral of W marks W@month:2018-01-29, and the purge of that mark also deletes the
    unmarked input W@month:2018-01-30 (contained in it).  A = 6 stays readable, nothing else
    does, and a fresh simulation given nothing computes A = 2. *)
Example ex_purge_hypothesis_needed :
  let mv e := mk_var EPerson TInt Month None [((1, 1, 1)%Z, e)] 0%Z false false in
  let p29 : period := (Month, (2018, 1, 29)%Z, 1%Z) in
  let p30 : period := (Month, (2018, 1, 30)%Z, 1%Z) in
  let sy := {| vars := [ mv (EBin BAdd (EDep 0 PLastMonth OPlain) (EConst 1));
                         mv (EBin BAdd (EDep 0 (PFixed p30) OPlain) (EDep 0 (PFixed p29) OPlain)) ];
               params := []; switches := []; max_loops := 1 |} in
  let pp := {| grp := {| Group.g_entity := {| Group.e_key := EmptyString; Group.e_roles := []; Group.e_containing := [] |};
                         Group.g_count := 1; Group.g_ids := [0]; Group.g_roles := [0] |} |} in
  let p : period := (Month, (2018, 3, 1)%Z, 1%Z) in
  let s0 := init [((0, p30), [5%Z])] in
  let f := (max_loops sy + 2) * List.length (vars sy) in
  let se := pop (fst (calc_body (calc f sy pp) sy pp (push (1, p) s0) 1 p)) in
  let s1 := fst (calc (S f) sy pp s0 1 p) in
  marks_exact_b se = false /\
  contains p29 p30 = true /\
  existsb (key_eqb (0, p30)) (invalid se) = false /\
  cache s1 = [((1, p), [6%Z])] /\
  snd (calc (S f) sy pp {| cache := []; stack := []; invalid := [] |} 1 p) = Ok [2%Z].
Proof. vm_compute. repeat split. Qed.

(** * Sentence 2 for ordinary periods: the purge hypothesis discharged.

    [ordinary q] (proofs/EngineC02Ordinary.v, decidable): dated unit, valid start, size 1,
    and a start day <= 28 when the unit is month or year (no end-of-month clipping).
    [ordinary_keys sy s]: every mark and every stored key of [s] belongs to an existing
    variable, has that variable's unit and an ordinary period. *)
From Verif Require Import EngineC02Ordinary.

(** Among ordinary periods of one unit, a period contains only itself
    (calendar facts from proofs/PeriodProofs.v). *)
Theorem ordinary_period_contains_only_itself : forall p q,
  ordinary p = true -> ordinary q = true -> p_unit p = p_unit q -> contains p q = true -> p = q.
Proof. exact ordinary_contains_eq. Qed.
Print Assumptions ordinary_period_contains_only_itself.

(** [retained_values_justified] with the abstract purge hypothesis replaced by: the marks
    and stored keys just before the purge are ordinary. *)
Theorem retained_values_justified_ordinary : forall sy pp f s0 v p,
  forallb (fun x => negb (unit_eqb (v_unit x) Eternity)) (vars sy) = true ->
  stack s0 = [] -> invalid s0 = [] ->
  let se := pop (fst (calc_body (calc f sy pp) sy pp (push (v, p) s0) v p)) in
  ordinary_keys sy se = true ->
  let s1 := fst (calc (S f) sy pp s0 v p) in
  forall k a, lookup k (cache s1) = Some a -> lookup k (cache s0) <> Some a ->
  exists W : list (key * val),
    (forall k' a', lookup k' W = Some a' -> k' <> k /\ lookup k' (cache s1) = Some a') /\
    snd (calc (S f) sy pp {| cache := W; stack := []; invalid := [] |} (fst k) (snd k)) = Ok a.
Proof. exact retained_justified_ordinary. Qed.
Print Assumptions retained_values_justified_ordinary.

(** Non-vacuity: the system of [ex_retained_justified] (first-of-month periods). *)
Example ex_ordinary_keys :
  let mv e := mk_var EPerson TInt Month None [((1, 1, 1)%Z, e)] 0%Z false false in
  let sy := {| vars := [ mv (EBin BAdd (EDep 1 PLastMonth OPlain) (EConst 1));
                         mv (EBin BAdd (EDep 0 PSame OPlain) (EConst 1));
                         mv (EBin BMul (EConst 10) (EDep 0 PSame OPlain));
                         mv (EDep 1 PSame OPlain);
                         mv (EBin BAdd (EDep 3 PSame OPlain) (EDep 2 PSame OPlain)) ];
               params := []; switches := []; max_loops := 1 |} in
  let pp := {| grp := {| Group.g_entity := {| Group.e_key := EmptyString; Group.e_roles := []; Group.e_containing := [] |};
                         Group.g_count := 1; Group.g_ids := [0]; Group.g_roles := [0] |} |} in
  let p : period := (Month, (2018, 3, 1)%Z, 1%Z) in
  let f := (max_loops sy + 2) * List.length (vars sy) in
  let se := pop (fst (calc_body (calc f sy pp) sy pp (push (4, p) (init [])) 4 p)) in
  ordinary_keys sy se = true /\ List.length (invalid se) = 6 /\ List.length (cache se) = 5.
Proof. vm_compute. repeat split. Qed.

(** * Sentence 2 from conditions on the rule system, the initial cache and the request only.

    [gpb n q] (proofs/EngineC02Closure.v, decidable): [q] has a dated unit, a valid start in a
    year > n, and a start day <= 28 when its unit is month or year.  The year bound pays for
    look-backs: each nesting level may go back up to two years, the depth is at most the fuel.
    [sys_good sy B] (semantic): no eternal variable, and for 0 <= n <= B every dependency of
    every formula maps a size-1 [gpb (n+2)] period of the variable's unit to [gpb n] periods
    (the requested period for a plain dependency, its sub-periods for ADD, the enclosing
    period for DIVIDE).
    [sys_okb B sy] (proofs/EngineC02Syntactic.v, a boolean check that implies it): no eternal
    variable; transformations PSame, PThisYear, PFirstMonth, PFirstDay, PFirstWeekday,
    PLastMonth, PLastYear, PN2, PFixed q with [gpb B q], POffset k in the formula's own unit
    with k >= -24 (month), >= -2 (year), >= 0 (day, weekday, week); ADD / DIVIDE on
    dependencies whose unit is year, month, day or weekday.  Missing from the check (not from
    the semantic theorem): PFirstWeek, negative day / week offsets, ADD / DIVIDE of week
    variables. *)
From Verif Require Import EngineC02Closure EngineC02Syntactic.

Theorem retained_values_justified_good_system : forall sy pp f s0 v p,
  sys_good sy (2 * Z.of_nat f) ->
  stack s0 = [] -> invalid s0 = [] -> ordinary_keys sy s0 = true ->
  gpb (2 * Z.of_nat f + 2) p = true ->
  let s1 := fst (calc (S f) sy pp s0 v p) in
  forall k a, lookup k (cache s1) = Some a -> lookup k (cache s0) <> Some a ->
  exists W : list (key * val),
    (forall k' a', lookup k' W = Some a' -> k' <> k /\ lookup k' (cache s1) = Some a') /\
    snd (calc (S f) sy pp {| cache := W; stack := []; invalid := [] |} (fst k) (snd k)) = Ok a.
Proof. exact retained_justified_closed. Qed.
Print Assumptions retained_values_justified_good_system.

Theorem checked_system_is_good : forall B sy, sys_okb B sy = true -> sys_good sy B.
Proof. exact sys_okb_sound. Qed.
Print Assumptions checked_system_is_good.

Theorem retained_values_justified_checked_system : forall sy pp f s0 v p,
  sys_okb (2 * Z.of_nat f) sy = true ->
  stack s0 = [] -> invalid s0 = [] -> ordinary_keys sy s0 = true ->
  gpb (2 * Z.of_nat f + 2) p = true ->
  let s1 := fst (calc (S f) sy pp s0 v p) in
  forall k a, lookup k (cache s1) = Some a -> lookup k (cache s0) <> Some a ->
  exists W : list (key * val),
    (forall k' a', lookup k' W = Some a' -> k' <> k /\ lookup k' (cache s1) = Some a') /\
    snd (calc (S f) sy pp {| cache := W; stack := []; invalid := [] |} (fst k) (snd k)) = Ok a.
Proof. exact retained_justified_syntactic. Qed.
Print Assumptions retained_values_justified_checked_system.

(** Non-vacuity: the system of [ex_retained_justified] passes the check, with an input. *)
Example ex_checked_system :
  let mv e := mk_var EPerson TInt Month None [((1, 1, 1)%Z, e)] 0%Z false false in
  let sy := {| vars := [ mv (EBin BAdd (EDep 1 PLastMonth OPlain) (EConst 1));
                         mv (EBin BAdd (EDep 0 PSame OPlain) (EConst 1));
                         mv (EBin BMul (EConst 10) (EDep 0 PSame OPlain));
                         mv (EDep 1 PSame OPlain);
                         mv (EBin BAdd (EDep 3 PSame OPlain) (EDep 2 PSame OPlain)) ];
               params := []; switches := []; max_loops := 1 |} in
  let p : period := (Month, (2018, 3, 1)%Z, 1%Z) in
  let f := (max_loops sy + 2) * List.length (vars sy) in
  sys_okb (2 * Z.of_nat f) sy = true /\
  ordinary_keys sy (init [((2, p), [5%Z])]) = true /\
  gpb (2 * Z.of_nat f + 2) p = true.
Proof. vm_compute. repeat split. Qed.

(** * Sentence 2 for rule systems WITH eternal variables that are leaves.

    Hypothesis [Hleaf]: an eternal variable carries no formula, and if there is one at
    least one spiral loop is allowed (so that a leaf, which has no frame of its variable
    below it, is never cut).  Such a variable is never in progress with sub-computations;
    its storage key is (v, eternity) whatever the requested period, it is never marked,
    and the value it stores is the default, which a fresh simulation given nothing computes.
    (Eternal variables WITH formulas are outside: see finding F33.)  [retained_values_justified]
    is the special case without eternal variables. *)
Theorem retained_values_justified_eternal_leaves : forall sy pp f s0 v p,
  forall Hleaf : (forall w x, nth_error (vars sy) w = Some x -> unit_eqb (v_unit x) Eternity = true ->
                    v_formulas x = [] /\ 1 <= max_loops sy),
  stack s0 = [] -> invalid s0 = [] ->
  let se := pop (fst (calc_body (calc f sy pp) sy pp (push (v, p) s0) v p)) in
  forall Hpurge : (forall m k a, In m (invalid se) -> lookup k (cache se) = Some a ->
                     fst m = fst k -> contains (snd m) (snd k) = true -> snd m = snd k),
  let s1 := fst (calc (S f) sy pp s0 v p) in
  forall k a, lookup k (cache s1) = Some a -> lookup k (cache s0) <> Some a ->
  exists W : list (key * val),
    (forall k' a', lookup k' W = Some a' -> k' <> k /\ lookup k' (cache s1) = Some a') /\
    snd (calc (S f) sy pp {| cache := W; stack := []; invalid := [] |} (fst k) (snd k)) = Ok a.
Proof. exact retained_justified_gen. Qed.
Print Assumptions retained_values_justified_eternal_leaves.

Theorem retained_values_justified_before_purge_eternal_leaves : forall sy pp f s0 v p,
  forall Hleaf : (forall w x, nth_error (vars sy) w = Some x -> unit_eqb (v_unit x) Eternity = true ->
                    v_formulas x = [] /\ 1 <= max_loops sy),
  stack s0 = [] -> invalid s0 = [] ->
  let se := pop (fst (calc_body (calc f sy pp) sy pp (push (v, p) s0) v p)) in
  let s1 := fst (calc (S f) sy pp s0 v p) in
  forall k a, lookup k (cache s1) = Some a -> lookup k (cache s0) <> Some a ->
  exists W : list (key * val),
    (forall k' a', lookup k' W = Some a' ->
       k' <> k /\ lookup k' (cache se) = Some a' /\ ~ In k' (invalid se)) /\
    snd (calc (S f) sy pp {| cache := W; stack := []; invalid := [] |} (fst k) (snd k)) = Ok a.
Proof. exact retained_justified_pre_gen. Qed.
Print Assumptions retained_values_justified_before_purge_eternal_leaves.

(** Non-vacuity: the system of [ex_retained_justified] with D = V + E5 + E6, where E5 is an
    eternal input (= 3) and E6 an eternal variable without input.  After the request for A:
    D = 5, the input E5 and the default of E6 stay readable; a fresh simulation given
    E5 and E6 computes D = 5, and one given nothing computes E6 = 0. *)
Example ex_eternal_leaves :
  let mv e := mk_var EPerson TInt Month None [((1, 1, 1)%Z, e)] 0%Z false false in
  let ev := mk_var EPerson TInt Eternity None [] 0%Z false false in
  let sy := {| vars := [ mv (EBin BAdd (EDep 1 PLastMonth OPlain) (EConst 1));
                         mv (EBin BAdd (EDep 0 PSame OPlain) (EConst 1));
                         mv (EBin BMul (EConst 10) (EDep 0 PSame OPlain));
                         mv (EBin BAdd (EDep 1 PSame OPlain)
                                       (EBin BAdd (EDep 5 PSame OPlain) (EDep 6 PSame OPlain)));
                         mv (EBin BAdd (EDep 3 PSame OPlain) (EDep 2 PSame OPlain)); ev; ev ];
               params := []; switches := []; max_loops := 1 |} in
  let pp := {| grp := {| Group.g_entity := {| Group.e_key := EmptyString; Group.e_roles := []; Group.e_containing := [] |};
                         Group.g_count := 1; Group.g_ids := [0]; Group.g_roles := [0] |} |} in
  let p : period := (Month, (2018, 3, 1)%Z, 1%Z) in
  let s0 := init [((5, eternity_period), [3%Z])] in
  let f := (max_loops sy + 2) * List.length (vars sy) in
  let se := pop (fst (calc_body (calc f sy pp) sy pp (push (4, p) s0) 4 p)) in
  let s1 := fst (calc (S f) sy pp s0 4 p) in
  forallb (fun x => negb (unit_eqb (v_unit x) Eternity)
                    || match v_formulas x with [] => true | _ => false end) (vars sy) = true /\
  marks_exact_b se = true /\
  cache s1 = [((3, p), [5%Z]); ((6, eternity_period), [0%Z]); ((5, eternity_period), [3%Z])] /\
  snd (calc (S f) sy pp {| cache := [((5, eternity_period), [3%Z]); ((6, eternity_period), [0%Z])];
                           stack := []; invalid := [] |} 3 p) = Ok [5%Z] /\
  snd (calc (S f) sy pp {| cache := []; stack := []; invalid := [] |} 6 eternity_period) = Ok [0%Z].
Proof. vm_compute. repeat split. Qed.
