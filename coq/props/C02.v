(** C02 - placeholder, statements follow. *)
From Verif Require Import Base Engine.
