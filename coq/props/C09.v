(** C09 - Tax-scale transformations preserve the amounts they are meant to preserve.
    Only statements here; proofs are in proofs/ScaleC09*.v. *)
From Coq Require Import ZArith QArith Qminmax List Bool.
From Verif Require Import Base Scale ScaleOps ScaleC09Proofs.
Import ListNotations.
Open Scope Q_scope.

Theorem copy_same : forall s b, calc (returned (copy_call s)) b = calc s b.
Proof. exact copy_same_calc. Qed.
Print Assumptions copy_same.
