(** C09 - Tax-scale transformations preserve the amounts they are meant to preserve.

    Only statements here; proofs are in proofs/ScaleC09*.v.  The functions are the ones of
    model/Scale.v (section "Transformations") and model/ScaleOps.v, which the correspondence
    check (corr/Corr_C09.v) runs against the real classes.

    [calc s b] is MarginalRateTaxScale.calc on the one-element vector [b] with the threshold
    shift eps = 0 (ScaleOps.calc); [calc_is_vector] relates it to the vector function.
    A scale is sorted when its thresholds are strictly increasing (what add_bracket
    maintains): [StronglySorted Qlt (thresholds s)]. *)
From Coq Require Import ZArith QArith Qminmax List Bool Sorted.
From Verif Require Import Base Scale ScaleOps ScaleProofs ScaleC09Proofs ScaleC09Combine
     ScaleC09Average ScaleC09Inverse.
Import ListNotations.
Open Scope Q_scope.

(** the vector calc without rounding, factor 1, eps 0, is [calc] base by base *)
Theorem calc_is_vector : forall s bases,
  Forall2 Qeq (calc_marginal 0 1 None s bases) (map (calc s) bases).
Proof. exact calc_vector. Qed.
Print Assumptions calc_is_vector.

(** [calc] is the mathematical definition (C08): sum of rate * length of the part of the
    bracket below the base *)
Theorem calc_is_definition : forall s b, calc s b == marginal_tax b s.
Proof. exact calc_marginal_tax. Qed.
Print Assumptions calc_is_definition.

(* ------------------------------------------------------------------------- *)
(** * Combining scales adds their taxes                                        *)
(* ------------------------------------------------------------------------- *)

(** self.add_tax_scale(other): any sorted receiver (empty or not, any thresholds), any
    sorted [other] with non-negative thresholds, any base *)
Theorem combine_adds_taxes : forall s1 s2 b,
  StronglySorted Qlt (thresholds s1) ->
  StronglySorted Qlt (thresholds s2) -> Forall (fun t => 0 <= t) (thresholds s2) ->
  calc (add_tax_scale s1 s2) b == calc s1 b + calc s2 b.
Proof. exact add_tax_scale_calc. Qed.
Print Assumptions combine_adds_taxes.

(** the combined scale is again sorted, so the law can be iterated: sequences *)
Theorem combine_sequence_adds_taxes : forall others self b,
  StronglySorted Qlt (thresholds self) ->
  Forall (fun o => StronglySorted Qlt (thresholds o) /\ Forall (fun t => 0 <= t) (thresholds o)) others ->
  StronglySorted Qlt (thresholds (add_tax_scales self others))
  /\ calc (add_tax_scales self others) b == calc self b + calc_sum others b.
Proof. exact add_tax_scales_calc. Qed.
Print Assumptions combine_sequence_adds_taxes.

(** helpers.combine_tax_scales over a non-empty node: the marginal-rate children are
    added to the given scale, or to the scale [(0, 0)] (which taxes nothing) *)
Theorem combine_tax_scales_adds_taxes : forall node combined b,
  node <> [] ->
  match combined with Some c => StronglySorted Qlt (thresholds c) | None => True end ->
  Forall (fun o => StronglySorted Qlt (thresholds o) /\ Forall (fun t => 0 <= t) (thresholds o))
         (marginal_children node) ->
  exists r, combine_tax_scales node combined = Some r
            /\ StronglySorted Qlt (thresholds r)
            /\ calc r b == match combined with Some c => calc c b | None => 0 end
                           + calc_sum (marginal_children node) b.
Proof. exact combine_tax_scales_calc. Qed.
Print Assumptions combine_tax_scales_adds_taxes.

Theorem combine_tax_scales_empty_node : forall combined, combine_tax_scales [] combined = combined.
Proof. exact combine_tax_scales_empty. Qed.
Print Assumptions combine_tax_scales_empty_node.

(* ------------------------------------------------------------------------- *)
(** * Inverse                                                                  *)
(* ------------------------------------------------------------------------- *)

(** a sorted scale starting at threshold 0 with all rates below one has an inverse, which
    maps the net amount of every gross amount g >= 0 back to g *)
Theorem inverse_roundtrip : forall t0 r0 rest g,
  StronglySorted Qlt (thresholds ((t0, r0) :: rest)) ->
  t0 == 0 ->
  Forall (fun r => r < 1) (rates ((t0, r0) :: rest)) ->
  0 <= g ->
  exists inv, inverse ((t0, r0) :: rest) = Ok inv
              /\ calc inv (g - calc ((t0, r0) :: rest) g) == g.
Proof. exact inverse_roundtrip_calc. Qed.
Print Assumptions inverse_roundtrip.

(* ------------------------------------------------------------------------- *)
(** * Scaling thresholds and rates                                             *)
(* ------------------------------------------------------------------------- *)

(** any scale (sorted or not), any base, any factor >= 0, no rounding of the thresholds.
    (A negative factor reverses the order of the thresholds and the law is false: see
    [scale_thresholds_negative_factor].) *)
Theorem scale_thresholds_law : forall f s b, 0 <= f ->
  calc (multiply_thresholds f None s) (f * b) == f * calc s b.
Proof. exact scale_thresholds_calc. Qed.
Print Assumptions scale_thresholds_law.

(** any scale, base and factor *)
Theorem scale_rates_law : forall f s b, calc (multiply_rates f s) b == f * calc s b.
Proof. exact scale_rates_calc. Qed.
Print Assumptions scale_rates_law.

(* ------------------------------------------------------------------------- *)
(** * Average rates and back; copy                                             *)
(* ------------------------------------------------------------------------- *)

(** every non-empty sorted scale with non-negative thresholds can be converted to average
    rates and back, and the result taxes every base identically.  (For the empty scale
    to_marginal is rejected: [average_marginal_empty_rejected].) *)
Theorem average_marginal_roundtrip : forall s b,
  s <> [] -> StronglySorted Qlt (thresholds s) -> Forall (fun t => 0 <= t) (thresholds s) ->
  exists m, average_then_marginal s = Ok m /\ calc m b == calc s b.
Proof. exact average_marginal_roundtrip_calc. Qed.
Print Assumptions average_marginal_roundtrip.

Theorem average_marginal_empty_rejected : average_then_marginal [] = Err EOther.
Proof. exact average_marginal_empty. Qed.
Print Assumptions average_marginal_empty_rejected.

Theorem copy_same : forall s b, calc (returned (copy_call s)) b = calc s b.
Proof. exact copy_same_calc. Qed.
Print Assumptions copy_same.

(* ------------------------------------------------------------------------- *)
(** * None of the non-in-place operations alters its argument                  *)
(* ------------------------------------------------------------------------- *)
(** The list functions are pure; what a *call* does to [self] is modelled by the [call]
    records of ScaleOps.v and compared with the real objects (before / after) by the
    correspondence check. *)

Theorem multiply_rates_leaves_argument : forall f inplace s,
  exists c, multiply_rates_call f inplace false s = Ok c
            /\ returned c = multiply_rates f s
            /\ aliased c = inplace
            /\ self_after c = (if inplace then multiply_rates f s else s).
Proof. exact multiply_rates_call_spec. Qed.
Print Assumptions multiply_rates_leaves_argument.

Theorem multiply_thresholds_leaves_argument : forall f d inplace s,
  exists c, multiply_thresholds_call f d inplace false s = Ok c
            /\ returned c = multiply_thresholds f d s
            /\ aliased c = inplace
            /\ self_after c = (if inplace then multiply_thresholds f d s else s).
Proof. exact multiply_thresholds_call_spec. Qed.
Print Assumptions multiply_thresholds_leaves_argument.

Theorem scale_tax_scales_leaves_argument : forall f s,
  exists c, scale_tax_scales_call f s = Ok c
            /\ returned c = multiply_thresholds f None s /\ aliased c = false /\ self_after c = s.
Proof. exact scale_tax_scales_call_spec. Qed.
Print Assumptions scale_tax_scales_leaves_argument.

Theorem copy_leaves_argument : forall s,
  self_after (copy_call s) = s /\ returned (copy_call s) = s.
Proof. exact copy_leaves_self. Qed.
Print Assumptions copy_leaves_argument.

(* ------------------------------------------------------------------------- *)
(** * Non-vacuity: the hypotheses are satisfiable and the laws say something   *)
(* ------------------------------------------------------------------------- *)

(** example scales (ScaleC09Proofs.v):
      sA = [(0, 1/10); (10, 2/10); (20, 3/10)]      sB = [(5, 1/4); (10, 1/8); (30, 1/2)] *)

Example sA_sorted : StronglySorted Qlt (thresholds sA).
Proof. cbn. repeat constructor. Qed.
Example sB_sorted : StronglySorted Qlt (thresholds sB).
Proof. cbn. repeat constructor. Qed.
Example sB_nonneg : Forall (fun t => 0 <= t) (thresholds sB).
Proof. cbn. repeat constructor; discriminate. Qed.

(** interleaved thresholds, one shared; the result has 5 brackets; base 25 is taxed
    4.5 + (5*0.25 + 15*0.125) = 7.625 *)
Example combine_adds_taxes_ex : calc (add_tax_scale sA sB) 25 == 61 # 8.
Proof. rewrite (combine_adds_taxes sA sB 25 sA_sorted sB_sorted sB_nonneg). reflexivity. Qed.

Example combine_structure_ex :
  map (fun tr => (Qred (fst tr), Qred (snd tr))) (add_tax_scale sA sB)
  = [(0, 1 # 10); (5, 7 # 20); (10, 13 # 40); (20, 17 # 40); (30, 4 # 5)].
Proof. vm_compute. reflexivity. Qed.

(** the F5 layout: the other's first threshold is below all of self's *)
Example combine_other_first_below_ex :
  map (fun tr => (Qred (fst tr), Qred (snd tr))) (add_tax_scale [(10, 1 # 10)] [(0, 2 # 10)])
  = [(0, 1 # 5); (10, 3 # 10)]
  /\ Qred (calc (add_tax_scale [(10, 1 # 10)] [(0, 2 # 10)]) 5) = 1.
Proof. split; vm_compute; reflexivity. Qed.

(** before the F5 repair ([combine_bracket_F5]: rates[-1] read for an index of -1) the same
    combination taxed 5 at 1.5 *)
Example combine_refuted_F5 :
  calc (combine_bracket_F5 (2 # 10) 0 [(10, 1 # 10)]) 5 == 3 # 2
  /\ ~ 3 # 2 == calc [(10, 1 # 10)] 5 + calc [(0, 2 # 10)] 5.
Proof. split; vm_compute; [reflexivity|discriminate]. Qed.

(** OPEN finding F34 (known_findings.json, coinciding-thresholds): the hypothesis "strictly
    increasing" cannot be dropped.  On [(0,1/8); (10,1/4); (10,1/2); (50,3/4)] (what
    multiply_thresholds(0.01, decimals=0) makes of thresholds 0, 1000, 1040, 5000) the loop
    of add_bracket calls hits the first of the two brackets at 10 twice and the second
    never: the base 30 is taxed 16.25 instead of 11.25 + 15 = 26.25.  The implementation
    does the same (correspondence). *)
Example combine_adds_taxes_refuted_duplicates :
  let s := [(0, 1 # 8); (10, 1 # 4); (10, 1 # 2); (50, 3 # 4)] in
  let o := [(0, 1 # 2)] in
  calc (add_tax_scale s o) 30 == 65 # 4
  /\ calc s 30 + calc o 30 == 105 # 4
  /\ ~ calc (add_tax_scale s o) 30 == calc s 30 + calc o 30.
Proof. vm_compute. repeat split; try reflexivity. discriminate. Qed.

(** empty receiver *)
Example combine_empty_receiver_ex :
  map (fun tr => (Qred (fst tr), Qred (snd tr))) (add_tax_scale [] sB) = sB
  /\ calc (add_tax_scale [] sB) 20 == calc sB 20.
Proof. split; vm_compute; reflexivity. Qed.

Example combine_tax_scales_ex :
  exists r, combine_tax_scales [Some sA; None; Some sB] None = Some r
            /\ calc r 25 == 61 # 8.
Proof.
  destruct (combine_tax_scales_adds_taxes [Some sA; None; Some sB] None 25) as [r [H1 [_ H2]]].
  - discriminate.
  - exact I.
  - repeat constructor; discriminate.
  - exists r. split; [exact H1|]. rewrite H2. vm_compute. reflexivity.
Qed.

(** inverse: rates 10%, 20%, 30%: gross 25 pays 4.5, net 20.5, and 20.5 is mapped back to 25 *)
Example inverse_roundtrip_ex :
  exists inv, inverse sA = Ok inv
              /\ map (fun tr => (Qred (fst tr), Qred (snd tr))) inv = [(0, 10 # 9); (9, 5 # 4); (17, 10 # 7)]
              /\ calc inv ((41 # 2)) == 25.
Proof. eexists. split; [reflexivity|]. split; vm_compute; reflexivity. Qed.

Example inverse_hypotheses_ex :
  StronglySorted Qlt (thresholds sA) /\ 0 == 0 /\ Forall (fun r => r < 1) (rates sA) /\ 0 <= 25.
Proof. split; [exact sA_sorted|]. split; [reflexivity|]. split; [|discriminate]. cbn. repeat constructor. Qed.

(** inverse is rejected when the first threshold is not 0 or a rate is 1 *)
Example inverse_rejected_ex :
  inverse [(5, 1 # 10)] = Err EOther /\ inverse [(0, 1)] = Err EOther.
Proof. split; reflexivity. Qed.

Example scale_thresholds_ex :
  Qred (calc (multiply_thresholds (3 # 2) None sA) ((3 # 2) * 25)) = Qred ((3 # 2) * calc sA 25)
  /\ Qred (calc sA 25) = 9 # 2.
Proof. split; vm_compute; reflexivity. Qed.

(** with a negative factor the law is false *)
Example scale_thresholds_negative_factor :
  ~ calc (multiply_thresholds (-1) None [(0, 1 # 10)]) (-1 * 5) == -1 * calc [(0, 1 # 10)] 5.
Proof. vm_compute. discriminate. Qed.

Example scale_rates_ex :
  Qred (calc (multiply_rates (-2) sA) 25) = -9 /\ Qred (calc sA 25) = 9 # 2.
Proof. split; vm_compute; reflexivity. Qed.

(** first threshold 0: the round trip gives the scale back; first threshold 5 > 0: a
    bracket (0, 0) is put in front (F6 repair), the taxes are the same *)
Example average_marginal_ex :
  (exists m, average_then_marginal sA = Ok m
             /\ map (fun tr => (Qred (fst tr), Qred (snd tr))) m = [(0, 1 # 10); (10, 1 # 5); (20, 3 # 10)])
  /\ (exists m, average_then_marginal sB = Ok m
                /\ map (fun tr => (Qred (fst tr), Qred (snd tr))) m
                   = [(0, 0); (5, 1 # 4); (10, 1 # 8); (30, 1 # 2)]
                /\ calc m 40 == calc sB 40).
Proof.
  split.
  - eexists. split; [reflexivity|]. vm_compute. reflexivity.
  - eexists. split; [reflexivity|]. split; vm_compute; reflexivity.
Qed.

(** one-bracket scale (F6: used to crash) *)
Example average_marginal_one_bracket_ex :
  exists m, average_then_marginal [(0, 1 # 4)] = Ok m /\ calc m 8 == 2.
Proof. eexists. split; [reflexivity|]. vm_compute. reflexivity. Qed.

Example to_average_ex :
  to_average sA = Ok [(Fin 0, 0); (Fin 10, (0 + (1 # 10) * (10 - 0)) / 10);
                      (Fin 20, (0 + (1 # 10) * (10 - 0) + (2 # 10) * (20 - 10)) / 20); (Inf, 3 # 10)].
Proof. reflexivity. Qed.

Example non_inplace_ex :
  (exists c, multiply_thresholds_call 2 None false false sA = Ok c /\ self_after c = sA
             /\ returned c <> sA /\ aliased c = false)
  /\ (exists c, multiply_thresholds_call 2 None true false sA = Ok c /\ self_after c = returned c
                /\ aliased c = true)
  /\ multiply_rates_call 2 true true sA = Err EOther.
Proof.
  split; [|split].
  - eexists. split; [reflexivity|]. split; [reflexivity|]. split; [discriminate|reflexivity].
  - eexists. split; [reflexivity|]. split; reflexivity.
  - reflexivity.
Qed.
