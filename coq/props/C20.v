(** C20 - The web API and YAML tests report exactly what the engine computes.
    Only statements here; proofs are in proofs/ApiProofs.v. *)
From Coq Require Import ZArith QArith List Bool String.
From Verif Require Import Base Cal Period Engine Api ApiProofs.
Import ListNotations.

Theorem requests_independent :
  forall (St : Type) var_info ids_of is_role period_ok (build : doc -> res St) ecalc plurals canon before r after,
    nth_error (serve var_info ids_of is_role period_ok build ecalc plurals canon (before ++ r :: after))
              (List.length before)
    = Some (handle var_info ids_of is_role period_ok build ecalc plurals canon r)
    /\ serve var_info ids_of is_role period_ok build ecalc plurals canon [r]
       = [handle var_info ids_of is_role period_ok build ecalc plurals canon r].
Proof. intros St. exact (@serve_independent St). Qed.
Print Assumptions requests_independent.
