(** C20 - The web API and YAML tests report exactly what the engine computes.
    Only statements here; proofs are in proofs/ApiProofs.v.

    Vocabulary (coq/model/Api.v, coq/model/ApiSpec.v).  A JSON situation is the list of
    its depth-4 paths (entity plural, instance id, key, sub-key) with their leaves, in
    document order.  [api_calculate] / [api_trace] are handlers.calculate / handlers.trace
    over an abstract engine; [table_calc value_of] is an engine that answers from a table
    [value_of variable period_key]; [api_calculate_eng] runs the same handler on the
    machine of Engine.v (one simulation per request, its cache shared by the request's
    slots).  [fills var_info ids_of value_of path leaf]: [leaf] is the engine's value for
    that entity instance, variable and period, rendered in the variable's type.
    [yaml_verdict] is YamlItem.check_output + tools.assert_near; [expectations] is what an
    output section denotes, [holds] says that one expectation lies within its margin of
    the engine's value (ApiSpec.v).

    PARTIAL: HTTP, JSON, dpath, PyYAML and pytest are outside these theorems; the tie to the
    code is the correspondence run of harness/c20.py. *)
From Coq Require Import ZArith QArith Qabs List Bool String.
From Verif Require Import Base Cal Period Param Engine EngineProofs Api ApiSpec ApiProofs ApiListingProofs.
Import ListNotations.
Open Scope string_scope.

(** The answer has exactly the paths of the request, in the same order; every leaf that
    was not null is returned unchanged; every null leaf becomes the engine's value for
    that instance, variable and period, rendered in the variable's type. *)
Theorem calculate_fills_exactly :
  forall var_info ids_of is_role period_ok value_of d out,
    NoDup (map fst d) ->
    api_calculate var_info ids_of is_role period_ok table_build (table_calc value_of) d = Done out ->
    Forall2 (fun e o => fst o = fst e
                        /\ (snd e <> Null -> snd o = snd e)
                        /\ (snd e = Null -> fills var_info ids_of value_of (fst e) (snd o))) d out.
Proof. exact calculate_fills. Qed.
Print Assumptions calculate_fills_exactly.

(** The same on the machine of Engine.v for ranked rule systems (C01): the simulation built
    from the request holds its inputs, and every requested slot receives the MEANING
    [Engine.sem] of the rule system on those inputs ([eng_value_of] is [sem] behind the
    variable-name and period-key lookups), although the slots are computed one after the
    other on one simulation with a shared cache. *)
Theorem calculate_fills_exactly_engine :
  forall sy pp names pids gids, ranked sy = true -> (1 <= max_loops sy)%nat ->
  forall d out, NoDup (map fst d) ->
    api_calculate_eng sy pp names pids gids d = Done out ->
    exists inp, eng_build sy pp names pids gids d = Ok (init inp) /\
      Forall2 (fun e o => fst o = fst e
                          /\ (snd e <> Null -> snd o = snd e)
                          /\ (snd e = Null ->
                              fills (eng_var_info sy names) (eng_ids_of pids gids)
                                    (eng_value_of sy pp names inp) (fst e) (snd o))) d out.
Proof. exact calculate_eng_fills. Qed.
Print Assumptions calculate_fills_exactly_engine.

(** Whatever the outcome (answer, refusal, failure), the handlers on the machine answer as
    the handlers over the table of meanings. *)
Theorem machine_answers_as_meaning :
  forall sy pp names pids gids, ranked sy = true -> (1 <= max_loops sy)%nat ->
  forall d s0, eng_build sy pp names pids gids d = Ok s0 ->
    api_calculate_eng sy pp names pids gids d
    = api_calculate (eng_var_info sy names) (eng_ids_of pids gids) eng_is_role eng_period_ok
                    table_build (table_calc (eng_value_of sy pp names (cache s0))) d
    /\ api_trace_eng sy pp names pids gids d
       = api_trace (eng_var_info sy names) (eng_ids_of pids gids) eng_is_role eng_period_ok
                   table_build (table_calc (eng_value_of sy pp names (cache s0)))
                   [persons_pl; groups_pl] eng_canon d.
Proof. exact machine_as_meaning. Qed.
Print Assumptions machine_answers_as_meaning.

(** For the same request, /trace lists the requested calculations and the ids of the
    populations, and the value it reports for a requested calculation holds, at the
    position of the instance, the same engine element [x] that /calculate renders into the
    slot: [render ty x] there, [serialize ty x] here.  The two are the same JSON value
    unless [x] is a float32 whose shortest decimal text is not its exact value (then
    /calculate gives float(str(x)) and /trace the exact double). *)
Theorem trace_agrees_with_calculate :
  forall var_info ids_of is_role period_ok value_of plurals canon d out t,
    NoDup (map fst d) ->
    api_calculate var_info ids_of is_role period_ok table_build (table_calc value_of) d = Done out ->
    api_trace var_info ids_of is_role period_ok table_build (table_calc value_of) plurals canon d = Done t ->
    requested t = map (fun pa => let '(_, _, v, pk) := pa in trace_key v pk)
                      (null_paths d)
    /\ described t = map (fun pl => (pl, match ids_of pl with Some ids => ids | None => [] end)) plurals
    /\ Forall2 (fun pa kv => let '(pl, id, v, pk) := pa in
                  fst kv = trace_key v (canon pk)
                  /\ exists ids i ty vpl x, ids_of pl = Some ids /\ index_of id ids = Some i
                                     /\ var_info v = Some (ty, vpl)
                                     /\ In (pa, render ty x) out /\ nth_error (snd kv) i = Some (serialize ty x))
               (null_paths d) (traced t).
Proof. exact trace_agrees. Qed.
Print Assumptions trace_agrees_with_calculate.

Theorem trace_value_is_calculate_value : forall ty x, (forall e s, x <> RF e s) -> serialize ty x = render ty x.
Proof. exact serialize_render. Qed.
Print Assumptions trace_agrees_with_calculate.

(** The model's application keeps nothing between requests: in any sequence served by
    one instance every request is answered as if it were alone.  (That the real
    application behaves like this model is what the correspondence run checks.) *)
Theorem requests_independent :
  forall (St : Type) var_info ids_of is_role period_ok (build : doc -> res St) ecalc plurals canon before r after,
    nth_error (serve var_info ids_of is_role period_ok build ecalc plurals canon (before ++ r :: after))
              (List.length before)
    = Some (handle var_info ids_of is_role period_ok build ecalc plurals canon r)
    /\ serve var_info ids_of is_role period_ok build ecalc plurals canon [r]
       = [handle var_info ids_of is_role period_ok build ecalc plurals canon r].
Proof. exact @serve_independent. Qed.
Print Assumptions requests_independent.

(** A YAML test passes exactly when its output section is well formed and every
    expectation it denotes lies within its margin of the engine's value: numbers (int,
    float, bool as 0/1) within the absolute and the relative margin that are given (0 when
    none is), enum names, ISO dates and strings equal. *)
Theorem verdict_iff_within_margin :
  forall var_type is_singular ids_of value_of tst,
    yaml_verdict var_type is_singular ids_of value_of tst = true
    <-> exists xs, expectations var_type is_singular ids_of tst = Ok xs
                   /\ Forall (holds var_type value_of tst) xs.
Proof. exact verdict_iff. Qed.
Print Assumptions verdict_iff_within_margin.

(** What "close" means for two comparable values (the decision procedure of the model is
    this proposition). *)
Theorem close_decided : forall am rm p, closeb am rm p = true <-> close am rm p.
Proof. exact closeb_iff. Qed.
Print Assumptions close_decided.

(** The three layouts of the same per-instance expectations - by variable, by entity, by
    entity instance - denote the same expectations and get the same verdict. *)
Theorem layouts_equivalent :
  forall var_type is_singular ids_of value_of period abs_m rel_m key plural ids (cells : list cell),
    Forall (fun c : cell => exists ty, var_type (fst (fst c)) = Some ty) cells ->
    var_type key = None /\ is_singular key = true ->
    var_type plural = None /\ is_singular plural = false /\ ids_of plural = Some ids ->
    NoDup ids -> ids <> [] ->
    Forall (fun c : cell => List.length (snd c) = List.length ids) cells ->
    (forall c arr, In c cells -> value_of (fst (fst c)) (snd (fst c)) = Ok arr -> List.length arr = List.length ids) ->
    yaml_verdict var_type is_singular ids_of value_of (test_with period abs_m rel_m (by_entity key cells))
    = yaml_verdict var_type is_singular ids_of value_of (test_with period abs_m rel_m (by_variable cells))
    /\ yaml_verdict var_type is_singular ids_of value_of (test_with period abs_m rel_m (by_instance plural ids cells))
       = yaml_verdict var_type is_singular ids_of value_of (test_with period abs_m rel_m (by_variable cells)).
Proof. exact layouts_equiv. Qed.
Print Assumptions layouts_equivalent.

(** /parameter/<id> of a leaf parameter lists exactly the entries of its history (date as ISO
    text, value or null), and the value the engine uses on a day, [Param.get_at] (C06), is the
    value of the listed entry with the greatest date on or before that day. *)
Theorem parameter_listing_in_force : forall (h : hist Z), decreasing h ->
  api_parameter_values h = map (fun kv => (iso_date (of_ord (fst kv)), snd kv)) h
  /\ forall (d k : Z) (v : option Z), In (k, v) h -> (k <= d)%Z ->
       (forall k' v', In (k', v') h -> (k' <= d)%Z -> (k' <= k)%Z) -> get_at h d = v.
Proof. exact parameter_listing. Qed.
Print Assumptions parameter_listing_in_force.

(** * Non-vacuity *)

Example ex_parameter :
  let h : hist Z := [(ord (2018, 7, 1), None); (ord (2015, 1, 1), Some 4); (ord (2000, 1, 1), Some 3)]%Z in
  decreasing h
  /\ api_parameter_values h = [("2018-07-01", None); ("2015-01-01", Some 4%Z); ("2000-01-01", Some 3%Z)]
  /\ get_at h (ord (2016, 2, 29)%Z) = Some 4%Z.
Proof. vm_compute. repeat split; reflexivity. Qed.

Definition ex_vars (v : string) : option (jtype * string) :=
  if String.eqb v "salary" then Some (JFloat, "persons")
  else if String.eqb v "birth" then Some (JDate, "persons")
  else if String.eqb v "housing" then Some (JEnum ["owner"; "tenant"], "households")
  else None.
Definition ex_ids (pl : string) : option (list string) :=
  if String.eqb pl "persons" then Some ["bob"; "alice"]
  else if String.eqb pl "households" then Some ["h"] else None.
Definition ex_values (v pk : string) : res (list raw) :=
  if String.eqb v "salary" then Ok [RQ (5 # 2); RZ 7]
  else if String.eqb v "birth" then Ok [RD (1980, 2, 3)%Z; RD (1970, 1, 1)%Z]
  else if String.eqb v "housing" then Ok [RZ 1] else Err ENotFound.
Definition ex_doc : doc :=
  [ (("persons", "bob", "salary", "2018-01"), Num 3);
    (("persons", "alice", "salary", "2018-01"), Null);
    (("persons", "alice", "birth", "ETERNITY"), Null);
    (("households", "h", "parents", "0"), Str "bob");
    (("households", "h", "housing", "2018-01"), Null) ].

Example ex_nodup : NoDup (map fst ex_doc).
Proof. repeat constructor; cbn; intuition discriminate. Qed.

Example ex_calculate :
  api_calculate ex_vars ex_ids eng_is_role eng_period_ok table_build (table_calc ex_values) ex_doc
  = Done [ (("persons", "bob", "salary", "2018-01"), Num 3);
           (("persons", "alice", "salary", "2018-01"), Flt (inject_Z 7));
           (("persons", "alice", "birth", "ETERNITY"), Str "1970-01-01");
           (("households", "h", "parents", "0"), Str "bob");
           (("households", "h", "housing", "2018-01"), Str "tenant") ].
Proof. vm_compute. reflexivity. Qed.

Example ex_trace :
  exists t, api_trace ex_vars ex_ids eng_is_role eng_period_ok table_build (table_calc ex_values)
                      ["persons"; "households"] eng_canon ex_doc = Done t
            /\ requested t = ["salary<2018-01>"; "birth<ETERNITY>"; "housing<2018-01>"]
            /\ traced t = [ ("salary<2018-01>", [Flt (5 # 2); Flt (inject_Z 7)]);
                            ("birth<ETERNITY>", [Str "1980-02-03"; Str "1970-01-01"]);
                            ("housing<2018-01>", [Str "tenant"]) ].
Proof. eexists. vm_compute. repeat split. Qed.

Example ex_refused :
  api_calculate ex_vars ex_ids eng_is_role eng_period_ok table_build (table_calc ex_values)
                [(("persons", "bob", "ghost", "2018"), Null)] = Refused 404%Z
  /\ api_calculate ex_vars ex_ids eng_is_role eng_period_ok table_build (table_calc ex_values)
                   [(("persons", "bob", "salary", "2018-13"), Null)] = Refused 400%Z.
Proof. split; vm_compute; reflexivity. Qed.

(** the machine: the rule system of props/C01.v, a request with an input and two slots *)
Definition ex_pop : popu :=
  {| grp := {| Group.g_entity := {| Group.e_key := "household"; Group.e_roles := []; Group.e_containing := [] |};
               Group.g_count := 2; Group.g_ids := [0; 1; 0]%nat; Group.g_roles := [0; 0; 0]%nat |} |}.
Definition ex_sys : sys :=
  {| vars := [ mk_var EPerson TInt Month None [] 0%Z false false;
               mk_var EPerson TInt Year None
                 [((1, 1, 1)%Z, EDep 0 PSame OAdd); ((2019, 1, 1)%Z, EBin BAdd (EDep 0 PFirstMonth OPlain) (EConst 1))]
                 0%Z false false;
               mk_var EGroup TFloat Year None [((1, 1, 1)%Z, EAgg GSum None (EDep 1 PSame OPlain))] 0%Z false false ];
     params := []; switches := []; max_loops := 1 |}.
Definition ex_eng_doc : doc :=
  [ (("persons", "a", "v0", "2018-03"), Num 10);
    (("persons", "b", "v0", "2018-03"), Num 20);
    (("persons", "c", "v0", "month:2018-03"), Num 30);
    (("persons", "a", "v1", "2018"), Null);
    (("households", "h0", "v2", "2018"), Null);
    (("households", "h1", "v2", "2018"), Null) ].

Example ex_engine_hyps : ranked ex_sys = true /\ (1 <= max_loops ex_sys)%nat.
Proof. split; [reflexivity|apply le_n]. Qed.

Example ex_engine :
  api_calculate_eng ex_sys ex_pop ["v0"; "v1"; "v2"] ["a"; "b"; "c"] ["h0"; "h1"] ex_eng_doc
  = Done [ (("persons", "a", "v0", "2018-03"), Num 10);
           (("persons", "b", "v0", "2018-03"), Num 20);
           (("persons", "c", "v0", "month:2018-03"), Num 30);
           (("persons", "a", "v1", "2018"), Num 10);
           (("households", "h0", "v2", "2018"), Flt (inject_Z 40));
           (("households", "h1", "v2", "2018"), Flt (inject_Z 20)) ].
Proof. vm_compute. reflexivity. Qed.

(** YAML: engine values 2.5 and 7; an absolute margin of 1/2 accepts 3 (exactly at the
    margin) and refuses 3.25; a relative margin of 1/2 accepts 14 for 7 (at the margin). *)
Definition ex_vt (v : string) : option jtype := option_map fst (ex_vars v).
Definition ex_sing (k : string) : bool := String.eqb k "person" || String.eqb k "household".
Definition ex_cells (x : Q) : list cell := [("salary", "2018-01", [Flt x; Num 7]); ("birth", "ETERNITY", [Str "1980-02-03"; Str "1970-01-01"])].

Example ex_verdicts :
  let T := test_with (Some "2018-01") (MAll (1 # 2)) MNone in
  yaml_verdict ex_vt ex_sing ex_ids ex_values (T (by_variable (ex_cells 3))) = true
  /\ yaml_verdict ex_vt ex_sing ex_ids ex_values (T (by_entity "person" (ex_cells 3))) = true
  /\ yaml_verdict ex_vt ex_sing ex_ids ex_values (T (by_instance "persons" ["bob"; "alice"] (ex_cells 3))) = true
  /\ yaml_verdict ex_vt ex_sing ex_ids ex_values (T (by_variable (ex_cells (13 # 4)))) = false
  /\ yaml_verdict ex_vt ex_sing ex_ids ex_values (T (by_instance "persons" ["bob"; "alice"] (ex_cells (13 # 4)))) = false
  /\ yaml_verdict ex_vt ex_sing ex_ids ex_values
       (mk_ytest (Some "2018-01") [("persons", YD [("alice", YD [("salary", YL (Num 14))])])] MNone (MAll (1 # 2))) = true
  /\ yaml_verdict ex_vt ex_sing ex_ids ex_values
       (mk_ytest (Some "2018-01") [("persons", YD [("alice", YD [("salary", YL (Num 15))])])] MNone (MAll (1 # 2))) = false
  /\ yaml_verdict ex_vt ex_sing ex_ids ex_values
       (mk_ytest (Some "2018-01") [("housing", YL (Str "tenant")); ("birth", YD [("ETERNITY", YS [Str "1980-02-03"; Str "1970-01-02"])])] MNone MNone) = false.
Proof. vm_compute. repeat split. Qed.

(** a NaN / infinite engine value is within no margin of any number *)
Example ex_nonfinite :
  forall am rm, assert_near JFloat [RNF] [Num 0] am rm = Ok false.
Proof. intros am rm. reflexivity. Qed.

Example ex_layout_hyps :
  Forall (fun c : cell => exists ty, ex_vt (fst (fst c)) = Some ty) (ex_cells 3)
  /\ (ex_vt "person" = None /\ ex_sing "person" = true)
  /\ (ex_vt "persons" = None /\ ex_sing "persons" = false /\ ex_ids "persons" = Some ["bob"; "alice"])
  /\ NoDup ["bob"; "alice"] /\ ["bob"; "alice"] <> []
  /\ Forall (fun c : cell => List.length (snd c) = 2%nat) (ex_cells 3)
  /\ (forall c arr, In c (ex_cells 3) -> ex_values (fst (fst c)) (snd (fst c)) = Ok arr -> List.length arr = 2%nat).
Proof.
  repeat split; try discriminate.
  - repeat constructor; cbn; eauto.
  - repeat constructor; cbn; intuition discriminate.
  - repeat constructor.
  - intros c arr [<-|[<-|[]]]; cbn; intros [= <-]; reflexivity.
Qed.

Example ex_expectations :
  expectations ex_vt ex_sing ex_ids
    (mk_ytest (Some "2018") [("persons", YD [("alice", YD [("salary", YD [("2018-01", YL (Num 14))])])])] MNone MNone)
  = Ok [mk_exp "salary" (Some "2018-01") (Some 1%nat) [Num 14]].
Proof. vm_compute. reflexivity. Qed.


(** * GET /variable/<id> (appended)

    For a variable as Variable.__init__ accepts it ([well_formed_variable]: valid start
    dates in ascending order, none after the end date) and every valid day [d]: the formula
    the listing shows as in force on [d] - the entry with the greatest listed date on or
    before [d], the day-after-end entry (null) hiding every formula from then on - is exactly
    the formula the engine takes for a period starting on [d] ([Engine.formula_at], i.e.
    Variable.get_formula; C01 [formula_in_force] says which one that is); the ISO-keyed
    listing is that dated list, and the listed default value, value type, definition period
    and entity are the variable's. *)
Theorem variable_listing_in_force : forall x p, well_formed_variable x -> valid (p_start p) ->
  formula_at x p = Ok (listing_in_force (api_variable_formula_dates x) (p_start p))
  /\ a_formulas (api_variable x)
     = map (fun e => (iso_date (fst e), match snd e with Some _ => true | None => false end))
           (api_variable_formula_dates x)
  /\ a_default (api_variable x) = api_default_value x
  /\ a_value_type (api_variable x) = formatted_type (v_type x)
  /\ a_definition_period (api_variable x) = unit_upper (v_unit x)
  /\ a_entity (api_variable x) = entity_key (v_ent x).
Proof. exact variable_listing. Qed.
Print Assumptions variable_listing_in_force.

Definition ex_listed : var :=
  mk_var EPerson TFloat Month (Some (2019, 6, 30)%Z)
         [((1, 1, 1)%Z, EConst 1); ((2016, 1, 1)%Z, EConst 2); ((2018, 6, 1)%Z, EConst 3)] (-2)%Z false false.

Example ex_variable_listing :
  a_formulas (api_variable ex_listed)
  = [("0001-01-01", true); ("2016-01-01", true); ("2018-06-01", true); ("2019-07-01", false)]
  /\ a_default (api_variable ex_listed) = Flt (inject_Z (-2))
  /\ a_value_type (api_variable ex_listed) = "Float" /\ a_definition_period (api_variable ex_listed) = "MONTH"
  /\ a_entity (api_variable ex_listed) = "person"
  /\ listing_in_force (api_variable_formula_dates ex_listed) (2018, 5, 31)%Z = Some (EConst 2)
  /\ listing_in_force (api_variable_formula_dates ex_listed) (2019, 6, 30)%Z = Some (EConst 3)
  /\ listing_in_force (api_variable_formula_dates ex_listed) (2019, 7, 1)%Z = None
  /\ formula_at ex_listed (Month, (2019, 7, 1)%Z, 1%Z) = Ok None.
Proof. vm_compute. repeat split; reflexivity. Qed.

Example ex_listed_well_formed : well_formed_variable ex_listed.
Proof.
  repeat split; cbn.
  - repeat constructor.
  - repeat constructor.
  - repeat constructor.
Qed.
