(** C16 - inputs given on a longer period are conserved when spread over shorter ones.
    Only statements here; proofs are in proofs/SetInputProofs.v. *)
From Coq Require Import ZArith QArith List Bool.
From Verif Require Import Base Cal Tables Period SetInput SetInputProofs.
Open Scope Z_scope.

Theorem holder_keys_decidable : forall p q, period_eqb p q = true <-> p = q.
Proof. exact period_eqb_eq. Qed.
Print Assumptions holder_keys_decidable.
