(** C16 - inputs given on a longer period are conserved when spread over shorter ones.
    Only statements here; proofs are in proofs/SetInputProofs.v, the model (and the
    vocabulary: [ent], [qsum], [val], [known_tiles], [n_unknown], [remainder], [share],
    [wf_holder], [tile_ok], [not_after_end]) in model/SetInput.v.

    Reading guide.  [h] maps sub-period keys to arrays (one rational per entity);
    [T] is the list of sub-periods the helper walks over ([walk_tiles v P], or any list of
    keys that [_set] accepts: the theorems need no calendar fact);
    [val v n h i t] is entity [i]'s value for [t];
    [remainder .. i] = amount_i - sum of the values already known on [T];
    [n_unknown] = number of sub-periods of [T] without a value; [share] = remainder / n_unknown;
    [cast] is the conversion to the variable's dtype (identity for float - binary32 rounding
    is not modelled - truncation toward zero for int). *)
From Coq Require Import ZArith QArith List Bool Lia.
From Verif Require Import Base Cal Tables Period PeriodSpec SetInput SetInputProofs SetInputCalProofs.
Import ListNotations.
Open Scope Z_scope.

(** Divide rule over any list [T] of sub-period keys, any holder.
    Some sub-period unknown: the call succeeds; every known value (on [T] or elsewhere) is
    untouched; nothing outside [T] appears; each unknown sub-period receives, for every entity,
    [cast (remainder / n_unknown)]; and when that share is representable in the dtype, the
    values over [T] sum to the amount.  All known: accepted without change iff the amount is
    the sum of the known values, [ValueError] otherwise. *)
Theorem divide_tiles_conserves :
  forall (v : var) (n : Z) (h : holder) (T : list period) (a : arr),
  eternal v = false -> wf_holder n h -> Z.of_nat (length a) = n -> Forall (tile_ok v) T ->
  (0 < n_unknown v h T ->
     exists h', divide_tiles v n h T a = Ok h' /\ wf_holder n h'
       /\ (forall q x, get h q = Some x -> get h' q = Some x)
       /\ (forall q, ~ In q T -> get h' q = get h q)
       /\ (forall t, In t T -> get h t = None ->
             exists x, get h' t = Some x /\ length x = length a /\
               forall i, (i < length a)%nat -> (ent i x == cast (v_type v) (share v n h T a i))%Q)
       /\ (forall i, (i < length a)%nat ->
             (cast (v_type v) (share v n h T a i) == share v n h T a i)%Q ->
             (qsum (map (val v n h' i) T) == ent i a)%Q))
  /\ (n_unknown v h T = 0 ->
       ((forall i, (i < length a)%nat -> (remainder v n h T a i == 0)%Q) ->
          divide_tiles v n h T a = Ok h
          /\ forall i, (i < length a)%nat -> (qsum (map (val v n h i) T) == ent i a)%Q)
       /\ ((exists i, (i < length a)%nat /\ ~ (remainder v n h T a i == 0)%Q) ->
          divide_tiles v n h T a = Err EValue)).
Proof. exact divide_tiles_conserves_proof. Qed.
Print Assumptions divide_tiles_conserves.

(** The same for the real entry point [Simulation.set_input] of a variable with the divide
    rule, in the state reached by ANY history [steps] of earlier set_input calls (accepted,
    refused or dropped), [T] being the sub-periods the helper walks over. *)
Theorem divide_conserves :
  forall (v : var) (n : Z) (steps : list (period * arr)) (P : period) (a : arr) (T : list period),
  v_rule v = RDivide -> eternal v = false -> not_after_end v P -> p_unit P <> Eternity ->
  Z.of_nat (length a) = n -> walk_tiles v P = Ok T ->
  let h := run_steps v n [] steps in
  let a' := map (cast (v_type v)) a in
  (0 < n_unknown v h T ->
     exists h', sim_set_input v n h P a = Ok h' /\ wf_holder n h'
       /\ (forall q x, get h q = Some x -> get h' q = Some x)
       /\ (forall q, ~ In q T -> get h' q = get h q)
       /\ (forall t, In t T -> get h t = None ->
             exists x, get h' t = Some x /\ length x = length a /\
               forall i, (i < length a)%nat -> (ent i x == cast (v_type v) (share v n h T a' i))%Q)
       /\ (forall i, (i < length a)%nat ->
             (cast (v_type v) (share v n h T a' i) == share v n h T a' i)%Q ->
             (qsum (map (val v n h' i) T) == ent i a')%Q))
  /\ (n_unknown v h T = 0 ->
       ((forall i, (i < length a)%nat -> (remainder v n h T a' i == 0)%Q) ->
          sim_set_input v n h P a = Ok h
          /\ forall i, (i < length a)%nat -> (qsum (map (val v n h i) T) == ent i a')%Q)
       /\ ((exists i, (i < length a)%nat /\ ~ (remainder v n h T a' i == 0)%Q) ->
          sim_set_input v n h P a = Err EValue)).
Proof. exact divide_conserves_proof. Qed.
Print Assumptions divide_conserves.

(** Float variables: the sum over the sub-periods is the amount, without side condition. *)
Theorem divide_conserves_float :
  forall (v : var) (n : Z) (steps : list (period * arr)) (P : period) (a : arr) (T : list period),
  v_type v = VFloat ->
  v_rule v = RDivide -> eternal v = false -> not_after_end v P -> p_unit P <> Eternity ->
  Z.of_nat (length a) = n -> walk_tiles v P = Ok T ->
  let h := run_steps v n [] steps in
  0 < n_unknown v h T ->
  exists h', sim_set_input v n h P a = Ok h'
    /\ forall i, (i < length a)%nat -> (qsum (map (val v n h' i) T) == ent i a)%Q.
Proof. exact divide_conserves_float_proof. Qed.
Print Assumptions divide_conserves_float.

(** Dispatch rule over any list of sub-period keys: always accepted; every unknown sub-period
    receives the value itself; known values are untouched; nothing outside [T] appears. *)
Theorem dispatch_tiles_repeats :
  forall (v : var) (n : Z) (h : holder) (T : list period) (a : arr),
  eternal v = false -> wf_holder n h -> Z.of_nat (length a) = n -> Forall (tile_ok v) T ->
  exists h', dispatch_tiles v n h T a = Ok h' /\ wf_holder n h'
    /\ (forall q x, get h q = Some x -> get h' q = Some x)
    /\ (forall q, ~ In q T -> get h' q = get h q)
    /\ (forall t, In t T -> get h t = None -> get h' t = Some (map (cast (v_type v)) a)).
Proof. exact dispatch_tiles_repeats. Qed.
Print Assumptions dispatch_tiles_repeats.

(** The same for [Simulation.set_input] of a variable with the dispatch rule after any history. *)
Theorem dispatch_repeats :
  forall (v : var) (n : Z) (steps : list (period * arr)) (P : period) (a : arr) (T : list period),
  v_rule v = RDispatch -> eternal v = false -> not_after_end v P -> p_unit P <> Eternity ->
  Z.of_nat (length a) = n -> walk_tiles v P = Ok T ->
  let h := run_steps v n [] steps in
  exists h', sim_set_input v n h P a = Ok h' /\ wf_holder n h'
    /\ (forall q x, get h q = Some x -> get h' q = Some x)
    /\ (forall q, ~ In q T -> get h' q = get h q)
    /\ (forall t, In t T -> get h t = None -> get h' t = Some (map (cast (v_type v)) a)).
Proof. exact dispatch_repeats_proof. Qed.
Print Assumptions dispatch_repeats.

(** Order effects: in a history of set_input calls on a variable with either rule, a value
    that is known at some point is never changed by any later call - a later long input only
    fills what is still unknown. *)
Theorem later_inputs_only_fill_unknown :
  forall (v : var) (n : Z) (s1 s2 : list (period * arr)) (q : period) (x : arr),
  v_rule v <> RNone ->
  get (run_steps v n [] s1) q = Some x -> get (run_steps v n [] (s1 ++ s2)) q = Some x.
Proof. exact later_inputs_only_fill_unknown_proof. Qed.
Print Assumptions later_inputs_only_fill_unknown.

(** The sub-periods the helpers walk over are keys that [_set] accepts. *)
Theorem walked_tiles_are_settable :
  forall (v : var) (P : period) (T : list period), walk_tiles v P = Ok T -> Forall (tile_ok v) T.
Proof. exact walk_tiles_ok. Qed.
Print Assumptions walked_tiles_are_settable.

(** [calculate_add] of an input variable is the entity-wise sum over the sub-periods. *)
Theorem sum_tiles_is_entitywise_sum :
  forall (v : var) (n : Z) (h : holder), eternal v = false -> wf_holder n h ->
  forall (T : list period) (i : nat), (ent i (sum_tiles v n h T) == qsum (map (val v n h i) T))%Q.
Proof. exact sum_tiles_ent. Qed.
Print Assumptions sum_tiles_is_entitywise_sum.

(** * Instantiation with the calendar (uses C04's tiling theorem)

    [wf P]: dated unit, valid start, size >= 1; [same_family]: day < month < year or
    weekday < week; [aligned]: the start is the first day of the definition unit
    (model/PeriodSpec.v).  Under these hypotheses - "the definition period tiles the long period
    exactly" - the helpers walk over exactly [Period.get_subperiods(definition_period)]. *)
Theorem walk_visits_subperiods :
  forall (v : var) (P : period),
  wf P -> same_family (p_unit P) (v_def v) = true -> aligned (v_def v) (p_start P) ->
  exists T, subperiods P (v_def v) = Ok T /\ walk_tiles v P = Ok T.
Proof. exact walk_eq_subperiods. Qed.
Print Assumptions walk_visits_subperiods.

(** ... hence setting an amount for the long period and then summing the variable over that same
    period returns the amount (cast to the dtype), per entity, after any history: when something
    was left to fill (and the share is representable in the dtype), and when everything was known
    and the amount is consistent. *)
Theorem divide_then_calculate_add :
  forall (v : var) (n : Z) (steps : list (period * arr)) (P : period) (a : arr),
  v_rule v = RDivide -> not_after_end v P ->
  wf P -> same_family (p_unit P) (v_def v) = true -> aligned (v_def v) (p_start P) ->
  Z.of_nat (length a) = n ->
  let h := run_steps v n [] steps in
  let a' := map (cast (v_type v)) a in
  exists T, subperiods P (v_def v) = Ok T /\ walk_tiles v P = Ok T
    /\ (0 < n_unknown v h T ->
          exists h' s, sim_set_input v n h P a = Ok h' /\ calculate_add v n h' P = Ok s
            /\ forall i, (i < length a)%nat ->
                 (cast (v_type v) (share v n h T a' i) == share v n h T a' i)%Q ->
                 (ent i s == ent i a')%Q)
    /\ (n_unknown v h T = 0 ->
          (forall i, (i < length a)%nat -> (remainder v n h T a' i == 0)%Q) ->
          exists s, sim_set_input v n h P a = Ok h /\ calculate_add v n h P = Ok s
            /\ forall i, (i < length a)%nat -> (ent i s == ent i a')%Q).
Proof. exact divide_then_calculate_add_proof. Qed.
Print Assumptions divide_then_calculate_add.

(** Dispatch rule on a long period tiled exactly: every sub-period of [get_subperiods] that had
    no value receives the value, the others keep theirs. *)
Theorem dispatch_on_subperiods :
  forall (v : var) (n : Z) (steps : list (period * arr)) (P : period) (a : arr),
  v_rule v = RDispatch -> not_after_end v P ->
  wf P -> same_family (p_unit P) (v_def v) = true -> aligned (v_def v) (p_start P) ->
  Z.of_nat (length a) = n ->
  let h := run_steps v n [] steps in
  exists T h', subperiods P (v_def v) = Ok T /\ sim_set_input v n h P a = Ok h'
    /\ (forall q x, get h q = Some x -> get h' q = Some x)
    /\ (forall q, ~ In q T -> get h' q = get h q)
    /\ (forall t, In t T -> get h t = None -> get h' t = Some (map (cast (v_type v)) a)).
Proof. exact dispatch_on_subperiods_proof. Qed.
Print Assumptions dispatch_on_subperiods.

(** * Non-vacuity: the hypotheses are satisfiable and the branches are taken *)

(** March = (5, 1/2) is known; 2019 := (27, 6) gives the 11 other months (2, 1/2) each,
    March is untouched, calculate_add(2019) = (27, 6). *)
Example divide_conserves_nonvacuous :
  let v := ex_month VFloat RDivide in
  let steps := [(ex_m 3, [5 # 1; 1 # 2])] in
  let h := run_steps v 2 [] steps in
  let r := sim_set_input v 2 h ex_2019 [27 # 1; 6 # 1] in
  exists T, walk_tiles v ex_2019 = Ok T /\ length T = 12%nat /\ NoDup T
    /\ v_rule v = RDivide /\ eternal v = false /\ not_after_end v ex_2019 /\ p_unit ex_2019 <> Eternity
    /\ n_unknown v h T = 11
    /\ holds r (ex_m 1) [2 # 1; 1 # 2] = true /\ holds r (ex_m 12) [2 # 1; 1 # 2] = true
    /\ holds r (ex_m 3) [5 # 1; 1 # 2] = true
    /\ subperiods ex_2019 Month = Ok T
    /\ match r with Ok h' => rmap (fun s => arr_eqb s [27 # 1; 6 # 1]) (calculate_add v 2 h' ex_2019) | Err e => Err e end
       = Ok true.
Proof.
  eexists. split; [vm_compute; reflexivity|].
  split; [reflexivity|]. split; [repeat constructor; cbn; intuition discriminate|].
  repeat split; try (vm_compute; reflexivity). discriminate.
Qed.

(** All three years known with sum (6); amount 7 is refused, amount 6 is accepted unchanged. *)
Example divide_contradiction_nonvacuous :
  let v := ex_year_var VInt RDivide in
  let steps := [(ex_y 2019, [1 # 1]); (ex_y 2020, [2 # 1]); (ex_y 2021, [3 # 1])] in
  let h := run_steps v 1 [] steps in
  let P : period := (Year, (2019, 1, 1), 3) in
  exists T, walk_tiles v P = Ok T /\ n_unknown v h T = 0
    /\ ~ (remainder v 1 h T [7 # 1] 0 == 0)%Q /\ sim_set_input v 1 h P [7 # 1] = Err EValue
    /\ (remainder v 1 h T [6 # 1] 0 == 0)%Q /\ sim_set_input v 1 h P [6 # 1] = Ok h.
Proof.
  eexists. split; [vm_compute; reflexivity|].
  split; [vm_compute; reflexivity|]. split; [vm_compute; discriminate|].
  split; [vm_compute; reflexivity|]. split; vm_compute; reflexivity.
Qed.

(** The side condition of the int case is needed: 10 over 12 months is truncated to 0, so the
    year sums to 0 - conservation without the side condition is refuted for int variables
    (open known finding int-divide-truncates-share). *)
Example int_share_is_truncated :
  let v := ex_month VInt RDivide in
  let r := sim_set_input v 1 [] ex_2019 [10 # 1] in
  holds r (ex_m 1) [0 # 1] = true /\ holds r (ex_m 12) [0 # 1] = true
  /\ ~ (cast VInt (10 # 12) == 10 # 12)%Q.
Proof. split; [vm_compute; reflexivity|]. split; [vm_compute; reflexivity|]. vm_compute. discriminate. Qed.

(* the same witness under the name used for refuted pre-conditions *)
Example divide_conserves_refuted_int :
  let v := ex_month VInt RDivide in
  let r := sim_set_input v 1 [] ex_2019 [10 # 1] in
  holds r (ex_m 1) [0 # 1] = true /\ holds r (ex_m 12) [0 # 1] = true
  /\ ~ (cast VInt (10 # 12) == 10 # 12)%Q.
Proof. exact int_share_is_truncated. Qed.

(** March = 5 is known; dispatching 10 over 2019 gives 10 to every other month - also to the
    months after March (the defect repaired by the fix: commit) - and leaves March alone. *)
Example dispatch_repeats_nonvacuous :
  let v := ex_month VFloat RDispatch in
  let steps := [(ex_m 3, [5 # 1])] in
  let h := run_steps v 1 [] steps in
  let r := sim_set_input v 1 h ex_2019 [10 # 1] in
  exists T, walk_tiles v ex_2019 = Ok T /\ length T = 12%nat
    /\ v_rule v = RDispatch /\ eternal v = false /\ not_after_end v ex_2019 /\ p_unit ex_2019 <> Eternity
    /\ holds r (ex_m 1) [10 # 1] = true /\ holds r (ex_m 4) [10 # 1] = true
    /\ holds r (ex_m 12) [10 # 1] = true /\ holds r (ex_m 3) [5 # 1] = true.
Proof.
  eexists. split; [vm_compute; reflexivity|].
  repeat split; try (vm_compute; reflexivity). discriminate.
Qed.

(** Two long inputs in both orders: the first one wins on the overlap. *)
Example order_effect_nonvacuous :
  let v := ex_month VFloat RDivide in
  let roll : period := (Year, (2019, 7, 1), 1) in
  let h1 := run_steps v 1 [] [(ex_2019, [12 # 1]); (roll, [30 # 1])] in
  let h2 := run_steps v 1 [] [(roll, [30 # 1]); (ex_2019, [12 # 1])] in
  holds (Ok h1) (ex_m 8) [1 # 1] = true /\ holds (Ok h1) (Month, (2020, 2, 1), 1) [4 # 1] = true
  /\ holds (Ok h2) (ex_m 8) [5 # 2] = true /\ holds (Ok h2) (ex_m 2) [-1 # 2] = true.
Proof. repeat split; vm_compute; reflexivity. Qed.

(** The calendar hypotheses hold for a calendar year, a rolling year and a leap February. *)
Example calendar_hypotheses_nonvacuous :
  (wf ex_2019 /\ same_family (p_unit ex_2019) Month = true /\ aligned Month (p_start ex_2019))
  /\ (let roll : period := (Year, (2019, 7, 1), 2) in
      wf roll /\ same_family (p_unit roll) Month = true /\ aligned Month (p_start roll))
  /\ (let feb : period := (Month, (2020, 2, 1), 1) in
      wf feb /\ same_family (p_unit feb) Day = true /\ aligned Day (p_start feb)
      /\ rmap (@length period) (walk_tiles (mkVar VFloat Day RDivide None) feb) = Ok 29%nat).
Proof.
  unfold wf, valid. repeat split; try discriminate; try reflexivity; cbn; lia.
Qed.

(** ** Tie to the regenerated routing of an input

    coq/gen/GuardsInput.v is re-emitted on every run from the Python text of Holder.__init__
    ([gen_holder_eternal]), Holder.set_input ([gen_holder_set_input]: period mismatch /
    ignored / the variable's set_input rule / _set), Holder._to_array ([gen_to_array_rejects],
    the length test), Holder._set ([gen_holder_set_guard], the tests before the storage) and
    Simulation.set_input ([gen_sim_set_input_ignored], the [end] short-cut) by
    harness/gen_tables.py (fail-closed).  coq/model/GuardsInputSem.v re-assembles [_set],
    [holder_set_input] and [sim_set_input] from these pieces; they are the functions of
    coq/model/SetInput.v that the theorems above are about. *)
From Verif Require Import GuardsTypes GuardsInput GuardsInputSem GuardsInputProofs.

Theorem source_set_input_guards_are_model_guards :
  (forall v, eternal v = gen_holder_eternal (v_def v))
  /\ (forall v n h p a,
        _set v n h p a
        = if gen_to_array_rejects (Z.of_nat (length a)) n then Err EValue
          else match gen_holder_set_guard (gen_holder_eternal (v_def v)) false
                                          (v_def v) (p_unit p) (p_size p) with
               | SGValueError => Err EValue
               | SGMismatch => Err EMismatch
               | SGOk => Ok (put h (storage_key v p) (map (cast (v_type v)) a))
               end)
  /\ (forall v n h P a,
        holder_set_input v n h P a
        = match gen_holder_set_input (p_unit P) (gen_holder_eternal (v_def v)) false (has_rule v) with
          | SOMismatch => Err EMismatch
          | SOIgnored => Ok h
          | SORule =>
              match v_rule v with
              | RDivide => set_input_divide_by_period v n h P a
              | RDispatch => set_input_dispatch_by_period v n h P a
              | RNone => _set v n h P a
              end
          | SOSet => _set v n h P a
          end)
  /\ (forall v n h P a, unit_eqb (p_unit P) Eternity = false ->
        sim_set_input v n h P a
        = if gen_sim_set_input_ignored (match v_end v with Some _ => true | None => false end)
               (match v_end v with Some e => date_ltb e (p_start P) | None => false end)
          then Ok h
          else holder_set_input v n h P a).
Proof.
  exact (conj (fun v => eq_sym (gen_holder_eternal_is_model v))
        (conj set_is_source (conj holder_set_input_is_source sim_set_input_is_source))).
Qed.
Print Assumptions source_set_input_guards_are_model_guards.
