(** The fuel of the engine model is never exhausted: termination of the lazy evaluator for
    EVERY rule system (no ranking hypothesis: spirals, cycles, unknown variables, raising
    formulas included).  Only statements here; proofs are in proofs/EngineFuelProofs.v and
    proofs/EngineFuelProofsNF.v.

    Vocabulary.  coq/model/Engine.v: [calc fuel sy pp s v p] is Simulation.calculate run in
    machine state [s] (cache, evaluation stack, invalidated keys); nested dependency
    requests run with [fuel - 1] and fuel 0 answers [Err EFuel], an error kind the
    implementation cannot produce.  [step]/[run] are the top-level requests; between two
    requests the evaluation stack is empty (C17).  [enough_fuel sy =
    S ((max_loops sy + 2) * length (vars sy))] is the fuel every top-level request and the
    correspondence checks use.

    Why it holds (the real engine has no fuel): a formula of variable [v] is evaluated only
    when fewer than [max_loops] earlier frames of [v] are on the stack, so nested requests
    start from stacks on which each of the [length (vars sy)] variables has at most
    [max_loops] frames: depth at most [max_loops * length (vars sy)], plus the frame of the
    request that is cut / unknown / a leaf.  Hence [S (max_loops sy * length (vars sy))]
    already suffices, [enough_fuel] is larger than needed (by [2 * length (vars sy)]), and
    the example at the end shows a system that does need [S (max_loops * |vars|)]. *)
From Coq Require Import ZArith List Bool Arith String.
From Verif Require Import Base Cal Period Group Engine EngineFuelProofs.
Import ListNotations.
Open Scope nat_scope.
Local Notation length := List.length.

(** ** [enough_fuel] is enough *)

Theorem enough_fuel_suffices : forall sy pp s v p, stack s = [] ->
  snd (calc (enough_fuel sy) sy pp s v p) <> Err EFuel.
Proof. exact calc_enough_fuel. Qed.
Print Assumptions enough_fuel_suffices.

(** Fuel irrelevance: more fuel changes neither the answer nor the final state. *)
Theorem fuel_irrelevant : forall sy pp f s v p, stack s = [] -> enough_fuel sy <= f ->
  calc f sy pp s v p = calc (enough_fuel sy) sy pp s v p.
Proof. intros sy pp f s v p. exact (calc_fuel_irrelevant sy pp f s v p). Qed.
Print Assumptions fuel_irrelevant.

(** The sharper bound, and the general form at any depth: from a stack that holds only
    variables of the system, each at most [max_loops] times (every stack a nested request
    can start from), fuel [max_loops * |vars| + 1 - depth] is enough. *)
Theorem min_fuel_suffices : forall sy pp s v p, stack s = [] ->
  (forall f, S (max_loops sy * length (vars sy)) <= f ->
     calc f sy pp s v p = calc (S (max_loops sy * length (vars sy))) sy pp s v p)
  /\ snd (calc (S (max_loops sy * length (vars sy))) sy pp s v p) <> Err EFuel.
Proof. exact calc_min_fuel. Qed.
Print Assumptions min_fuel_suffices.

Theorem fuel_suffices_at_depth : forall sy pp f s v p,
  (forall k, In k (stack s) -> fst k < length (vars sy)) ->
  (forall w, length (prev_periods w (stack s)) <= max_loops sy) ->
  max_loops sy * length (vars sy) < f + length (stack s) ->
  (forall f', f <= f' -> calc f' sy pp s v p = calc f sy pp s v p)
  /\ snd (calc f sy pp s v p) <> Err EFuel.
Proof. intros sy pp f s v p H1 H2. exact (calc_fuel_gen sy pp f s v p (conj H1 H2)). Qed.
Print Assumptions fuel_suffices_at_depth.

(** the pigeonhole step: such a stack has at most [max_loops * |vars|] frames *)
Theorem good_stack_depth : forall n L (stk : list key),
  (forall k, In k stk -> fst k < n) -> (forall w, length (prev_periods w stk) <= L) ->
  length stk <= L * n.
Proof. intros n L stk H1 H2. exact (Good_length n L stk (conj H1 H2)). Qed.
Print Assumptions good_stack_depth.

(** ** Top-level requests of every kind, and sequences of them *)

Theorem step_enough_fuel_suffices : forall sy pp s r, stack s = [] ->
  snd (step (enough_fuel sy) sy pp s r) <> AErr EFuel.
Proof. exact step_enough_fuel. Qed.
Print Assumptions step_enough_fuel_suffices.

Theorem step_fuel_irrelevant : forall sy pp f s r, stack s = [] -> enough_fuel sy <= f ->
  step f sy pp s r = step (enough_fuel sy) sy pp s r.
Proof. exact EngineFuelProofs.step_fuel_irrelevant. Qed.
Print Assumptions step_fuel_irrelevant.

Theorem run_enough_fuel_suffices : forall sy pp s rs, stack s = [] ->
  ~ In (AErr EFuel) (snd (run (enough_fuel sy) sy pp s rs)).
Proof. exact run_enough_fuel. Qed.
Print Assumptions run_enough_fuel_suffices.

Theorem run_fuel_irrelevant : forall sy pp f s rs, stack s = [] -> enough_fuel sy <= f ->
  run f sy pp s rs = run (enough_fuel sy) sy pp s rs.
Proof. exact EngineFuelProofs.run_fuel_irrelevant. Qed.
Print Assumptions run_fuel_irrelevant.

(** ** Non-vacuity, and the bound [S (max_loops * |vars|)] is reached *)

(** fresh simulations satisfy the hypothesis *)
Example fresh_simulation_has_empty_stack : forall inp, stack (init inp) = [].
Proof. reflexivity. Qed.

(** One monthly variable whose formula asks for itself one month earlier (a spiral),
    max_spiral_loops = 2: the requests nest 3 = S (2 * 1) deep (the third one is cut). *)
Definition spiral_var : var :=
  {| v_ent := EPerson; v_type := TInt; v_unit := Month; v_end := None;
     v_formulas := [((1, 1, 1)%Z, EBin BAdd (EDep 0 (POffset (-1)) OPlain) (EConst 1))];
     v_default := 0%Z; v_neutral := false; v_nostore := false |}.
Definition spiral_sys : sys := {| vars := [spiral_var]; params := []; switches := []; max_loops := 2 |}.
Definition one_person : popu :=
  {| grp := {| g_entity := {| e_key := ""%string; e_roles := []; e_containing := [] |};
               g_count := 1; g_ids := [0]; g_roles := [0] |} |}.
Definition a_month : period := (Month, (2020, 3, 1)%Z, 1%Z).

Example spiral_needs_min_fuel :
  snd (calc 2 spiral_sys one_person (init []) 0 a_month) = Err EFuel
  /\ snd (calc 3 spiral_sys one_person (init []) 0 a_month) = Ok [2%Z]
  /\ calc (enough_fuel spiral_sys) spiral_sys one_person (init []) 0 a_month
     = calc 3 spiral_sys one_person (init []) 0 a_month.
Proof. vm_compute. repeat split. Qed.
