(** C05 - Period and instant text forms round-trip and are canonical.  Only statements
    here; proofs are in proofs/PeriodStrProofs.v.  Vocabulary ([claimed], [canon],
    [join_colon], [colon_free], [rejected]) is in model/PeriodStrSpec.v; [show_period],
    [show_instant], [parse_period], [parse_instant], [py_int] are the functions of
    model/PeriodStr.v that the correspondence check runs against the implementation. *)
From Coq Require Import ZArith List Bool Ascii String.
From Verif Require Import Base Cal Tables Period PeriodStr PeriodStrSpec PeriodStrProofs.
Import ListNotations.
Open Scope string_scope.
Open Scope Z_scope.

(** Every instant (real date, year 1..9999) prints as its ISO date, which parses back to it. *)
Theorem instant_roundtrip : forall y m d, valid (y, m, d) -> y <= 9999 ->
  show_instant (y, m, d) = Ok (iso_text y m d) /\ parse_instant (iso_text y m d) = Ok (y, m, d).
Proof. exact instant_roundtrip_lemma. Qed.
Print Assumptions instant_roundtrip.

(** Every aligned period of positive size (any size, years 1000..9999, all six units) prints to
    a text that parses to a period with the same first and last day, the same unit except
    that twelve months come back as one year, and that prints to the same text again. *)
Theorem period_roundtrip : forall p, claimed p ->
  exists s q, show_period p = Ok s /\ parse_period s = Ok q /\ show_period q = Ok s /\
    p_start q = p_start p /\ stop q = stop p /\ days q = days p /\
    (if unit_eqb (p_unit p) Month && (p_size p =? 12) then p_unit q = Year /\ p_size q = 1 else q = p).
Proof. exact period_roundtrip_lemma. Qed.
Print Assumptions period_roundtrip.

(** Two aligned periods of the same unit that differ in start or size never print alike. *)
Theorem show_injective : forall p q, claimed p -> claimed q -> p_unit p = p_unit q ->
  show_period p = show_period q -> p = q.
Proof. exact show_injective_lemma. Qed.
Print Assumptions show_injective.

(** [int(str(n)) = n]: the size field, unbounded. *)
Theorem size_roundtrip : forall n, py_int (show_Z n) = Some n.
Proof. exact py_int_show_Z. Qed.
Print Assumptions size_roundtrip.

(** Rejection classes.  "rest" is any list of further ":"-separated fields. *)

(* an impossible calendar date YYYY-MM-DD (any two-digit month and day), alone or as date field *)
Theorem rejects_impossible_date : forall y m d, 0 <= y <= 9999 -> 0 <= m <= 99 -> 0 <= d <= 99 ->
  validb (y, m, d) = false ->
  rejected (iso_text y m d) /\
  forall u rest, Forall colon_free (u :: rest) -> rejected (join_colon (u :: iso_text y m d :: rest)).
Proof. exact rejects_impossible_date_lemma. Qed.
Print Assumptions rejects_impossible_date.

(* a week number beyond the last ISO week of the year: week 53 of a 52-week year *)
Theorem rejects_week_beyond : forall y w, 0 <= y <= 9999 -> 1 <= w <= 53 -> weeks_in_iso_year y < w ->
  let week := pad4 y ++ "-W" ++ pad2 w in
  rejected week /\
  (forall wd, 1 <= wd <= 7 -> rejected (week ++ "-" ++ show_Z wd)) /\
  forall u rest, Forall colon_free (u :: rest) ->
    rejected (join_colon (u :: week :: rest)) /\
    forall wd, 1 <= wd <= 7 -> rejected (join_colon (u :: (week ++ "-" ++ show_Z wd) :: rest)).
Proof. exact rejects_week_beyond_lemma. Qed.
Print Assumptions rejects_week_beyond.

(* a unit lighter (Tables.unit_weight, regenerated from the source) than the precision of the date *)
Theorem rejects_finer_unit : forall u body rest q, Forall colon_free (body :: rest) ->
  parse_simple body = Ok q -> unit_weight u < unit_weight (p_unit q) ->
  rejected (join_colon (unit_name u :: body :: rest)).
Proof. exact rejects_finer_unit_lemma. Qed.
Print Assumptions rejects_finer_unit.

(* a size that [int()] does not accept *)
Theorem rejects_noninteger_size : forall u body sz, Forall colon_free [u; body; sz] ->
  py_int sz = None -> rejected (join_colon [u; body; sz]).
Proof. exact rejects_noninteger_size_lemma. Qed.
Print Assumptions rejects_noninteger_size.

(* in particular a size containing a character other than digits, sign, underscore, white space ("1.5", "x", "1e3") *)
Theorem rejects_foreign_size : forall u body sz c, Forall colon_free [u; body; sz] ->
  has_char c sz = true -> int_char c = false -> rejected (join_colon [u; body; sz]).
Proof. exact rejects_foreign_size_lemma. Qed.
Print Assumptions rejects_foreign_size.

(* a first field that is not one of weekday, week, day, month, year *)
Theorem rejects_unknown_unit : forall u body rest, Forall colon_free (u :: body :: rest) ->
  (forall v, v <> Eternity -> u <> unit_name v) -> rejected (join_colon (u :: body :: rest)).
Proof. exact rejects_unknown_unit_lemma. Qed.
Print Assumptions rejects_unknown_unit.

(* four fields or more *)
Theorem rejects_extra_fields : forall a b c d rest, Forall colon_free (a :: b :: c :: d :: rest) ->
  rejected (join_colon (a :: b :: c :: d :: rest)).
Proof. exact rejects_extra_fields_lemma. Qed.
Print Assumptions rejects_extra_fields.

(* an empty field anywhere in a text with at least one ":"; the empty text *)
Theorem rejects_empty_field : forall u body rest, Forall colon_free (u :: body :: rest) ->
  In "" (u :: body :: rest) -> rejected (join_colon (u :: body :: rest)).
Proof. exact rejects_empty_field_lemma. Qed.
Print Assumptions rejects_empty_field.

Theorem rejects_empty_text : rejected "".
Proof. exact rejects_empty_text_lemma. Qed.
Print Assumptions rejects_empty_text.

(** Non-vacuity: the hypotheses are satisfiable and the statements say something on concrete inputs. *)

Example claimed_week53 : claimed (Week, (2020, 12, 28), 3).
Proof. cbv. repeat split; discriminate. Qed.
Example claimed_rolling_year : claimed (Month, (2014, 3, 1), 12).
Proof. cbv. repeat split; discriminate. Qed.
Example claimed_eternity : claimed eternity_period.
Proof. reflexivity. Qed.
Example claimed_leap_day_huge : claimed (Day, (2016, 2, 29), 10 ^ 30).
Proof. cbv. repeat split; discriminate. Qed.

Example ex_show_week53 : show_period (Week, (2020, 12, 28), 3) = Ok "week:2020-W53:3".
Proof. vm_compute. reflexivity. Qed.
Example ex_roundtrip_rolling_year :
  show_period (Month, (2014, 3, 1), 12) = Ok "year:2014-03" /\
  parse_period "year:2014-03" = Ok (Year, (2014, 3, 1), 1).
Proof. split; vm_compute; reflexivity. Qed.
Example ex_instant : show_instant (5, 2, 3) = Ok "0005-02-03" /\ parse_instant "0005-02-03" = Ok (5, 2, 3).
Proof. split; vm_compute; reflexivity. Qed.
(* outside the claim the round trip really fails: three-digit years are printed unpadded *)
Example ex_year_999_not_claimed :
  show_period (Year, (999, 1, 1), 1) = Ok "999" /\ parse_period "999" = Err EPeriod.
Proof. split; vm_compute; reflexivity. Qed.

Example ex_impossible_date : validb (2015, 2, 29) = false /\ iso_text 2015 2 29 = "2015-02-29".
Proof. split; vm_compute; reflexivity. Qed.
Example ex_week53_of_52 : weeks_in_iso_year 2014 < 53 /\ pad4 2014 ++ "-W" ++ pad2 53 = "2014-W53".
Proof. split; vm_compute; reflexivity. Qed.
Example ex_week53_of_53 : parse_period "2015-W53" = Ok (Week, (2015, 12, 28), 1).
Proof. vm_compute. reflexivity. Qed.
Example ex_finer_unit :
  parse_simple "2014" = Ok (Year, (2014, 1, 1), 1) /\ unit_weight Month < unit_weight Year /\
  join_colon [unit_name Month; "2014"] = "month:2014" /\ parse_period "month:2014" = Err EPeriod.
Proof. repeat split; vm_compute; reflexivity. Qed.
(* the engine's own ordering: a week-unit prefix on a month date is accepted (scope of C05) *)
Example ex_week_of_month_accepted : parse_period "week:2014-01" = Ok (Week, (2014, 1, 1), 1).
Proof. vm_compute. reflexivity. Qed.
Example ex_noninteger_size : py_int "1.5" = None /\ py_int "" = None /\ py_int "1__0" = None /\
  py_int " +1_0 " = Some 10 /\ py_int "-3" = Some (-3).
Proof. repeat split; vm_compute; reflexivity. Qed.
Example ex_foreign_size : has_char "."%char "1.5" = true /\ int_char "."%char = false.
Proof. split; reflexivity. Qed.
Example ex_unknown_unit : (forall v, v <> Eternity -> "years" <> unit_name v) /\
  parse_period "years:2014" = Err EPeriod.
Proof. split; [intros []; intros; discriminate || congruence|vm_compute; reflexivity]. Qed.
Example ex_extra_fields : join_colon ["year"; "2014"; "3"; "4"] = "year:2014:3:4" /\
  parse_period "year:2014:3:4" = Err EPeriod.
Proof. split; vm_compute; reflexivity. Qed.
Example ex_empty_field : parse_period "year:2014:" = Err EPeriod /\ parse_period ":2014" = Err EPeriod.
Proof. split; vm_compute; reflexivity. Qed.
