(** C05 - Period and instant text forms round-trip and are canonical.  Only statements
    here; proofs are in proofs/PeriodStrProofs.v. *)
From Coq Require Import ZArith List Bool String.
From Verif Require Import Base Cal Tables Period PeriodStr PeriodStrProofs.
Open Scope Z_scope.

Theorem eternity_roundtrip :
  show_period eternity_period = Ok "ETERNITY"%string /\ parse_period "ETERNITY" = Ok eternity_period.
Proof. exact eternity_roundtrip_lemma. Qed.
Print Assumptions eternity_roundtrip.
