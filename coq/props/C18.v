(** C18 - A failed calculation leaves the simulation consistent and reusable.
    Only statements here; proofs are in proofs/EngineC18Proofs.v (and proofs/EngineProofs.v).

    Vocabulary (coq/model/Engine.v): [calc] is the machine (Simulation.calculate: push on
    the evaluation stack, _calculate, and in the "finally" pop and purge); a failure is an
    answer [Err kind]: a formula that raises ([ERaise k] while switch [k] is in
    [switches sy]), a dependency on a text that is not a period ([PBad]), on an unknown
    variable (an index outside [vars sy]), on a period of the wrong unit
    ([check_consistency]), a circular definition ([ECycle]).  [step]/[run] execute
    top-level requests; [RSwitch k false] turns the raise switch [k] off, [RSetInput] is
    Simulation.set_input.  [sem]/[sem_answer sy pp inp r] is the meaning of a request in
    rule system [sy] on population [pp] and inputs [inp]: no cache, no stack, no history.
    [ranked sy]: formulas only read variables of smaller number (or unknown ones) and
    eternal variables have no formula.  [Top sy pp inp s]: [s] is a state between two
    top-level requests - empty stack, nothing marked invalid - whose cache holds the
    inputs and otherwise only meanings ([Inv]).  [above v (stack s)]: the frames on the
    stack (the computations in progress) all belong to variables ranked above [v].

    FullTracer._current_node is not part of the machine state; the evaluation stack
    (tracer.stack) and the invalidated set are.  The cursor is checked on the
    implementation by harness/c18.py. *)
From Coq Require Import ZArith List Bool Arith String.
From Verif Require Import Base Cal Period Engine EngineProofs EngineC18Proofs.
Import ListNotations.
Open Scope nat_scope.
Local Notation length := List.length.

(** ** Every rule system, self-dependent (spiralling) ones included *)

(** After every [calculate], successful or not, at any depth, the evaluation stack is the
    stack before. *)
Theorem stack_restored : forall fuel sy pp s v p, stack (fst (calc fuel sy pp s v p)) = stack s.
Proof. exact calc_stack. Qed.
Print Assumptions stack_restored.

(** After every top-level request of any kind and whatever its answer: empty stack, and
    nothing left marked invalid (the purge of the "finally" ran). *)
Theorem request_leaves_stack_empty_and_purged : forall fuel sy pp s r,
  stack s = [] /\ invalid s = [] ->
  stack (fst (step fuel sy pp s r)) = [] /\ invalid (fst (step fuel sy pp s r)) = [].
Proof. exact step_quiet. Qed.
Print Assumptions request_leaves_stack_empty_and_purged.

Theorem requests_leave_stack_empty_and_purged : forall rs fuel sy pp s,
  stack s = [] /\ invalid s = [] ->
  stack (fst (run fuel sy pp s rs)) = [] /\ invalid (fst (run fuel sy pp s rs)) = [].
Proof. exact run_quiet. Qed.
Print Assumptions requests_leave_stack_empty_and_purged.

(** ** Ranked rule systems *)

(** A top-level request that fails: the stack is empty again, nothing is marked invalid,
    every cache entry is still an input or a meaning (so the sub-results completed before
    the failure are correct), nothing that was in the cache was lost or changed, and no
    entry was recorded for the requested variable or any variable ranked above it. *)
Theorem failure_atomic : forall sy pp inp, ranked sy = true -> 1 <= max_loops sy ->
  forall s v p e, Top sy pp inp s ->
  snd (calc (enough_fuel sy) sy pp s v p) = Err e ->
  let s' := fst (calc (enough_fuel sy) sy pp s v p) in
  stack s' = [] /\ invalid s' = []
  /\ Top sy pp inp s'
  /\ (forall k a, lookup k (cache s) = Some a -> lookup k (cache s') = Some a)
  /\ (forall k, v <= fst k -> lookup k (cache s') = lookup k (cache s)).
Proof. exact failure_atomic_top. Qed.
Print Assumptions failure_atomic.

(** The same for calculate_add and calculate_divide, failed or not. *)
Theorem failure_atomic_request : forall sy pp inp, ranked sy = true -> 1 <= max_loops sy ->
  forall s r, is_calc_request r = true -> Top sy pp inp s ->
  Top sy pp inp (fst (step (enough_fuel sy) sy pp s r))
  /\ (forall k a, lookup k (cache s) = Some a ->
                  lookup k (cache (fst (step (enough_fuel sy) sy pp s r))) = Some a).
Proof. exact step_top_grows. Qed.
Print Assumptions failure_atomic_request.

(** Every computation, at any depth of the evaluation (the frames below it on the stack
    belong to variables ranked above [v]): the cache only grows; entries of the variables
    ranked above [v] - the computations in progress - are untouched; and if the
    computation of [v] fails, no entry of [v] is recorded either.  Since an error
    propagates through every frame in progress, no frame that was on the stack when the
    error was raised gets a value. *)
Theorem no_entry_for_unfinished : forall sy pp inp, ranked sy = true -> 1 <= max_loops sy ->
  forall v fuel p s, v < fuel -> Inv sy pp inp s -> above v (stack s) ->
  let s' := fst (calc fuel sy pp s v p) in
  (forall k a, lookup k (cache s) = Some a -> lookup k (cache s') = Some a)
  /\ (forall k, S v <= fst k -> lookup k (cache s') = lookup k (cache s))
  /\ (forall e, snd (calc fuel sy pp s v p) = Err e ->
      forall k, v <= fst k -> lookup k (cache s') = lookup k (cache s)).
Proof. exact calc_frame. Qed.
Print Assumptions no_entry_for_unfinished.

(** Later requests behave as on a simulation where the failed request was never made:
    with or without request [r] in the sequence, every other request gets the same answer,
    the meaning of that request on the inputs. *)
Theorem failure_transparent : forall sy pp inp, ranked sy = true -> 1 <= max_loops sy ->
  forall rs1 r rs2 s,
  forallb is_calc_request (rs1 ++ r :: rs2) = true -> Top sy pp inp s ->
  snd (run (enough_fuel sy) sy pp s (rs1 ++ r :: rs2))
    = map (sem_answer sy pp inp) rs1 ++ sem_answer sy pp inp r :: map (sem_answer sy pp inp) rs2
  /\ snd (run (enough_fuel sy) sy pp s (rs1 ++ rs2))
    = map (sem_answer sy pp inp) rs1 ++ map (sem_answer sy pp inp) rs2.
Proof. exact removed_request_unseen. Qed.
Print Assumptions failure_transparent.

Theorem failure_transparent_state : forall sy pp inp, ranked sy = true -> 1 <= max_loops sy ->
  forall s r rs,
  is_calc_request r = true -> forallb is_calc_request rs = true -> Top sy pp inp s ->
  snd (run (enough_fuel sy) sy pp (fst (step (enough_fuel sy) sy pp s r)) rs)
    = snd (run (enough_fuel sy) sy pp s rs)
  /\ snd (run (enough_fuel sy) sy pp s rs) = map (sem_answer sy pp inp) rs.
Proof. exact failed_request_transparent. Qed.
Print Assumptions failure_transparent_state.

(** Cause removed by turning the raise off: requests [rs1] (some fail because switch [k]
    is on), then the switch is turned off, then requests [rs2] (the failed ones again, for
    instance): these return their meaning in the rule system without the switch - under
    the cache filled while the switch was on. *)
Theorem succeeds_once_cause_removed : forall sy pp inp, ranked sy = true -> 1 <= max_loops sy ->
  forall k rs1 rs2 s,
  forallb is_calc_request rs1 = true -> forallb is_calc_request rs2 = true -> Top sy pp inp s ->
  snd (run (enough_fuel sy) sy pp s (rs1 ++ RSwitch k false :: rs2))
    = map (sem_answer sy pp inp) rs1 ++ ANone :: map (sem_answer (set_switch sy k false) pp inp) rs2
  /\ Top (set_switch sy k false) pp inp (fst (run (enough_fuel sy) sy pp s (rs1 ++ RSwitch k false :: rs2))).
Proof. exact switch_off_then_meaning. Qed.
Print Assumptions succeeds_once_cause_removed.

(** What was cached while a switch was on is still right once it is off. *)
Theorem cache_survives_switch_off : forall sy pp inp k s,
  Top sy pp inp s -> Top (set_switch sy k false) pp inp s.
Proof. exact Top_switch_off. Qed.
Print Assumptions cache_survives_switch_off.

(** Cause removed by set_input on the failing node [(v, p)] (its meaning is an error):
    when the input is accepted, every later request returns its meaning on the inputs
    extended with the given array - under the cache filled before. *)
Theorem succeeds_once_input_given : forall sy pp inp, ranked sy = true -> 1 <= max_loops sy ->
  forall v x p a e s rs,
  nth_error (vars sy) v = Some x -> v_neutral x = false ->
  sem sy pp inp v p = Err e ->
  Top sy pp inp s ->
  set_input sy pp s v p a = (put (v, norm x p) (cast x a) s, ANone) ->
  forallb is_calc_request rs = true ->
  snd (run (enough_fuel sy) sy pp s (RSetInput v p a :: rs))
    = ANone :: map (sem_answer sy pp (((v, norm x p), cast x a) :: inp)) rs
  /\ Top sy pp (((v, norm x p), cast x a) :: inp)
         (fst (run (enough_fuel sy) sy pp s (RSetInput v p a :: rs))).
Proof. exact input_given_then_meaning. Qed.
Print Assumptions succeeds_once_input_given.

(** Where the [Top] states of these theorems come from: a new simulation ([Top_init], C01),
    and any state between two requests - for instance after the set_input requests every
    correspondence case starts with - when its cache is read as the inputs. *)
Theorem quiet_state_is_top_for_its_cache : forall sy pp s,
  stack s = [] -> invalid s = [] -> Top sy pp (cache s) s.
Proof. exact quiet_state_is_top. Qed.
Print Assumptions quiet_state_is_top_for_its_cache.

(** ** Non-vacuity *)

Definition ex_pop : popu :=
  {| grp := {| Group.g_entity := {| Group.e_key := "household"%string; Group.e_roles := []; Group.e_containing := [] |};
               Group.g_count := 2; Group.g_ids := [0; 1; 0]; Group.g_roles := [0; 0; 0] |} |}.

(** v0 input; v1 = v0 + 1; v2 = v1 + (raise 0); v3 = v2 + v(unknown) ; switch 0 is on *)
Definition ex_sys : sys :=
  {| vars := [ mk_var EPerson TInt Month None [] 0%Z false false;
               mk_var EPerson TInt Month None [((1, 1, 1)%Z, EBin BAdd (EDep 0 PSame OPlain) (EConst 1))] 0%Z false false;
               mk_var EPerson TInt Month None [((1, 1, 1)%Z, EBin BAdd (EDep 1 PSame OPlain) (ERaise 0))] 0%Z false false;
               mk_var EPerson TInt Month None [((1, 1, 1)%Z, EBin BAdd (EDep 2 PSame OPlain) (EDep 9 PSame OPlain))] 0%Z false false ];
     params := []; switches := [0]; max_loops := 1 |}.
Definition ex_p : period := (Month, (2018, 3, 1)%Z, 1%Z).
Definition ex_inp : inputs := [((0, ex_p), [10; 20; 30]%Z)].

Example ex_ranked : ranked ex_sys = true /\ 1 <= max_loops ex_sys.
Proof. split; [reflexivity|apply le_n]. Qed.

(** the request fails in the formula of v2, after v1 was completed: v1 is recorded with its
    meaning, v2 is not, the stack is empty *)
Example ex_fails :
  calc (enough_fuel ex_sys) ex_sys ex_pop (init ex_inp) 2 ex_p
  = ({| cache := [((1, ex_p), [11; 21; 31]%Z); ((0, ex_p), [10; 20; 30]%Z)]; stack := []; invalid := [] |},
     Err EOther).
Proof. vm_compute. reflexivity. Qed.

(** fail, switch off, same request: the value; then the unknown-variable failure of v3, then v1 *)
Example ex_recovers :
  snd (run (enough_fuel ex_sys) ex_sys ex_pop (init ex_inp)
         [RCalc 2 ex_p; RSwitch 0 false; RCalc 2 ex_p; RCalc 3 ex_p; RCalc 1 ex_p])
  = [AErr EOther; ANone; AVal [11; 21; 31]%Z; AErr ENotFound; AVal [11; 21; 31]%Z].
Proof. vm_compute. reflexivity. Qed.

(** the failing node v2 is given as an input: v2 then answers the input *)
Example ex_input_given :
  sem ex_sys ex_pop ex_inp 2 ex_p = Err EOther
  /\ set_input ex_sys ex_pop (init ex_inp) 2 ex_p [7; 8; 9]%Z
     = (put (2, ex_p) [7; 8; 9]%Z (init ex_inp), ANone)
  /\ snd (run (enough_fuel ex_sys) ex_sys ex_pop (init ex_inp)
            [RCalc 2 ex_p; RSetInput 2 ex_p [7; 8; 9]%Z; RCalc 2 ex_p])
     = [AErr EOther; ANone; AVal [7; 8; 9]%Z].
Proof. vm_compute. auto. Qed.

(** a self-dependent system (v0 reads itself one month earlier: spiral; v1 = v0 + raise):
    the request fails after a spiral tainted the cache; stack empty, nothing left invalid,
    and the tainted entry of v0 was purged *)
Definition ex_spiral : sys :=
  {| vars := [ mk_var EPerson TInt Month None [((1, 1, 1)%Z, EBin BAdd (EDep 0 PLastMonth OPlain) (EConst 1))] 0%Z false false;
               mk_var EPerson TInt Month None [((1, 1, 1)%Z, EBin BAdd (EDep 0 PSame OPlain) (ERaise 0))] 0%Z false false ];
     params := []; switches := [0]; max_loops := 1 |}.
Example ex_spiral_fails :
  ranked ex_spiral = false
  /\ calc (enough_fuel ex_spiral) ex_spiral ex_pop (init []) 1 ex_p = (init [], Err EOther).
Proof. vm_compute. auto. Qed.

(** ** The rule system changes under the live simulation (Corr_C18.CSeq: the machine state
       is carried from one rule system to the next)

    Proofs in proofs/EngineC18Change.v.  [same_fields x x']: [x'] has the entity, type,
    definition period, default and neutralisation of [x] (its formulas and end date are
    free).  [replace_var sy v x']: variable number [v] becomes [x']
    (TaxBenefitSystem.replace_variable / update_variable).  [add_var sy x]: [x] becomes the
    new last variable, number [length (vars sy)] (TaxBenefitSystem.add_variable). *)
From Verif Require Import EngineC18Change.

(** The general fact.  [sy'] keeps every variable of [sy] with the same attributes, and at
    every (variable, period) either runs the same formula or the variable had no value under
    [sy] (its computation failed); nothing is cached for a variable [sy] did not know.  Then a
    state between two requests under [sy] is one under [sy']: every cached entry is a meaning
    of [sy'] - a computation that succeeded cannot have read one that failed. *)
Theorem cache_survives_change_of_failing_formulas : forall sy sy' pp inp,
  ranked sy = true -> 1 <= max_loops sy ->
  params sy' = params sy ->
  (forall k, existsb (Nat.eqb k) (switches sy') = true -> existsb (Nat.eqb k) (switches sy) = true) ->
  (forall w x, nth_error (vars sy) w = Some x ->
     exists x', nth_error (vars sy') w = Some x' /\ same_fields x x'
                /\ forall p, formula_at x' p = formula_at x p \/ (forall a, sem sy pp inp w p <> Ok a)) ->
  forall s,
  (forall w x', nth_error (vars sy') w = Some x' -> nth_error (vars sy) w = None ->
                forall q, lookup (w, q) (cache s) = None) ->
  Top sy pp inp s -> Top sy' pp inp s.
Proof. exact Top_change. Qed.
Print Assumptions cache_survives_change_of_failing_formulas.

(** Cause removed by correcting the class of variable [v]: at every period at which the
    corrected variable does not run the formula it ran before, [v] had no value (the exact
    condition; in particular nothing is cached for [v] there, nor for any reader of it, by
    [no_entry_for_unfinished]).  The state is a [Top] state of the corrected system and
    every request made afterwards - the failed one again - returns its meaning there. *)
Theorem succeeds_once_variable_replaced : forall sy pp inp, ranked sy = true -> 1 <= max_loops sy ->
  forall v x x' s,
  nth_error (vars sy) v = Some x -> same_fields x x' ->
  ranked (replace_var sy v x') = true ->
  (forall p, formula_at x' p = formula_at x p \/ (forall a, sem sy pp inp v p <> Ok a)) ->
  Top sy pp inp s ->
  Top (replace_var sy v x') pp inp s
  /\ forall rs, forallb is_calc_request rs = true ->
     snd (run (enough_fuel (replace_var sy v x')) (replace_var sy v x') pp s rs)
       = map (sem_answer (replace_var sy v x') pp inp) rs.
Proof. exact variable_replaced. Qed.
Print Assumptions succeeds_once_variable_replaced.

(** Cause removed by adding the variable that was unknown.  Full statement: *)
Definition succeeds_once_variable_added_statement : Prop :=
  forall sy pp inp, ranked sy = true -> 1 <= max_loops sy ->
  forall x s,
  v_formulas x = [] ->        (* or: formulas reading only variables that do not read the new one *)
  (forall q, lookup (length (vars sy), q) (cache s) = None) ->
  Top sy pp inp s ->
  Top (add_var sy x) pp inp s
  /\ forall rs, forallb is_calc_request rs = true ->
     snd (run (enough_fuel (add_var sy x)) (add_var sy x) pp s rs) = map (sem_answer (add_var sy x) pp inp) rs.

(** Proved: the state is a [Top] state of the extended system - every cached entry is a
    meaning there: the variables that referenced the unknown index failed and stored
    nothing - and the answers are the meanings WHEN THE EXTENDED SYSTEM IS RANKED.
    Missing: [EngineProofs.ranked] orders variables by their number and the added variable
    takes the last number although the formula that asked for it has a smaller one, so the
    extended system of the scenario is ranked by another order than the index order;
    [calc_refines] would have to be re-proved for an arbitrary rank function (EngineProofs.v
    is not mine to edit).  The answers after the addition are covered by the correspondence
    (harness/c18.py, "addvar" segments) and by the example below. *)
Theorem succeeds_once_variable_added_partial : forall sy pp inp, ranked sy = true -> 1 <= max_loops sy ->
  forall x s,
  (forall q, lookup (length (vars sy), q) (cache s) = None) ->
  Top sy pp inp s ->
  Top (add_var sy x) pp inp s
  /\ (ranked (add_var sy x) = true ->
      forall rs, forallb is_calc_request rs = true ->
      snd (run (enough_fuel (add_var sy x)) (add_var sy x) pp s rs) = map (sem_answer (add_var sy x) pp inp) rs).
Proof. exact variable_added. Qed.
Print Assumptions succeeds_once_variable_added_partial.

(** No request ever records anything for a variable the system does not know (the cache
    hypothesis of the two theorems above is kept by every request). *)
Theorem unknown_variable_is_never_cached : forall sy pp inp, ranked sy = true -> 1 <= max_loops sy ->
  forall s r w q, Top sy pp inp s -> is_calc_request r = true ->
  nth_error (vars sy) w = None -> lookup (w, q) (cache s) = None ->
  lookup (w, q) (cache (fst (step (enough_fuel sy) sy pp s r))) = None.
Proof. exact unknown_variable_never_cached. Qed.
Print Assumptions unknown_variable_is_never_cached.

(** Non-vacuity.  v0 input; v1 = v0 + 1; v2 = v1 + v0(not-a-period): fails at every period.
    The request fails (v1 is recorded, v2 is not); the class of v2 is corrected
    (v2 = v1 + v0); the same request on the same state returns the value. *)
Definition ex_bad : sys :=
  {| vars := [ mk_var EPerson TInt Month None [] 0%Z false false;
               mk_var EPerson TInt Month None [((1, 1, 1)%Z, EBin BAdd (EDep 0 PSame OPlain) (EConst 1))] 0%Z false false;
               mk_var EPerson TInt Month None [((1, 1, 1)%Z, EBin BAdd (EDep 1 PSame OPlain) (EDep 0 PBad OPlain))] 0%Z false false ];
     params := []; switches := []; max_loops := 1 |}.
Definition ex_v2_fixed : var :=
  mk_var EPerson TInt Month None [((1, 1, 1)%Z, EBin BAdd (EDep 1 PSame OPlain) (EDep 0 PSame OPlain))] 0%Z false false.
Example ex_replaced :
  let s1 := fst (run (enough_fuel ex_bad) ex_bad ex_pop (init ex_inp) [RCalc 2 ex_p]) in
  ranked ex_bad = true /\ ranked (replace_var ex_bad 2 ex_v2_fixed) = true
  /\ snd (run (enough_fuel ex_bad) ex_bad ex_pop (init ex_inp) [RCalc 2 ex_p]) = [AErr EPeriod]
  /\ cache s1 = [((1, ex_p), [11; 21; 31]%Z); ((0, ex_p), [10; 20; 30]%Z)]
  /\ snd (run (enough_fuel ex_bad) (replace_var ex_bad 2 ex_v2_fixed) ex_pop s1 [RCalc 2 ex_p])
     = [AVal [21; 41; 61]%Z].
Proof. vm_compute. auto 6. Qed.

(** v0 input; v1 = v0 + v2 where v2 is unknown: fails; v2 is added (an input variable),
    given a value, and the same request on the same state returns the value. *)
Definition ex_unknown : sys :=
  {| vars := [ mk_var EPerson TInt Month None [] 0%Z false false;
               mk_var EPerson TInt Month None [((1, 1, 1)%Z, EBin BAdd (EDep 0 PSame OPlain) (EDep 2 PSame OPlain))] 0%Z false false ];
     params := []; switches := []; max_loops := 1 |}.
Definition ex_new_var : var := mk_var EPerson TInt Month None [] 5%Z false false.
Example ex_added :
  let s1 := fst (run (enough_fuel ex_unknown) ex_unknown ex_pop (init ex_inp) [RCalc 1 ex_p]) in
  let sy' := add_var ex_unknown ex_new_var in
  ranked ex_unknown = true
  /\ snd (run (enough_fuel ex_unknown) ex_unknown ex_pop (init ex_inp) [RCalc 1 ex_p]) = [AErr ENotFound]
  /\ snd (run (enough_fuel sy') sy' ex_pop s1 [RCalc 1 ex_p; RSetInput 2 (Month, (2018, 4, 1)%Z, 1%Z) [1; 2; 3]%Z;
                                               RCalc 1 (Month, (2018, 4, 1)%Z, 1%Z)])
     = [AVal [15; 25; 35]%Z; ANone; AVal [1; 2; 3]%Z].
Proof. vm_compute. auto. Qed.

(** ** Tie to the regenerated order of the evaluator's steps and to the regenerated routing
       of an input

    coq/gen/GuardsPlan.v is re-emitted on every run from the Python text of
    Simulation.calculate, _calculate, _check_for_cycle and purge_cache_of_invalid_values
    (harness/gen_tables.py, fail-closed): every statement is replaced by its tag
    (coq/model/GuardsTypes.v), if / for / try keep their nesting.  coq/model/EnginePlan.v
    holds the plans that [Engine.calc], [calc_body] and [purge] implement, with the line of
    the model that carries each step: the pop and the purge are in the finally clause, in that
    order; the consistency check comes before the cache lookup; the cycle test comes before
    the formula; only the spiral error is caught.  coq/gen/GuardsInput.v is the routing of
    Simulation.set_input / Holder.set_input / Holder._set, and
    coq/model/GuardsInputEngineSem.v re-assembles [Engine.set_input] from it. *)
From Verif Require Import GuardsTypes GuardsPlan EnginePlan GuardsPlanProofs.
From Verif Require Import GuardsInput GuardsInputEngineSem GuardsInputEngineProofs.

Theorem source_plans_are_model_plans :
  gen_calculate_plan = calculate_plan
  /\ gen__calculate_plan = _calculate_plan
  /\ gen_check_for_cycle_plan = check_for_cycle_plan
  /\ gen_purge_plan = purge_plan.
Proof.
  exact (conj gen_calculate_plan_is_model (conj gen__calculate_plan_is_model
        (conj gen_check_for_cycle_plan_is_model gen_purge_plan_is_model))).
Qed.
Print Assumptions source_plans_are_model_plans.

Theorem source_set_input_is_model_set_input : forall sy pp s v p a,
  set_input sy pp s v p a = src_engine_set_input sy pp s v p a.
Proof. exact engine_set_input_is_source. Qed.
Print Assumptions source_set_input_is_model_set_input.
