(** C18 - a failed calculation leaves the simulation consistent and reusable (statements). *)
From Coq Require Import ZArith List Bool Arith String.
From Verif Require Import Base Cal Period Engine EngineProofs.
Import ListNotations.
Open Scope nat_scope.

Theorem failure_transparent_tmp : forall sy pp inp, ranked sy = true -> 1 <= max_loops sy ->
  forall rs s, forallb is_calc_request rs = true -> Top sy pp inp s ->
  snd (run (enough_fuel sy) sy pp s rs) = map (sem_answer sy pp inp) rs
  /\ Top sy pp inp (fst (run (enough_fuel sy) sy pp s rs)).
Proof. exact run_refines_meaning. Qed.
Print Assumptions failure_transparent_tmp.
