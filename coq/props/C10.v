(** C10 - Group aggregations and projections equal their per-group definitions.
    Only statements here; proofs are in proofs/GroupProofs.v. *)
From Coq Require Import String ZArith List Bool Arith.
From Verif Require Import Base Np Group GroupProofs.
Import ListNotations.
Open Scope nat_scope.

Theorem chain_bubbles_up : forall sim c1 c2 x,
  transform_and_bubble_up sim (c1 ++ c2) x =
  bind (transform_and_bubble_up sim c1 x) (transform_and_bubble_up sim c2).
Proof. exact bubble_app. Qed.
Print Assumptions chain_bubbles_up.
