(** C10 - Group aggregations and projections equal their per-group definitions.
    Only statements here; proofs are in proofs/GroupProofs.v (numpy list lemmas in
    proofs/NpProofs.v).  The model functions ([Group.sum], [Group.nb_persons], ...) are the
    ones the correspondence check runs (corr/Corr_C10.v); the vocabulary of the
    right-hand sides ([wf_pop], [members], [members_with_role], [in_role], [zsum], ...) is
    in model/GroupSpec.v.

    Every group-level result is given as the WHOLE list
        map (fun g => <per-group definition on exactly the members of g>) (seq 0 count)
    i.e. one element per group g = 0 .. count-1 of the simulation -- groups without any
    member (leading, middle, trailing) included -- for every population size, membership
    map [g_ids] (any storage order), role map and value array. *)
From Coq Require Import String ZArith List Bool Arith.
From Verif Require Import Base Np Group GroupSpec GroupProofs.
Import ListNotations.
Open Scope nat_scope.

(** sum(array, role): for each group, the sum over exactly its members [holding the role]. *)
Theorem sum_spec : forall p array role,
  wf_pop p -> length array = npersons p ->
  sum p array role =
  Ok (map (fun g => zsum (map (fun i => nth i array 0%Z) (members_with_role p role g)))
          (seq 0 (g_count p))).
Proof. exact sum_ok. Qed.
Print Assumptions sum_spec.

(** nb_persons(role): the number of members [holding the role]. *)
Theorem nb_persons_spec : forall p role,
  wf_pop p ->
  nb_persons p role =
  Ok (map (fun g => Z.of_nat (length (members_with_role p role g))) (seq 0 (g_count p))).
Proof. exact nb_persons_ok. Qed.
Print Assumptions nb_persons_spec.

(** project(array, role): person i receives the value of the group it belongs to
    (0 when a role is given and the person does not hold it). *)
Theorem project_spec : forall p array role,
  wf_pop p -> length array = g_count p ->
  project p array role =
  Ok (map (fun i => if in_role p role i then nth (group_of p i) array 0%Z else 0%Z)
          (seq 0 (npersons p))).
Proof. exact project_ok. Qed.
Print Assumptions project_spec.

Theorem chain_bubbles_up : forall sim c1 c2 x,
  transform_and_bubble_up sim (c1 ++ c2) x =
  bind (transform_and_bubble_up sim c1 x) (transform_and_bubble_up sim c2).
Proof. exact bubble_app. Qed.
Print Assumptions chain_bubbles_up.
