(** C10 - Group aggregations and projections equal their per-group definitions.
    Only statements here; proofs are in proofs/GroupProofs.v, proofs/GroupRankProofs.v
    (numpy list lemmas in proofs/NpProofs.v).  The model functions ([Group.sum],
    [Group.nb_persons], [Group.reduce_with], ...) are the ones the correspondence check
    runs (corr/Corr_C10.v); the vocabulary of the right-hand sides ([wf_pop], [members],
    [members_with_role], [in_role], [zsum], [earlier_in_group], [role_unique_in],
    [ext_min_list], ...) is in model/GroupSpec.v and mentions no bincount / argsort /
    position counter.

    Every group-level result is given as the WHOLE list
        map (fun g => <per-group definition on exactly the members of g>) (seq 0 count)
    i.e. one element per group g = 0 .. count-1 of the simulation -- groups without any
    member (leading, middle, trailing) included -- for every population size, membership
    map [g_ids] (any storage order), role map and value array.

    Functions that read ordered_members_map (a numpy.argsort, which is not stable) are
    specified for EVERY permutation [mm] that sorts the group indices
    ([sorting_perm_nat (g_ids p) mm]); [executed_instances] shows that the functions the
    correspondence evaluates are the instances at the stable insertion sort, and the
    harness checks that the implementation's own map is such a permutation.

    min / max / all / value_nth_person / get_rank / members_position need at least one
    person: on a population without persons the code raises ValueError (numpy.max of an
    empty array), see [no_person_raises]. *)
From Coq Require Import String ZArith List Bool Arith Lia Sorting.Permutation Sorting.Sorted.
From Verif Require Import Base Np Group GroupSpec GroupProofs GroupRankProofs.
Import ListNotations.
Open Scope nat_scope.

(** sum(array, role): for each group, the sum over exactly its members [holding the role]. *)
Theorem sum_spec : forall p array role,
  wf_pop p -> length array = npersons p ->
  sum p array role =
  Ok (map (fun g => zsum (map (fun i => nth i array 0%Z) (members_with_role p role g)))
          (seq 0 (g_count p))).
Proof. exact sum_ok. Qed.
Print Assumptions sum_spec.

(** nb_persons(role): the number of members [holding the role]. *)
Theorem nb_persons_spec : forall p role,
  wf_pop p ->
  nb_persons p role =
  Ok (map (fun g => Z.of_nat (length (members_with_role p role g))) (seq 0 (g_count p))).
Proof. exact nb_persons_ok. Qed.
Print Assumptions nb_persons_spec.

(** any(array, role) on a boolean (more generally non-negative) array: some member
    [holding the role] has a true value; false for a group without such a member. *)
Theorem any_spec : forall p array role,
  wf_pop p -> length array = npersons p -> Forall (fun v => (0 <= v)%Z) array ->
  any p array role =
  Ok (map (fun g => existsb (fun i => (0 <? nth i array 0)%Z) (members_with_role p role g))
          (seq 0 (g_count p))).
Proof. exact any_ok. Qed.
Print Assumptions any_spec.

(** all(array, role): every member [holding the role] has a non-zero value; true for a
    group without such a member. *)
Theorem all_spec : forall mm p array role,
  wf_pop p -> sorting_perm_nat (g_ids p) mm -> length array = npersons p -> 0 < npersons p ->
  all_with mm p array role =
  Ok (map (fun g => forallb (fun i => truthy (nth i array 0%Z)) (members_with_role p role g))
          (seq 0 (g_count p))).
Proof. exact all_ok. Qed.
Print Assumptions all_spec.

(** max / min (array, role): the fold of maximum / minimum over exactly the values of the
    members [holding the role], from the neutral element -inf / +inf ... *)
Theorem max_spec : forall mm p array role,
  wf_pop p -> sorting_perm_nat (g_ids p) mm -> length array = npersons p -> 0 < npersons p ->
  max_with mm p array role =
  Ok (map (fun g => ext_max_list (map (fun i => nth i array 0%Z) (members_with_role p role g)))
          (seq 0 (g_count p))).
Proof. exact max_ok. Qed.
Print Assumptions max_spec.

Theorem min_spec : forall mm p array role,
  wf_pop p -> sorting_perm_nat (g_ids p) mm -> length array = npersons p -> 0 < npersons p ->
  min_with mm p array role =
  Ok (map (fun g => ext_min_list (map (fun i => nth i array 0%Z) (members_with_role p role g)))
          (seq 0 (g_count p))).
Proof. exact min_ok. Qed.
Print Assumptions min_spec.

(** ... and that fold is, independently of the order of the members, the greatest lower
    (least upper) bound, attained by a member; the neutral element for no member. *)
Theorem ext_min_list_is_glb : forall l,
  match l with
  | [] => ext_min_list l = PInf
  | _ => exists m, ext_min_list l = Fin m /\ In m l /\ forall w, In w l -> (m <= w)%Z
  end.
Proof. exact ext_min_list_glb. Qed.
Print Assumptions ext_min_list_is_glb.

Theorem ext_max_list_is_lub : forall l,
  match l with
  | [] => ext_max_list l = NInf
  | _ => exists m, ext_max_list l = Fin m /\ In m l /\ forall w, In w l -> (w <= m)%Z
  end.
Proof. exact ext_max_list_lub. Qed.
Print Assumptions ext_max_list_is_lub.

(** The general reducer (GroupPopulation.reduce), for any reducer with a right-neutral
    element: the left fold over exactly the members [holding the role], in storage order. *)
Theorem reduce_spec : forall (A : Type) mm p (array : list A) (f : A -> A -> A) neutral role,
  wf_pop p -> sorting_perm_nat (g_ids p) mm -> length array = npersons p -> 0 < npersons p ->
  (forall x, f x neutral = x) ->
  reduce_with mm p array f neutral role =
  Ok (map (fun g => fold_left (fun acc i => f acc (nth i array neutral))
                              (members_with_role p role g) neutral)
          (seq 0 (g_count p))).
Proof. exact @reduce_ok. Qed.
Print Assumptions reduce_spec.

(** members_position: the position of person i is the number of persons stored before i
    that belong to the same group (whatever the group indices are). *)
Theorem positions_spec : forall p,
  0 < npersons p ->
  members_position p = Ok (map (earlier_in_group p) (seq 0 (npersons p))).
Proof. exact members_position_ok. Qed.
Print Assumptions positions_spec.

(** value_nth_person(n, array, default): the value of the n-th member of the group in
    storage order, the default for a group with at most n members. *)
Theorem value_nth_person_spec : forall (A : Type) mm p n (array : list A) d,
  wf_pop p -> sorting_perm_nat (g_ids p) mm -> length array = npersons p -> 0 < npersons p ->
  value_nth_person_with mm p (Z.of_nat n) array d =
  Ok (map (fun g => match nth_error (members p g) n with
                    | Some i => nth i array d
                    | None => d
                    end) (seq 0 (g_count p))).
Proof. exact @value_nth_person_ok. Qed.
Print Assumptions value_nth_person_spec.

(** value_from_person(array, role, default) for a role declared unique (max = 1) and held
    by at most one member of every group: the value of that member, the default for a
    group where nobody holds the role. *)
Theorem value_from_person_spec : forall (A : Type) mm p (array : list A) r d,
  wf_pop p -> sorting_perm_nat (g_ids p) mm -> length array = npersons p ->
  role_max (g_entity p) r = Some 1 -> role_unique_in p r ->
  value_from_person_with mm p array r d =
  Ok (map (fun g => match members_with_role p (Some r) g with
                    | [i] => nth i array d
                    | _ => d
                    end) (seq 0 (g_count p))).
Proof. exact @value_from_person_ok. Qed.
Print Assumptions value_from_person_spec.

(** project(array, role): person i receives the value of the group it belongs to
    (0 when a role is given and the person does not hold it). *)
Theorem project_spec : forall p array role,
  wf_pop p -> length array = g_count p ->
  project p array role =
  Ok (map (fun i => if in_role p role i then nth (group_of p i) array 0%Z else 0%Z)
          (seq 0 (npersons p))).
Proof. exact project_ok. Qed.
Print Assumptions project_spec.

(** get_rank(entity, criteria, condition), for every result the two numpy.argsort calls
    may return ([sort1] on rows with ties, [sort2]) and every members map: persons not
    satisfying the condition get -1; inside every group, the ranks of the members
    satisfying the condition are a permutation of 0..k-1 and a strictly smaller criterion
    gets a strictly smaller rank (ties unspecified). *)
Theorem rank_permutation : forall sort1 sort2,
  (forall row, sorting_perm_ext row (sort1 row)) ->
  (forall l, sorting_perm_nat l (sort2 l)) ->
  forall p mm (crit : list Z) (cond : list bool),
  wf_pop p -> sorting_perm_nat (g_ids p) mm ->
  length crit = npersons p -> length cond = npersons p -> 0 < npersons p ->
  exists rk,
    get_rank_with sort1 sort2 mm p crit cond = Ok rk /\
    length rk = npersons p /\
    (forall i, i < npersons p -> nth i cond false = false -> nth i rk 0%Z = (-1)%Z) /\
    forall g, g < g_count p ->
      let M := filter (fun i => nth i cond false) (members p g) in
      Permutation (map (fun i => nth i rk 0%Z) M) (map Z.of_nat (seq 0 (length M))) /\
      forall i j, In i M -> In j M -> (nth i crit 0 < nth j crit 0)%Z ->
                  (nth i rk 0 < nth j rk 0)%Z.
Proof. exact get_rank_ok. Qed.
Print Assumptions rank_permutation.

(** Chained projectors: population.path1.path2 resolves to the concatenation of the two
    chains, and applying it is applying path2's chain, then path1's chain to the result. *)
Theorem chain_is_composition : forall sim start path1 path2 c1 mid c2 last,
  resolve sim start path1 [] = Ok (c1, mid) ->
  resolve sim mid path2 [] = Ok (c2, last) ->
  resolve sim start (path1 ++ path2) [] = Ok (c2 ++ c1, last) /\
  forall x, transform_and_bubble_up sim (c2 ++ c1) x =
            bind (transform_and_bubble_up sim c2 x) (transform_and_bubble_up sim c1).
Proof. exact chain_composition. Qed.
Print Assumptions chain_is_composition.

Theorem chain_bubbles_up : forall sim c1 c2 x,
  transform_and_bubble_up sim (c1 ++ c2) x =
  bind (transform_and_bubble_up sim c1 x) (transform_and_bubble_up sim c2).
Proof. exact bubble_app. Qed.
Print Assumptions chain_bubbles_up.

(** Every group-level result that is returned has exactly one element per group of the
    simulation (also for n < 0, non-unique roles, ... whenever a value is returned). *)
Theorem length_is_group_count : forall p mm array role,
  wf_pop p -> sorting_perm_nat (g_ids p) mm -> length array = npersons p ->
  (forall out, sum p array role = Ok out -> length out = g_count p) /\
  (forall out, any p array role = Ok out -> length out = g_count p) /\
  (forall out, nb_persons p role = Ok out -> length out = g_count p) /\
  (forall out, all_with mm p array role = Ok out -> length out = g_count p) /\
  (forall out, max_with mm p array role = Ok out -> length out = g_count p) /\
  (forall out, min_with mm p array role = Ok out -> length out = g_count p) /\
  (forall n d out, value_nth_person_with mm p n array d = Ok out -> length out = g_count p) /\
  (forall out, value_from_first_person_with mm p array = Ok out -> length out = g_count p) /\
  (forall r d out, value_from_person_with mm p array r d = Ok out -> length out = g_count p).
Proof. exact lengths_ok. Qed.
Print Assumptions length_is_group_count.

(** The functions evaluated by the correspondence are the instances of the [_with]
    functions at the stable sorts, which satisfy the hypotheses above. *)
Theorem executed_instances : forall p,
  sorting_perm_nat (g_ids p) (ordered_members_map p) /\
  (forall row, sorting_perm_ext row (argsort_ext row)) /\
  (forall l, sorting_perm_nat l (argsort_nat l)) /\
  all p = all_with (ordered_members_map p) p /\
  max p = max_with (ordered_members_map p) p /\
  min p = min_with (ordered_members_map p) p /\
  (forall A, @value_nth_person A p = value_nth_person_with (ordered_members_map p) p) /\
  value_from_first_person p = value_from_first_person_with (ordered_members_map p) p /\
  (forall A, @value_from_person A p = value_from_person_with (ordered_members_map p) p) /\
  get_rank p = get_rank_with argsort_ext argsort_nat (ordered_members_map p) p.
Proof. exact executed_instances_ok. Qed.
Print Assumptions executed_instances.

(** Without any person the position-based primitives raise (numpy.max of an empty array). *)
Theorem no_person_raises : forall p,
  npersons p = 0 -> members_position p = Err EValue.
Proof. exact empty_positions_err. Qed.
Print Assumptions no_person_raises.

(** ** Non-vacuity: a population satisfying all the hypotheses at once.
    6 persons, 5 groups of which group 2 (middle) and group 4 (trailing) have no member,
    memberships interleaved; roles: 0 = parent with sub-roles 1 (first_parent, max 1) and
    2 (second_parent, max 1), 3 = child. *)
Definition ex_entity : gentity :=
  Build_gentity "household"
    [ Build_role_info "parent" (Some 2) [1; 2] true;
      Build_role_info "first_parent" (Some 1) [] false;
      Build_role_info "second_parent" (Some 1) [] false;
      Build_role_info "child" None [] true ] [].
Definition ex_p : gpop := Build_gpop ex_entity 5 [1; 0; 1; 3; 0; 1] [1; 1; 3; 3; 3; 2].
Definition ex_vals : list Z := [10; 20; -30; 40; 50; 60]%Z.
(** a sorting permutation that is NOT the stable one ([1;4;0;2;5;3]) *)
Definition ex_mm : list nat := [4; 1; 5; 0; 2; 3].

Example ex_wf : wf_pop ex_p.
Proof. split; [|reflexivity]. repeat (constructor; [cbn; lia|]). constructor. Qed.

Example ex_mm_sorts : sorting_perm_nat (g_ids ex_p) ex_mm /\ ex_mm <> ordered_members_map ex_p.
Proof.
  split; [split|discriminate].
  - apply NoDup_Permutation.
    + repeat (constructor; [cbn; intuition discriminate|]). constructor.
    + apply seq_NoDup.
    + intros x. cbn. intuition.
  - repeat (constructor; [|repeat (constructor; [cbn; lia|]); constructor]). constructor.
Qed.

Example ex_unique : role_max (g_entity ex_p) 1 = Some 1 /\ role_unique_in ex_p 1.
Proof.
  split; [reflexivity|]. intros g Hg.
  do 5 (destruct g as [|g]; [vm_compute; lia|]). cbn in Hg. lia.
Qed.

Example ex_sum :
  sum ex_p ex_vals None = Ok [70; 40; 0; 40; 0]%Z /\
  sum ex_p ex_vals (Some 0) = Ok [20; 70; 0; 0; 0]%Z /\
  nb_persons ex_p (Some 3) = Ok [1; 1; 0; 1; 0]%Z /\
  any ex_p [1; 0; 0; 0; 0; 0]%Z None = Ok [false; true; false; false; false] /\
  project ex_p [7; 8; 9; 10; 11]%Z (Some 3) = Ok [0; 0; 8; 10; 7; 0]%Z.
Proof. repeat split. Qed.

Example ex_reduce :
  min_with ex_mm ex_p ex_vals None = Ok [Fin 20; Fin (-30); PInf; Fin 40; PInf] /\
  max_with ex_mm ex_p ex_vals (Some 0) = Ok [Fin 20; Fin 60; NInf; NInf; NInf] /\
  all_with ex_mm ex_p [1; 1; 0; 1; 1; 1]%Z None = Ok [true; false; true; true; true] /\
  members_position ex_p = Ok [0; 0; 1; 0; 1; 2].
Proof. repeat split. Qed.

Example ex_select :
  value_nth_person_with ex_mm ex_p 1%Z ex_vals (-1)%Z = Ok [50; -30; -1; -1; -1]%Z /\
  value_from_person_with ex_mm ex_p ex_vals 1 (-1)%Z = Ok [20; 10; -1; -1; -1]%Z.
Proof. repeat split. Qed.

Example ex_rank :
  get_rank ex_p [5; 7; 5; 1; 3; 2]%Z [true; true; true; true; true; false] = Ok [0; 1; 1; 0; 0; -1]%Z.
Proof. reflexivity. Qed.

Definition ex_sim : simulation := Build_simulation "person" [ex_p].
Example ex_chain :
  resolve ex_sim PersonPop ["household"%string] [] = Ok ([EntityToPerson (GroupPop 0)], GroupPop 0) /\
  resolve ex_sim (GroupPop 0) ["first_parent"%string] [] = Ok ([UniqueRoleToEntity 0 1], PersonPop) /\
  transform_and_bubble_up ex_sim [UniqueRoleToEntity 0 1; EntityToPerson (GroupPop 0)] ex_vals
    = Ok [10; 20; 10; 0; 20; 10]%Z.
Proof. repeat split. Qed.
