(** C12 - a described situation becomes exactly that simulation (statements only). *)
From Coq Require Import ZArith QArith List Bool String.
From Verif Require Import Base Cal Tables Period Builder BuilderProofs.
Import ListNotations.
Open Scope Z_scope.

Theorem spelling_irrelevant : forall x x', same_reading x x' ->
  forall s doc, build_from_entities x s doc = build_from_entities x' s doc.
Proof. exact build_from_entities_reading. Qed.
Print Assumptions spelling_irrelevant.
