(** C12 - a described situation becomes exactly that simulation (statements only). *)
From Coq Require Import ZArith QArith List Bool String.
From Verif Require Import Base Cal Tables Period Builder BuilderProofs.
Import ListNotations.
Open Scope Z_scope.

Theorem eternity_spellings_agree : forall s, canon_key (KEternity s) = Ok eternity_period.
Proof. exact canon_key_eternity. Qed.
Print Assumptions eternity_spellings_agree.
