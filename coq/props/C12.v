(** C12 - A described situation becomes exactly that simulation.
    Only statements here; the proofs are in proofs/BuilderProofs.v.  The model functions
    ([build_from_dict], [build_from_entities], [add_person_entity], [add_group_entity],
    [add_variable_value], [sort_periods], [flush_periods], [expand_axes] ...) are those of
    model/Builder.v, the very definitions that the correspondence check (corr/Corr_C12.v) runs
    against SimulationBuilder.build_from_dict.  The vocabulary of the statements ([declares],
    [declared_member], [stored], [ill_formed] ...) is in model/BuilderSpec.v.

    A situation is a JSON tree.  [x : ext] holds what is external to the model: the
    tokenisation [tok] of key / date texts, numexpr's reading [evalx] of a text as a number and
    Python's iteration order [set_order] of the set of persons still to allocate.  Every
    theorem holds for all of them. *)
From Coq Require Import ZArith QArith List Bool String Permutation Sorted.
From Verif Require Import Base Cal Tables Period Builder BuilderSpec BuilderProofs BuilderGroupProofs
  BuilderValueProofs BuilderRejectProofs BuilderOwnProofs BuilderAxesProofs BuilderErrorProofs.
Import ListNotations.
Open Scope Z_scope.
Open Scope string_scope.
Open Scope list_scope.

(** * 1. Equivalent spellings of a period key build the same simulation *)

(** Two readings [x], [x'] of the texts agree on the canonical form of every key (and on date
    values, numbers and the set order): then every entity-shaped document builds the same
    simulation (or fails alike).  Replacing the key text [t] by a text [t'] with the same
    canonical form is the same as reading the unchanged document with a tokeniser that reads
    [t] as [t'], so this is "whatever equivalent spelling of the period is used"; it covers
    the keys of every instance and the periods of the axes. *)
Theorem spelling_irrelevant : forall x x', same_reading x x' ->
  forall s doc, build_from_entities x s doc = build_from_entities x' s doc.
Proof. exact build_from_entities_reading. Qed.
Print Assumptions spelling_irrelevant.

(** the same at the entry point, for every document that names no variable at top level *)
Theorem spelling_irrelevant_entities : forall x x' s doc,
  same_reading x x' ->
  existsb (fun k => match find_var k (s_vars s) with Some _ => true | None => false end)
          (map fst doc) = false ->
  doc <> [] ->
  build_from_dict x s (JObj doc) = build_from_dict x' s (JObj doc).
Proof. exact build_from_dict_reading. Qed.
Print Assumptions spelling_irrelevant_entities.

(** every shape, variables-only included (it does not go through the canonical text):
    spellings that parse to the same period *)
Theorem spelling_irrelevant_all_shapes : forall x x', same_parse x x' ->
  forall s input, build_from_dict x s input = build_from_dict x' s input.
Proof. exact build_from_dict_parse. Qed.
Print Assumptions spelling_irrelevant_all_shapes.

Definition ext_a : ext :=
  mkExt (fun t => if String.eqb t "k" then KPref Month (SYM 2018 1) None else KGarbage)
        (fun _ => None) (fun l => l).
Definition ext_b : ext :=
  mkExt (fun t => if String.eqb t "k" then KPref Month (SYMD 2018 1 1) (Some 1) else KGarbage)
        (fun _ => None) (fun l => l).
Example spelling_irrelevant_nonvacuous :
  same_reading ext_a ext_b /\ tok ext_a "k" <> tok ext_b "k"
  /\ canon_key (KPref Year (SYM 2018 3) (Some 1)) = canon_key (KPref Month (SYMD 2018 3 9) (Some 12))
  /\ canon_key (KEternity "eternity") = canon_key (KEternity "ETERNITY")
  /\ canon_key (KPref Week (SYMD 2018 1 3) None) = canon_key (KPref Week (SYMD 2018 1 1) (Some 1)).
Proof.
  split; [|split; [discriminate|repeat split]].
  repeat split; intros t; cbn; unfold date_of_text; cbn; destruct (String.eqb t "k"); reflexivity.
Qed.

(** * 2. The buffer is flushed shortest periods first *)

(** [sort_periods] is the order in which [flush_periods] (entity shapes, per variable) and
    [set_dated] (variables-only shape) set the inputs.  It is a permutation of the buffered
    entries in which no entry is strictly shorter ([shorter]: lighter unit by
    gen/Tables.v [unit_weight], or same weight and smaller size) than an earlier one. *)
Theorem flush_order_shortest_first : forall (A : Type) (entries : list (period * A)),
  Permutation (sort_periods entries) entries /\
  StronglySorted (fun a b => ~ shorter (fst b) (fst a)) (sort_periods entries) /\
  (forall l1 a l2 b l3, sort_periods entries = l1 ++ a :: l2 ++ b :: l3 -> ~ shorter (fst b) (fst a)).
Proof. exact flush_order_full. Qed.
Print Assumptions flush_order_shortest_first.

(** the inputs are set one after the other in the order of that list *)
Theorem flush_in_list_order : forall v count l1 h l2,
  flush_periods v count h (l1 ++ l2)
  = bind (flush_periods v count h l1) (fun h' => flush_periods v count h' l2).
Proof. exact flush_periods_app. Qed.
Print Assumptions flush_in_list_order.

(** an input for a variable with a set-input rule never changes an array that is already
    known; with the order above: what is declared on a longer period is distributed only over
    the sub-periods for which nothing more specific was declared (the amounts are C16's) *)
Theorem longer_fills_gaps : forall v n h P a h',
  v_rule v <> RNone ->
  holder_set_input v n h P a = Ok h' ->
  forall q arr, hget h q = Some arr -> hget h' q = Some arr.
Proof. exact longer_fills_gaps_only. Qed.
Print Assumptions longer_fills_gaps.

Example flush_order_nonvacuous :
  map fst (sort_periods [((Month, (2018, 1, 1), 10), 1); ((Year, (2018, 1, 1), 1), 2);
                         ((Month, (2018, 1, 1), 2), 3); ((Month, (2018, 3, 1), 1), 4)])
  = [(Month, (2018, 3, 1), 1); (Month, (2018, 1, 1), 2); (Month, (2018, 1, 1), 10); (Year, (2018, 1, 1), 1)]
  /\ shorter (Month, (2018, 1, 1), 2) (Month, (2018, 1, 1), 10)
  /\ (* January known, the year fills the eleven other months with (1200 - 100) / 11 *)
     let v := mkVariable "s" "person" TInt Month RDivide None (CInt 0) [] in
     match holder_set_input v 1 [((Month, (2018, 1, 1), 1), [CInt 100])] (Year, (2018, 1, 1), 1) [CInt 1200] with
     | Ok h => hget h (Month, (2018, 1, 1), 1) = Some [CInt 100]
               /\ hget h (Month, (2018, 2, 1), 1) = Some [CInt 100] /\ List.length h = 12%nat
     | Err _ => False
     end.
Proof.
  split; [reflexivity|]. split; [right; split; reflexivity|]. vm_compute. repeat split.
Qed.

(** * 3. Ill-formed descriptions are refused with the situation error *)

(** An entity-shaped document with an ill-formed item of ANY class of the property text
    ([ill_formed], model/BuilderSpec.v: unknown entity; unknown variable or variable of another
    entity; value that [check_set_value] cannot read as the variable's type - text for a number,
    unknown enum name, impossible date; unparsable period; period that does not match the
    definition period or the eternity for a dated variable; unknown person in a group; a person
    declared twice in a group kind; too many holders of a role), at ANY place of the document,
    with or without axes, never builds a simulation. *)
Theorem ill_formed_rejected : forall x s doc,
  wf_sys s -> e_roles (s_person s) = [] -> ill_formed x s doc ->
  forall sim, build_from_entities x s doc <> Ok sim.
Proof. exact ill_formed_never_builds. Qed.
Print Assumptions ill_formed_rejected.

(** ... and the error IS the situation error.  While an entity-shaped document (without axes) is
    read - persons, then every group kind - the model refuses with [ESituation] only, or with its
    marker [EUnmodelled] for an input outside the modelled language (the IndexError / ValueError
    paths of the code are shown unreachable: every buffered array of an entity has one cell per
    instance): either the build is refused that way, or everything was read and the build is the
    flush of the populations. *)
Theorem reading_refuses_with_situation_error : forall x s doc,
  wf_sys s -> aget "axes" doc = None ->
  (exists k, build_from_entities x s doc = Err k /\ (k = ESituation \/ k = EUnmodelled)) \/
  (exists persons st1 st2, was_read x s doc persons st1 st2 /\
     build_from_entities x s doc = mapM (finalize_population s st2) (entities s)).
Proof. exact read_or_refused. Qed.
Print Assumptions reading_refuses_with_situation_error.

(** Hence, for every class that is detected while reading ([ill_formed_read]: all the classes of
    [ill_formed] but the mismatched period), at ANY place of the document: the situation error
    (or the marker, when something read before the item is outside the modelled language). *)
Theorem ill_formed_rejected_with_situation_error : forall x s doc,
  wf_sys s -> e_roles (s_person s) = [] -> aget "axes" doc = None ->
  ill_formed_read x s doc ->
  build_from_entities x s doc = Err ESituation \/ build_from_entities x s doc = Err EUnmodelled.
Proof. exact ill_formed_read_situation. Qed.
Print Assumptions ill_formed_rejected_with_situation_error.

(** The mismatched period is detected by the flush: [mismatched_period_rejected] shows the
    holder's PeriodMismatchError and its conversion to the situation error when the variable is
    the first one whose flush fails; a variable flushed before it can fail with the code's own
    ValueError ("inconsistent input" of the divide rule), which the property does not list.
    The lemmas below are the single steps. *)

Theorem unknown_entity_rejected : forall x s doc k,
  In k (map fst doc) -> k <> "axes" -> ~ In k (plurals s) -> ~ In k (singulars s) ->
  (existsb (fun k => mem_str k (singulars s)) (map fst doc) = true
   \/ existsb (fun k => match find_var k (s_vars s) with Some _ => true | None => false end)
              (map fst doc) = false) ->
  build_from_dict x s (JObj doc) = Err ESituation.
Proof. exact BuilderProofs.unknown_entity_rejected. Qed.
Print Assumptions unknown_entity_rejected.

(** [refused_field x s e f]: the declaration [f] (variable name, values) is refused with the
    situation error whatever was read before, for any instance of [e]. *)
Theorem unknown_variable_refused : forall x s e vn vals,
  find_var vn (s_vars s) = None -> refused_field x s e (vn, vals).
Proof. exact BuilderProofs.unknown_variable_refused. Qed.
Print Assumptions unknown_variable_refused.

Theorem other_entity_variable_refused : forall x s e vn vals v,
  find_var vn (s_vars s) = Some v -> v_entity v <> e_key e -> refused_field x s e (vn, vals).
Proof. exact BuilderProofs.other_entity_variable_refused. Qed.
Print Assumptions other_entity_variable_refused.

(** [refused_entry x v (t, value)]: the pair is refused with the situation error in any state *)
Theorem unparsable_period_refused : forall x v t value k,
  parse_key (tok x t) = Err k -> refused_entry x v (t, value).
Proof. exact BuilderProofs.unparsable_period_refused. Qed.
Print Assumptions unparsable_period_refused.

Theorem bad_value_refused : forall x v t value p,
  value <> JNull -> canon_key (tok x t) = Ok p -> check_set_value x v value = Err EValue ->
  refused_entry x v (t, value).
Proof. exact BuilderProofs.bad_value_refused. Qed.
Print Assumptions bad_value_refused.

Theorem text_for_number_value : forall x v s,
  (v_type v = TInt \/ v_type v = TFloat) -> evalx x s = None ->
  check_set_value x v (JStr s) = Err EValue.
Proof. exact BuilderProofs.text_for_number_value. Qed.
Print Assumptions text_for_number_value.

Theorem unknown_enum_value : forall x v s,
  v_type v = TEnum -> ~ In s (v_enum v) -> check_set_value x v (JStr s) = Err EValue.
Proof. exact BuilderProofs.unknown_enum_value. Qed.
Print Assumptions unknown_enum_value.

Theorem impossible_date_value : forall x v s y m d,
  v_type v = TDate -> tok x s = KPlain (SYMD y m d) -> validb (y, m, d) = false ->
  check_set_value x v (JStr s) = Err EValue.
Proof. exact BuilderProofs.impossible_date_value. Qed.
Print Assumptions impossible_date_value.

(** a refused pair inside the dated values of a variable, after pairs that were accepted *)
Theorem refused_entry_in_field : forall x s e vn v pre tv post st id rest idx st',
  find_var vn (s_vars s) = Some v -> v_entity v = e_key e ->
  index_of id (get_ids st (e_plural e)) = Some idx ->
  add_dated x st e v idx pre = Ok st' ->
  refused_entry x v tv ->
  init_variable_values x s st e ((vn, JObj (pre ++ tv :: post)) :: rest) id = Err ESituation.
Proof. exact BuilderProofs.refused_entry_in_field. Qed.
Print Assumptions refused_entry_in_field.

(** document level: the first refused declaration [bad] of a person ([pre_i]: the persons read
    before, [pre]: that person's declarations read before, all accepted) makes the build fail
    with the situation error *)
Theorem person_declaration_rejected :
  forall x s doc persons pre_i pid pre bad post post_i st1 st2,
  existsb (fun kv : string * json => negb (mem_str (fst kv) (plurals s))) (aremove "axes" doc) = false ->
  aget (e_plural (s_person s)) (aremove "axes" doc) = Some (JObj persons) ->
  persons = pre_i ++ (pid, JObj (pre ++ bad :: post)) :: post_i ->
  add_person_instances x s (set_ids b_empty (e_plural (s_person s)) (map fst persons)) pre_i = Ok st1 ->
  init_variable_values x s st1 (s_person s) pre pid = Ok st2 ->
  index_of pid (get_ids st2 (e_plural (s_person s))) <> None ->
  (forall st id rest, index_of id (get_ids st (e_plural (s_person s))) <> None ->
                      init_variable_values x s st (s_person s) (bad :: rest) id = Err ESituation) ->
  build_from_entities x s doc = Err ESituation.
Proof. exact BuilderProofs.person_declaration_rejected. Qed.
Print Assumptions person_declaration_rejected.

(** persons in groups: [todo] are the persons not yet allocated when the role lists [rj] of a
    group are read *)
Theorem unknown_person_rejected : forall pids rj r l pid todo,
  In (r, JArr l) rj -> In (JStr pid) l -> ~ In pid pids ->
  allocate_roles pids todo rj = Err ESituation.
Proof. exact unknown_person_full. Qed.
Print Assumptions unknown_person_rejected.

Theorem duplicate_membership_rejected :
  (* already allocated by an earlier list, role or group *)
  (forall pids rj r l pid todo,
     In (r, JArr l) rj -> In (JStr pid) l -> ~ In pid todo ->
     allocate_roles pids todo rj = Err ESituation) /\
  (* allocating a person removes it from what is still to allocate *)
  (forall pids l todo todo',
     allocate_list pids todo l = Ok todo' ->
     (forall p, In p todo' -> In p todo) /\ (forall p, In (JStr p) l -> ~ In p todo')) /\
  (* twice in the same list *)
  (forall pids l1 l2 pid todo,
     In (JStr pid) l1 -> allocate_list pids todo (l1 ++ JStr pid :: l2) = Err ESituation).
Proof. exact duplicate_membership_full. Qed.
Print Assumptions duplicate_membership_rejected.

Theorem too_many_role_holders_rejected : forall pids gidx rj r l mx mr,
  In (r, JArr l) rj -> r_max r = Some mx -> mx < Z.of_nat (List.length (person_ids_of l)) ->
  assign_roles pids gidx rj mr = Err ESituation.
Proof. exact too_many_full. Qed.
Print Assumptions too_many_role_holders_rejected.

Theorem group_instance_rejected : forall x s e pids eids gid fields rest st todo mr,
  (allocate_roles pids todo (roles_json e fields) = Err ESituation
   \/ (exists todo', allocate_roles pids todo (roles_json e fields) = Ok todo'
       /\ forall gi, assign_roles pids gi (roles_json e fields) mr = Err ESituation)) ->
  In gid eids ->
  add_group_instances x s e pids eids ((gid, JObj fields) :: rest) st todo mr = Err ESituation.
Proof. exact BuilderProofs.group_instance_rejected. Qed.
Print Assumptions group_instance_rejected.

(** document level: the first refused group ([gpre]: the group kinds read before, [ipre]: the
    groups of this kind read before, all accepted) makes the build fail with the situation error *)
Theorem group_declaration_rejected :
  forall x s doc i persons st1 gpre e gpost instances ipre gid fields ipost sta stb todo mr,
  existsb (fun kv : string * json => negb (mem_str (fst kv) (plurals s))) (aremove "axes" doc) = false ->
  aget (e_plural (s_person s)) (aremove "axes" doc) = Some (JObj (i :: persons)) ->
  add_person_entity x s b_empty (i :: persons) = Ok st1 ->
  s_groups s = gpre ++ e :: gpost ->
  add_groups x s st1 (get_ids st1 (e_plural (s_person s))) (aremove "axes" doc)
    (match aget "axes" doc with Some JNull | None => false | Some _ => true end) gpre = Ok sta ->
  aget (e_plural e) (aremove "axes" doc) = Some (JObj instances) ->
  instances = ipre ++ (gid, JObj fields) :: ipost ->
  add_group_instances x s e (get_ids st1 (e_plural (s_person s))) (map fst instances) ipre
    (set_ids sta (e_plural e) (map fst instances)) (get_ids st1 (e_plural (s_person s)))
    (repeat 0 (List.length (get_ids st1 (e_plural (s_person s)))),
     repeat EmptyString (List.length (get_ids st1 (e_plural (s_person s))))) = Ok (stb, todo, mr) ->
  (allocate_roles (get_ids st1 (e_plural (s_person s))) todo (roles_json e fields) = Err ESituation
   \/ (exists todo', allocate_roles (get_ids st1 (e_plural (s_person s))) todo (roles_json e fields) = Ok todo'
       /\ forall gi, assign_roles (get_ids st1 (e_plural (s_person s))) gi (roles_json e fields) mr
                     = Err ESituation)) ->
  build_from_entities x s doc = Err ESituation.
Proof. exact BuilderGroupProofs.group_declaration_rejected. Qed.
Print Assumptions group_declaration_rejected.

(** a period that does not match the variable's definition period (no set-input rule), or the
    eternity for a dated variable, is a PeriodMismatchError of the holder, and the flush turns
    it into the situation error *)
Theorem mismatched_period_rejected :
  (forall v n h P a,
     eternal v = false ->
     (p_unit P = Eternity
      \/ (v_rule v = RNone /\ List.length a = n /\ (p_unit P <> v_def v \/ 1 < p_size P))) ->
     holder_set_input v n h P a = Err EMismatch) /\
  (forall s e count pre vn entries post hs hs' v,
     flush_buffer s e count pre hs = Ok hs' ->
     find_var vn (s_vars s) = Some v -> v_entity v = e_key e ->
     flush_periods v count (match aget vn hs' with Some h => h | None => [] end) (sort_periods entries)
     = Err EMismatch ->
     flush_buffer s e count (pre ++ (vn, entries) :: post) hs = Err ESituation).
Proof. exact mismatched_period_full. Qed.
Print Assumptions mismatched_period_rejected.

(** * 4. What a successful build contains *)

(** For every document without axes that builds ([no_rule v]: no set-input rule, not eternal, no
    end date - the spreading of longer periods is C16's; an eternal variable given several keys
    keeps the last one flushed): one person per declared id in declaration order; every value
    declared for a person or for a group stored at the canonical period of its key (the last key
    of the declaration denoting that period) and at the instance's index, converted by
    [check_set_value]; for every group kind with declared instances one group per declared id in
    declaration order followed by one new group per person left out, every declared member
    recorded with its group and its (sub-)role by rank, every person left out alone in a new
    group with the first role, and the new groups hold the default value in every array. *)
Theorem build_spec :
  forall x s doc sim persons,
  NoDup (plurals s) -> NoDup (singulars s) ->
  (forall l, Permutation (set_order x l) l) ->
  aget "axes" doc = None ->
  aget (e_plural (s_person s)) (aremove "axes" doc) = Some (JObj persons) ->
  NoDup (map fst persons) ->
  build_from_entities x s doc = Ok sim ->
  (* 1. persons: one per declared id, in declaration order *)
  (exists pop rest, sim = pop :: rest /\ p_entity pop = e_key (s_person s) /\ p_ids pop = map fst persons) /\
  (* 2. a value declared for a person *)
  (forall ppre pid fields ppost pre vn dated post dpre t value dpost v p c idx,
     persons = ppre ++ (pid, JObj fields) :: ppost ->
     fields = pre ++ (vn, JObj dated) :: post -> NoDup (map fst fields) ->
     dated = dpre ++ (t, value) :: dpost ->
     (forall t' value', In (t', value') dpost -> value' <> JNull -> canon_key (tok x t') <> Ok p) ->
     value <> JNull -> find_var vn (s_vars s) = Some v -> no_rule v ->
     canon_key (tok x t) = Ok p -> check_set_value x v value = Ok c ->
     index_of pid (map fst persons) = Some idx ->
     exists pop rest, sim = pop :: rest /\ p_entity pop = e_key (s_person s) /\ stored pop vn p idx c) /\
  (* 3. every group kind with declared instances *)
  (forall e instances, In e (s_groups s) ->
     aget (e_plural e) (aremove "axes" doc) = Some (JObj instances) ->
     (* ids, memberships, roles *)
     (exists pop own,
        In pop sim /\ p_entity pop = e_key e /\
        p_ids pop = map fst instances ++ own /\ NoDup own /\
        (forall pid, In pid own <-> In pid (map fst persons) /\ ~ declared_in e instances pid) /\
        List.length (p_members pop) = List.length persons /\
        List.length (p_mroles pop) = List.length persons /\
        (forall gid fields r j pid k gi,
           In (gid, JObj fields) instances -> In r (e_roles e) ->
           nth_error (role_members r fields) j = Some pid ->
           index_of pid (map fst persons) = Some k -> index_of gid (map fst instances) = Some gi ->
           nth_error (p_members pop) k = Some (Z.of_nat gi)
           /\ nth_error (p_mroles pop) k = Some (role_at r j)) /\
        (forall j pid k, nth_error own j = Some pid -> index_of pid (map fst persons) = Some k ->
           nth_error (p_members pop) k = Some (Z.of_nat (List.length instances + j))
           /\ nth_error (p_mroles pop) k = Some (first_role e)
           /\ nth_error (p_ids pop) (List.length instances + j) = Some pid)) /\
     (* the groups added for the persons left out hold default values *)
     (forall vn v, find_var vn (s_vars s) = Some v -> v_entity v = e_key e -> no_rule v ->
        exists pop, In pop sim /\ p_entity pop = e_key e /\
          forall h p arr, aget vn (p_holders pop) = Some h -> hget h p = Some arr ->
            List.length arr = List.length (p_ids pop) /\
            forall g, (List.length instances <= g < List.length (p_ids pop))%nat ->
                      nth_error arr g = Some (v_default v)) /\
     (* a value declared for a group *)
     (forall ipre gid fields ipost pre vn dated post dpre t value dpost v p c idx,
        instances = ipre ++ (gid, JObj fields) :: ipost -> NoDup (map fst instances) ->
        fields = pre ++ (vn, JObj dated) :: post -> NoDup (map fst fields) ->
        ~ In vn (map role_name (e_roles e)) ->
        dated = dpre ++ (t, value) :: dpost ->
        (forall t' value', In (t', value') dpost -> value' <> JNull -> canon_key (tok x t') <> Ok p) ->
        value <> JNull -> find_var vn (s_vars s) = Some v -> no_rule v ->
        canon_key (tok x t) = Ok p -> check_set_value x v value = Ok c ->
        index_of gid (map fst instances) = Some idx ->
        exists pop, In pop sim /\ p_entity pop = e_key e /\ stored pop vn p idx c)).
Proof. exact build_spec_full. Qed.
Print Assumptions build_spec.

(** the steps of the builder behind [build_spec] *)
Theorem build_spec_partial :
  (* persons of the built simulation *)
  (forall x s doc sim persons,
     ~ In (e_plural (s_person s)) (map e_plural (s_groups s)) ->
     aget "axes" doc = None ->
     aget (e_plural (s_person s)) (aremove "axes" doc) = Some (JObj persons) ->
     build_from_entities x s doc = Ok sim ->
     exists pop rest, sim = pop :: rest /\ p_entity pop = e_key (s_person s)
                      /\ p_ids pop = map fst persons) /\
  (* ids of a group kind *)
  (forall x s st pids e instances st',
     add_group_entity x s st pids e (JObj instances) = Ok st' ->
     exists st1 todo mr,
       add_group_instances x s e pids (map fst instances) instances
         (set_ids st (e_plural e) (map fst instances)) pids
         (repeat 0 (List.length pids), repeat EmptyString (List.length pids)) = Ok (st1, todo, mr) /\
       aget (e_plural e) (b_ids st')
       = Some (map fst instances ++ match todo with [] => [] | _ => set_order x todo end)) /\
  (* a declared value *)
  (forall x st e v idx t value st',
     value <> JNull ->
     add_variable_value x st e v idx t value = Ok st' ->
     exists p c old,
       canon_key (tok x t) = Ok p /\ check_set_value x v value = Ok c /\
       old = match buf_get (b_buffer st) (v_name v) p with
             | Some a => a
             | None => default_array v (get_count st (e_plural e))
             end /\
       (idx < List.length old)%nat /\
       buf_get (b_buffer st') (v_name v) p = Some (list_set idx c old) /\
       (forall vn' p', (vn', p') <> (v_name v, p) ->
                       buf_get (b_buffer st') vn' p' = buf_get (b_buffer st) vn' p') /\
       b_ids st' = b_ids st /\ b_members st' = b_members st /\ b_roles st' = b_roles st /\
       b_ax_ids st' = b_ax_ids st).
Proof. exact build_spec_partial_full. Qed.
Print Assumptions build_spec_partial.

(** document level, groups: for every document without axes that builds and every group kind
    with declared instances *)
Theorem build_spec_groups : forall x s doc sim persons e instances,
  NoDup (plurals s) ->
  (forall l, Permutation (set_order x l) l) ->
  aget "axes" doc = None ->
  aget (e_plural (s_person s)) (aremove "axes" doc) = Some (JObj persons) ->
  NoDup (map fst persons) ->
  In e (s_groups s) ->
  aget (e_plural e) (aremove "axes" doc) = Some (JObj instances) ->
  build_from_entities x s doc = Ok sim ->
  exists pop own,
    In pop sim /\ p_entity pop = e_key e /\
    p_ids pop = map fst instances ++ own /\
    NoDup own /\
    (forall pid, In pid own <-> In pid (map fst persons) /\ ~ declared_in e instances pid) /\
    List.length (p_members pop) = List.length persons /\
    List.length (p_mroles pop) = List.length persons /\
    (forall gid fields r j pid k gi,
       In (gid, JObj fields) instances -> In r (e_roles e) ->
       nth_error (role_members r fields) j = Some pid ->
       index_of pid (map fst persons) = Some k -> index_of gid (map fst instances) = Some gi ->
       nth_error (p_members pop) k = Some (Z.of_nat gi)
       /\ nth_error (p_mroles pop) k = Some (role_at r j)) /\
    (forall j pid k, nth_error own j = Some pid -> index_of pid (map fst persons) = Some k ->
       nth_error (p_members pop) k = Some (Z.of_nat (List.length instances + j))
       /\ nth_error (p_mroles pop) k = Some (first_role e)
       /\ nth_error (p_ids pop) (List.length instances + j) = Some pid).
Proof. exact build_groups_spec. Qed.
Print Assumptions build_spec_groups.

(** document level, values of persons: the value declared under the key text [t] (the last key
    of that declaration denoting this period) for a variable without set-input rule is stored
    at the canonical period of the key, at the person's index, converted by [check_set_value] *)
Theorem build_spec_person_values :
  forall x s doc sim persons ppre pid fields ppost pre vn dated post dpre t value dpost v p c idx,
  NoDup (singulars s) -> ~ In (e_plural (s_person s)) (map e_plural (s_groups s)) ->
  aget "axes" doc = None ->
  aget (e_plural (s_person s)) (aremove "axes" doc) = Some (JObj persons) ->
  persons = ppre ++ (pid, JObj fields) :: ppost -> NoDup (map fst persons) ->
  fields = pre ++ (vn, JObj dated) :: post -> NoDup (map fst fields) ->
  dated = dpre ++ (t, value) :: dpost ->
  (forall t' value', In (t', value') dpost -> value' <> JNull -> canon_key (tok x t') <> Ok p) ->
  value <> JNull -> find_var vn (s_vars s) = Some v ->
  v_rule v = RNone -> eternal v = false -> v_end v = None ->
  canon_key (tok x t) = Ok p -> check_set_value x v value = Ok c ->
  index_of pid (map fst persons) = Some idx ->
  build_from_entities x s doc = Ok sim ->
  exists pop rest, sim = pop :: rest /\ p_entity pop = e_key (s_person s) /\ stored pop vn p idx c.
Proof. exact build_person_value_stored. Qed.
Print Assumptions build_spec_person_values.

(** members of a role list: group index and (sub-)role by rank; the others untouched *)
Theorem declared_members_assigned : forall pids r gidx l i mr,
  NoDup l ->
  List.length (fst mr) = List.length pids -> List.length (snd mr) = List.length pids ->
  let mr' := assign_members pids r gidx i l mr in
  List.length (fst mr') = List.length pids /\ List.length (snd mr') = List.length pids /\
  (forall j pid k, nth_error l j = Some pid -> index_of pid pids = Some k ->
     nth_error (fst mr') k = Some gidx /\ nth_error (snd mr') k = Some (role_at r (i + j))) /\
  (forall k, (forall pid, In pid l -> index_of pid pids <> Some k) ->
     nth_error (fst mr') k = nth_error (fst mr) k /\ nth_error (snd mr') k = nth_error (snd mr) k).
Proof. exact assign_members_spec. Qed.
Print Assumptions declared_members_assigned.

(** persons left out: the j-th of them gets the new group [g + j] (after the [g] declared
    ones) with the first role; the arrays of the group kind are padded with defaults *)
Theorem own_groups :
  (forall pids first own g mr,
     NoDup own ->
     List.length (fst mr) = List.length pids -> List.length (snd mr) = List.length pids ->
     let mr' := allocate_own pids g first own mr in
     List.length (fst mr') = List.length pids /\ List.length (snd mr') = List.length pids /\
     (forall j pid k, nth_error own j = Some pid -> index_of pid pids = Some k ->
        nth_error (fst mr') k = Some (Z.of_nat (g + j)) /\ nth_error (snd mr') k = Some first) /\
     (forall k, (forall pid, In pid own -> index_of pid pids <> Some k) ->
        nth_error (fst mr') k = nth_error (fst mr) k /\ nth_error (snd mr') k = nth_error (snd mr) k)) /\
  (forall v n a, (List.length a <= n)%nat ->
     List.length (pad_array v n a) = n /\
     (forall i, (i < List.length a)%nat -> nth_error (pad_array v n a) i = nth_error a i) /\
     (forall i, (List.length a <= i < n)%nat -> nth_error (pad_array v n a) i = Some (v_default v))).
Proof. exact own_groups_full. Qed.
Print Assumptions own_groups.

(** * 5. Axes *)

(** Document level, entities: the simulation built from a document with axes has, for every
    entity, [cell_count] copies of the entities of the simulation built from the same document
    with the axes put aside: ids suffixed with their rank, roles repeated, memberships of copy c
    shifted by c times the number of groups. *)
Theorem axes_entities_concatenation : forall x s doc dims ds sim base,
  NoDup (plurals s) -> NoDup (singulars s) ->
  aget "axes" doc = Some dims -> dims <> JNull -> parse_dims dims = Ok ds ->
  build_from_entities x s doc = Ok sim ->
  build_from_entities x s (aremove "axes" doc) = Ok base ->
  let cells := Z.to_nat (cell_count ds) in
  forall e pop bpop, In e (entities s) -> pop_of sim e pop -> pop_of base e bpop ->
    p_ids pop = suffix_ids (repeat_list (p_ids bpop) cells) /\
    p_mroles pop = repeat_list (p_mroles bpop) cells /\
    p_members pop = tile_members (p_members bpop) (Z.of_nat (List.length (p_ids bpop))) 0 cells.
Proof. exact axes_entities_doc. Qed.
Print Assumptions axes_entities_concatenation.

(** full statement for the VALUES (not proved): a variable that no axis names holds the copies'
    arrays one after the other; the variable of an axis holds, in cell [c], the value of the
    cell at the axis index and what the copy holds elsewhere *)
Definition axes_values_concatenation_statement : Prop :=
  forall x s doc dims ds sim base, wf_sys s ->
    aget "axes" doc = Some dims -> dims <> JNull -> parse_dims dims = Ok ds ->
    build_from_entities x s doc = Ok sim ->
    build_from_entities x s (aremove "axes" doc) = Ok base ->
    let cells := Z.to_nat (cell_count ds) in
    let counts := map dim_count ds in
    forall e pop bpop, In e (entities s) -> pop_of sim e pop -> pop_of base e bpop ->
      let n := List.length (p_ids bpop) in
      (forall vn, (forall d a, In d ds -> In a d -> a_name a <> vn) ->
         forall h bh p, aget vn (p_holders pop) = Some h -> aget vn (p_holders bpop) = Some bh ->
           hget h p = option_map (fun a => repeat_list a cells) (hget bh p)) /\
      (forall di d a v p t, nth_error ds di = Some d -> In a d -> find_var (a_name a) (s_vars s) = Some v ->
         v_entity v = e_key e -> v_rule v = RNone -> a_period a = Some t -> canon_key (tok x t) = Ok p ->
         forall arr, (exists h, aget (a_name a) (p_holders pop) = Some h /\ hget h p = Some arr) ->
         forall c i, (c < cells)%nat -> (i < n)%nat ->
           let q := match ds with
                    | [_] => nth c (linspace (a_min a) (a_max a) (dim_count d)) 0%Q
                    | _ => (a_min a + inject_Z (mesh_coord counts di (Z.of_nat c)) * (a_max a - a_min a)
                                      / inject_Z (dim_count d - 1))%Q
                    end in
           if Nat.eqb i (Z.to_nat (a_index a))
           then Ok (nth (c * n + i) arr (v_default v)) = cell_of_q v q
           else forall barr, (exists bh, aget (a_name a) (p_holders bpop) = Some bh /\ hget bh p = Some barr) ->
                  nth_error arr (c * n + i) = nth_error barr i).
(* Proved: the entities at document level ([axes_entities_concatenation]); the values for ONE
   parallel axis on a variable of the persons without set-input rule
   ([axes_values_single_axis_partial] below: the strided store [set_strided] is characterised
   block by block and the flush is shown to store each buffered array once).  Missing for
   [axes_values_concatenation_statement]: several parallel axes and perpendicular dimensions
   (the mesh coordinates of [apply_dims]), an axis on a variable of a group kind (needs the
   array-length invariant of [build_spec]'s group part at the expansion), the clause for the
   variables that no axis names, and variables with a set-input rule (commutation of the
   divide / dispatch rules with the repetition of the arrays).  The correspondence check
   compares every axes document with its expanded copies, on the implementation and the model. *)

(** One parallel axis on a variable of the persons (no set-input rule), its index within the
    persons: the array of the axis variable at the axis period holds, in copy [c], the [c]-th
    value of the axis (converted to the variable's type) at the axis index, and elsewhere what
    the simulation built without the axes holds (the default when it holds nothing there). *)
Theorem axes_values_single_axis_partial : forall x s doc dims a sim base persons v t p,
  NoDup (plurals s) -> NoDup (singulars s) ->
  aget "axes" doc = Some dims -> dims <> JNull -> parse_dims dims = Ok [[a]] ->
  build_from_entities x s doc = Ok sim ->
  build_from_entities x s (aremove "axes" doc) = Ok base ->
  aget (e_plural (s_person s)) (aremove "axes" doc) = Some (JObj persons) ->
  find_var (a_name a) (s_vars s) = Some v -> v_entity v = e_key (s_person s) -> no_rule v ->
  a_period a = Some t -> canon_key (tok x t) = Ok p ->
  (Z.to_nat (a_index a) < List.length persons)%nat ->
  let cells := Z.to_nat (a_count a) in
  let n := List.length persons in
  let vals := linspace (a_min a) (a_max a) (a_count a) in
  exists pop rest bpop brest h arr,
    sim = pop :: rest /\ base = bpop :: brest /\
    p_entity pop = e_key (s_person s) /\ p_entity bpop = e_key (s_person s) /\
    aget (a_name a) (p_holders pop) = Some h /\ hget h p = Some arr /\
    forall c i, (c < cells)%nat -> (i < n)%nat ->
      if Nat.eqb i (Z.to_nat (a_index a))
      then exists q w, nth_error vals c = Some q /\ cell_of_q v q = Ok w
                       /\ nth_error arr (c * n + i) = Some w
      else nth_error arr (c * n + i)
           = match (match aget (a_name a) (p_holders bpop) with Some bh => hget bh p | None => None end) with
             | Some barr => nth_error barr i
             | None => Some (v_default v)
             end.
Proof. exact axes_single_person_axis. Qed.
Print Assumptions axes_values_single_axis_partial.

Theorem axes_entities_partial :
  (forall (l : list string) cells c i id,
     (c < cells)%nat -> nth_error l i = Some id ->
     nth_error (suffix_ids (repeat_list l cells)) (c * List.length l + i)
     = Some (append id (string_of_nat (c * List.length l + i)))) /\
  (forall m cnt cells,
     tile_members m cnt 0 cells
     = List.concat (map (fun c => map (fun i => i + Z.of_nat c * cnt) m) (seq 0 cells))) /\
  (forall (A : Type) (l : list A) n, repeat_list l n = List.concat (repeat l n)).
Proof. exact axes_entities_full. Qed.
Print Assumptions axes_entities_partial.

(** * Non-vacuity: a small system and documents evaluated by the model *)

Definition sys0 : sys :=
  mkSys (mkEntity "person" "persons" [])
        [mkEntity "household" "households"
           [mkRole "parent" (Some "parents") (Some 2) []; mkRole "child" (Some "children") None []]]
        [mkVariable "salary" "person" TInt Month RNone None (CInt 0) [];
         mkVariable "birth" "person" TDate Eternity RNone None (CInt 0) [];
         mkVariable "rent" "household" TInt Month RNone None (CInt 0) []].

Definition ext0 : ext :=
  mkExt (fun t => if String.eqb t "2018-01" then KMonth 2018 1
                  else if String.eqb t "month:2018-01" then KPref Month (SYM 2018 1) None
                  else if String.eqb t "2018" then KYear 2018
                  else if String.eqb t "1980-02-30" then KDay 1980 2 30
                  else KGarbage)
        (fun _ => None) (fun l => rev l).

Definition persons0 : json :=
  JObj [("a", JObj [("salary", JObj [("month:2018-01", JInt 100)])]);
        ("b", JObj [("salary", JObj [("2018-01", JInt 200)])]);
        ("c", JObj [])].
Definition doc0 : list (string * json) :=
  [("persons", persons0);
   ("households", JObj [("h1", JObj [("parents", JArr [JStr "a"]); ("rent", JObj [("2018-01", JInt 5)])])])].

(* F8's input builds [100; 200; 0]; b and c get groups of their own (in the set order) that
   hold the default rent *)
Example build_nonvacuous :
  match build_from_dict ext0 sys0 (JObj doc0) with
  | Ok [pp; hh] =>
      p_ids pp = ["a"; "b"; "c"]
      /\ p_holders pp = [("salary", [((Month, (2018, 1, 1), 1), [CInt 100; CInt 200; CInt 0])])]
      /\ p_ids hh = ["h1"; "c"; "b"] /\ p_members hh = [0; 2; 1]
      /\ p_mroles hh = ["parent"; "parent"; "parent"]
      /\ p_holders hh = [("rent", [((Month, (2018, 1, 1), 1), [CInt 5; CInt 0; CInt 0])])]
  | _ => False
  end.
Proof. vm_compute. repeat split. Qed.

Example ill_formed_nonvacuous :
  (* unknown entity, unknown variable, text for a number, impossible date, unparsable period,
     mismatched period, unknown person, duplicate membership, too many parents *)
  build_from_dict ext0 sys0 (JObj (doc0 ++ [("families", JObj [])])) = Err ESituation
  /\ build_from_dict ext0 sys0 (JObj [("persons", JObj [("a", JObj [("wage", JObj [])])])]) = Err ESituation
  /\ build_from_dict ext0 sys0 (JObj [("persons", JObj [("a", JObj [("salary", JObj [("2018-01", JStr "abc")])])])])
     = Err ESituation
  /\ build_from_dict ext0 sys0 (JObj [("persons", JObj [("a", JObj [("birth", JObj [("2018", JStr "1980-02-30")])])])])
     = Err ESituation
  /\ build_from_dict ext0 sys0 (JObj [("persons", JObj [("a", JObj [("salary", JObj [("2018-13", JInt 1)])])])])
     = Err ESituation
  /\ build_from_dict ext0 sys0 (JObj [("persons", JObj [("a", JObj [("salary", JObj [("2018", JInt 1)])])])])
     = Err ESituation
  /\ build_from_dict ext0 sys0 (JObj [("persons", persons0);
        ("households", JObj [("h", JObj [("parents", JArr [JStr "a"; JStr "z"])])])]) = Err ESituation
  /\ build_from_dict ext0 sys0 (JObj [("persons", persons0);
        ("households", JObj [("h", JObj [("parents", JArr [JStr "a"]); ("children", JArr [JStr "a"])])])])
     = Err ESituation
  /\ build_from_dict ext0 sys0 (JObj [("persons", persons0);
        ("households", JObj [("h", JObj [("parents", JArr [JStr "a"; JStr "b"; JStr "c"])])])])
     = Err ESituation.
Proof. vm_compute. repeat split. Qed.

(* a parallel axis: three copies, ids suffixed, memberships shifted *)
Example axes_nonvacuous :
  match build_from_dict ext0 sys0
          (JObj [("persons", JObj [("a", JObj []); ("b", JObj [])]);
                 ("households", JObj [("h", JObj [("parents", JArr [JStr "a"; JStr "b"])])]);
                 ("axes", JArr [JArr [JObj [("count", JInt 3); ("name", JStr "salary"); ("min", JInt 0);
                                            ("max", JInt 4); ("period", JStr "month:2018-01")]]])]) with
  | Ok [pp; hh] =>
      p_ids pp = ["a0"; "b1"; "a2"; "b3"; "a4"; "b5"]
      /\ p_holders pp = [("salary", [((Month, (2018, 1, 1), 1),
                                      [CInt 0; CInt 0; CInt 2; CInt 0; CInt 4; CInt 0])])]
      /\ p_ids hh = ["h0"; "h1"; "h2"] /\ p_members hh = [0; 0; 1; 1; 2; 2]
  | _ => False
  end.
Proof. vm_compute. repeat split. Qed.

(* the premises of the document-level theorems hold for this document *)
Example build_spec_premises_nonvacuous :
  NoDup (plurals sys0) /\ NoDup (singulars sys0)
  /\ ~ In (e_plural (s_person sys0)) (map e_plural (s_groups sys0))
  /\ (forall l, Permutation (set_order ext0 l) l)
  /\ aget "axes" doc0 = None
  /\ aget (e_plural (s_person sys0)) (aremove "axes" doc0) = Some persons0
  /\ (exists sim, build_from_entities ext0 sys0 doc0 = Ok sim)
  /\ canon_key (tok ext0 "month:2018-01") = Ok (Month, (2018, 1, 1), 1)
  /\ canon_key (tok ext0 "2018-01") = Ok (Month, (2018, 1, 1), 1)
  /\ (exists v, find_var "salary" (s_vars sys0) = Some v /\ v_rule v = RNone /\ eternal v = false
                /\ v_end v = None /\ check_set_value ext0 v (JInt 100) = Ok (CInt 100)).
Proof.
  split; [repeat constructor; cbn; intuition discriminate|].
  split; [repeat constructor; cbn; intuition discriminate|].
  split; [cbn; intuition discriminate|].
  split; [intros l; cbn; symmetry; apply Permutation_rev|].
  split; [reflexivity|]. split; [reflexivity|].
  split; [eexists; vm_compute; reflexivity|].
  split; [reflexivity|]. split; [reflexivity|].
  eexists. repeat split; reflexivity.
Qed.

Example ill_formed_rejected_nonvacuous :
  wf_sys sys0 /\ e_roles (s_person sys0) = [] /\
  ill_formed ext0 sys0 [("persons", persons0);
                        ("households", JObj [("h", JObj [("parents", JArr [JStr "a"; JStr "b"; JStr "c"])])])]
  /\ ill_formed ext0 sys0 [("persons", JObj [("a", JObj [("birth", JObj [("2018", JStr "1980-02-30")])])])].
Proof.
  split; [|split; [reflexivity|split]].
  - split; [repeat constructor; cbn; intuition discriminate|].
    split; [repeat constructor; cbn; intuition discriminate|].
    split; [cbn; intuition discriminate|].
    intros v [<-|[<-|[<-|[]]]]; cbn; auto.
  - eapply IF_too_many with (e := mkEntity "household" "households"
                                   [mkRole "parent" (Some "parents") (Some 2) []; mkRole "child" (Some "children") None []])
                            (gid := "h") (r := mkRole "parent" (Some "parents") (Some 2) []) (mx := 2);
      [left; reflexivity|reflexivity|left; reflexivity|left; reflexivity|reflexivity|vm_compute; reflexivity].
  - eapply IF_bad_value with (e := s_person sys0) (id := "a") (vn := "birth") (t := "2018")
                             (value := JStr "1980-02-30");
      [left; reflexivity|reflexivity| |intros []|reflexivity|discriminate|reflexivity].
    eexists _, _. split; [left; reflexivity|]. split; [left; reflexivity|left; reflexivity].
Qed.
