(** C03 - Summing or dividing over time uses the exact sub-periods; period mismatches fail.
    Only statements here; proofs are in proofs/EngineC03Proofs.v (and, for the tiling,
    proofs/PeriodProofs.v of C04).

    Vocabulary.  coq/model/Engine.v: [step] is one top-level request on the machine
    ([RCalc] = Simulation.calculate, [RAdd] = calculate_add, [RDivide] = calculate_divide);
    [call] is CorePopulation.__call__ with its options; [calc_add], [calc_divide],
    [check_consistency] are the functions of the same name in simulation.py;
    [sem sy pp inp v p] is the meaning of variable [v] at period [p] (no cache, no stack) and
    [sem_answer] the meaning of a request; [Top] / [ranked] as in C01.
    coq/model/PeriodSpec.v (C04): [wf], [aligned], [same_family pu u] ([u] is an equal or
    smaller unit of [pu]'s family: day < month < year, weekday < week), [first_ord] /
    [last_ord] / [day_in] (a period as a set of day numbers), [count_in].
    coq/model/EngineC03Spec.v: [sum_results] (Python's sum over the per-piece results),
    [column_sum], [enclosing du c] (the du-long period around day c), [quot_answer],
    [error_cell du ru one o] (the accept / reject table written out), [error_class] (the same
    table from the engine's unit weights and the classes of the property text),
    [accepted_pairs]. *)
From Coq Require Import ZArith List Bool Arith String Lia.
From Verif Require Import Base Cal Tables Period PeriodSpec Engine EngineC03Spec.
From Verif Require Import PeriodProofs EngineProofs EngineC03Proofs.
Import ListNotations.
Open Scope Z_scope.
Local Notation length := List.length.

(** ** ADD *)

(** Definition unit [v_unit x], request period [q] of an equal or larger unit of the same
    family, start aligned to the definition unit: the sub-periods the engine sums over are
    an exact tiling of [q] ([pieces_ok], see [tiling_is_exact]) and the answer - of the
    machine in any state between two requests, and of the meaning - is the sum of the
    variable's meanings over those pieces. *)
Theorem add_is_sum_of_tiles : forall sy pp inp, ranked sy = true -> (1 <= max_loops sy)%nat ->
  forall s v x q,
  Top sy pp inp s -> nth_error (vars sy) v = Some x ->
  wf q -> same_family (p_unit q) (v_unit x) = true -> aligned (v_unit x) (p_start q) ->
  exists subs,
    subperiods q (v_unit x) = Ok subs /\ pieces_ok q (v_unit x) subs
    /\ snd (step (enough_fuel sy) sy pp s (RAdd v q))
       = of_res (sum_results (map (sem sy pp inp v) subs) None)
    /\ sem_answer sy pp inp (RAdd v q) = of_res (sum_results (map (sem sy pp inp v) subs) None)
    /\ Top sy pp inp (fst (step (enough_fuel sy) sy pp s (RAdd v q))).
Proof. exact add_sum_of_tiles. Qed.
Print Assumptions add_is_sum_of_tiles.

(** What [pieces_ok] says: every day of [q] lies in some piece and every piece inside [q];
    a later piece starts after an earlier one ends; every piece is one definition unit long;
    their number is the calendar count. *)
Theorem tiling_is_exact : forall q u l, pieces_ok q u l ->
  (forall d, day_in q d <-> exists piece, In piece l /\ day_in piece d)
  /\ (forall i j a b, (i < j)%nat -> nth_error l i = Some a -> nth_error l j = Some b ->
        last_ord a < first_ord b)
  /\ Forall (fun piece => p_unit piece = u /\ p_size piece = 1) l
  /\ Z.of_nat (length l) = count_in q u.
Proof. exact pieces_exact. Qed.
Print Assumptions tiling_is_exact.

(** What [sum_results] says when every piece has a value: the element-wise total. *)
Theorem sum_is_elementwise : forall a0 arrays n,
  Forall (fun a => length a = n) (a0 :: arrays) ->
  exists tot, sum_results (map Ok (a0 :: arrays)) None = Ok tot /\ length tot = n
    /\ forall i, nth i tot 0 = column_sum i (a0 :: arrays).
Proof. exact sum_results_columns. Qed.
Print Assumptions sum_is_elementwise.

Theorem sum_fails_when_a_piece_fails : forall rs acc e, In (Err e) rs ->
  exists e', sum_results rs acc = Err e'.
Proof. exact sum_results_error. Qed.
Print Assumptions sum_fails_when_a_piece_fails.

(** ** DIVIDE *)

(** Request period [q] of size one whose unit is an equal or smaller unit of the definition
    unit's family: the engine computes the variable for the enclosing definition period and
    divides by the number of request units in it - the length of the exact tiling of the
    enclosing period by the request unit. *)
Theorem divide_is_enclosing_over_count : forall sy pp inp, ranked sy = true -> (1 <= max_loops sy)%nat ->
  forall s v x q,
  Top sy pp inp s -> nth_error (vars sy) v = Some x ->
  valid (p_start q) -> p_size q = 1 -> same_family (v_unit x) (p_unit q) = true ->
  let cp := enclosing (v_unit x) (p_start q) in
  let den := count_in cp (p_unit q) in
  divide_period x q = Ok cp
  /\ divide_denominator q cp = Ok den
  /\ (exists subs, subperiods cp (p_unit q) = Ok subs /\ pieces_ok cp (p_unit q) subs)
  /\ snd (step (enough_fuel sy) sy pp s (RDivide v q)) = quot_answer (sem sy pp inp v cp) den
  /\ sem_answer sy pp inp (RDivide v q) = quot_answer (sem sy pp inp v cp) den
  /\ Top sy pp inp (fst (step (enough_fuel sy) sy pp s (RDivide v q))).
Proof. exact divide_enclosing_over_count. Qed.
Print Assumptions divide_is_enclosing_over_count.

(** the enclosing definition period contains the request period (start aligned to its unit) *)
Theorem enclosing_period_contains_request : forall du q,
  valid (p_start q) -> p_size q = 1 -> same_family du (p_unit q) = true ->
  aligned (p_unit q) (p_start q) ->
  first_ord (enclosing du (p_start q)) <= first_ord q
  /\ last_ord q <= last_ord (enclosing du (p_start q)).
Proof. exact enclosing_contains. Qed.
Print Assumptions enclosing_period_contains_request.

(** ** The accept / reject matrix: 6 definition units x 6 request units x {size one, other
    size} x {plain, ADD, DIVIDE, both, unknown} = 360 cells *)

(** The served cells, listed; every other cell is an error cell. *)
Theorem accept_reject_matrix :
  accepted_pairs true OPlain =
    [(Weekday, Weekday); (Week, Week); (Day, Day); (Month, Month); (Year, Year);
     (Eternity, Weekday); (Eternity, Week); (Eternity, Day); (Eternity, Month); (Eternity, Year);
     (Eternity, Eternity)]
  /\ accepted_pairs false OPlain =
    [(Eternity, Weekday); (Eternity, Week); (Eternity, Day); (Eternity, Month); (Eternity, Year);
     (Eternity, Eternity)]
  /\ accepted_pairs true OAdd =
    [(Weekday, Weekday); (Weekday, Week); (Weekday, Day); (Weekday, Month); (Weekday, Year);
     (Week, Week); (Week, Month); (Week, Year);
     (Day, Weekday); (Day, Week); (Day, Day); (Day, Month); (Day, Year);
     (Month, Month); (Month, Year); (Year, Year)]
  /\ accepted_pairs false OAdd = accepted_pairs true OAdd
  /\ accepted_pairs true ODivide =
    [(Weekday, Weekday); (Weekday, Day); (Week, Weekday); (Week, Week); (Week, Day);
     (Day, Weekday); (Day, Day); (Month, Weekday); (Month, Week); (Month, Day); (Month, Month);
     (Year, Weekday); (Year, Week); (Year, Day); (Year, Month); (Year, Year)]
  /\ accepted_pairs false ODivide = []
  /\ (forall one, accepted_pairs one OBoth = [] /\ accepted_pairs one OUnknown = []).
Proof. exact accept_reject_table_proof. Qed.
Print Assumptions accept_reject_matrix.

(** The table is the engine's unit weights (gen/Tables.v) plus the classes of the property
    text: wrong unit, size above one, eternal variable or period, period shorter than the
    definition period, both options, unknown option. *)
Theorem error_cells_are_the_listed_classes : forall du ru one o,
  error_cell du ru one o = error_class du ru one o.
Proof. exact error_cell_class. Qed.
Print Assumptions error_cells_are_the_listed_classes.

(** An error cell is an error for EVERY start date, size in the class, machine state, fuel,
    rule system and population: the request is answered by a ValueError, on the machine and
    in the meaning. *)
Theorem error_cell_always_rejected : forall fuel sy pp inp s v x q o r,
  nth_error (vars sy) v = Some x -> request_of o v q = Some r ->
  error_cell (v_unit x) (p_unit q) (size_one q) o = true ->
  snd (step (S fuel) sy pp s r) = AErr EValue /\ sem_answer sy pp inp r = AErr EValue.
Proof. exact matrix_rejects. Qed.
Print Assumptions error_cell_always_rejected.

(** ... and for ADD / DIVIDE the simulation is left exactly as it was. *)
Theorem rejected_add_leaves_state : forall fuel sy pp s v x q,
  nth_error (vars sy) v = Some x ->
  error_cell (v_unit x) (p_unit q) (size_one q) OAdd = true ->
  step fuel sy pp s (RAdd v q) = (s, AErr EValue).
Proof. exact step_add_rejects. Qed.
Print Assumptions rejected_add_leaves_state.

Theorem rejected_divide_leaves_state : forall fuel sy pp s v x q,
  nth_error (vars sy) v = Some x ->
  error_cell (v_unit x) (p_unit q) (size_one q) ODivide = true ->
  step fuel sy pp s (RDivide v q) = (s, AErr EValue).
Proof. exact step_divide_rejects. Qed.
Print Assumptions rejected_divide_leaves_state.

(** The same for the options of a dependency request inside a formula, whatever evaluates
    the dependencies ([rec]): both options, an unknown option, and every ADD / DIVIDE error
    cell are refused without touching the state. *)
Theorem option_error_cell_always_rejected :
  forall (S : Type) (rec : S -> nat -> period -> S * res val) sy c s v x q o,
  nth_error (vars sy) v = Some x -> o <> OPlain ->
  error_cell (v_unit x) (p_unit q) (size_one q) o = true ->
  snd (call rec sy c s v q o) = Err EValue /\ fst (call rec sy c s v q o) = s.
Proof. exact @call_rejects. Qed.
Print Assumptions option_error_cell_always_rejected.

(** A cell that is not an error cell passes every period check, for every start date: *)
Theorem accepted_plain_passes_check : forall x q,
  error_cell (v_unit x) (p_unit q) (size_one q) OPlain = false -> check_consistency x q = Ok tt.
Proof. exact matrix_accepts_plain. Qed.
Print Assumptions accepted_plain_passes_check.

Theorem accepted_add_sums_subperiods : forall fuel sy pp inp s v x q,
  nth_error (vars sy) v = Some x ->
  error_cell (v_unit x) (p_unit q) (size_one q) OAdd = false ->
  exists subs, subperiods q (v_unit x) = Ok subs
    /\ step fuel sy pp s (RAdd v q) =
       (let '(s1, a) := sum_calc (calc fuel sy pp) s v subs None in (s1, of_res a))
    /\ sem_answer sy pp inp (RAdd v q) = of_res (snd (sum_calc (sem_rec sy pp inp) tt v subs None)).
Proof. exact matrix_accepts_add. Qed.
Print Assumptions accepted_add_sums_subperiods.

Theorem accepted_divide_uses_enclosing : forall fuel sy pp inp s v x q,
  nth_error (vars sy) v = Some x ->
  error_cell (v_unit x) (p_unit q) (size_one q) ODivide = false ->
  exists den, divide_denominator q (enclosing (v_unit x) (p_start q)) = Ok den
    /\ step fuel sy pp s (RDivide v q) =
       (let '(s1, r) := calc fuel sy pp s v (enclosing (v_unit x) (p_start q)) in (s1, quot_answer r den))
    /\ sem_answer sy pp inp (RDivide v q)
       = quot_answer (sem sy pp inp v (enclosing (v_unit x) (p_start q))) den.
Proof. exact matrix_accepts_divide. Qed.
Print Assumptions accepted_divide_uses_enclosing.

(** the value claims above are about accepted cells *)
Theorem claimed_cells_are_accepted : forall du ru,
  (same_family ru du = true -> forall one, error_cell du ru one OAdd = false)
  /\ (same_family du ru = true -> error_cell du ru true ODivide = false).
Proof. exact claimed_cells_accepted. Qed.
Print Assumptions claimed_cells_are_accepted.

(** ** The classes of the property text, one by one *)

Theorem add_empty_or_eternal_rejected : forall fuel sy pp s v x q,
  nth_error (vars sy) v = Some x -> v_unit x = Eternity \/ p_unit q = Eternity ->
  step fuel sy pp s (RAdd v q) = (s, AErr EValue).
Proof. exact add_eternal_rejected. Qed.
Print Assumptions add_empty_or_eternal_rejected.

Theorem add_over_shorter_period_rejected : forall fuel sy pp s v x q,
  nth_error (vars sy) v = Some x -> unit_weight (p_unit q) < unit_weight (v_unit x) ->
  step fuel sy pp s (RAdd v q) = (s, AErr EValue).
Proof. exact add_shorter_rejected. Qed.
Print Assumptions add_over_shorter_period_rejected.

Theorem divide_eternal_or_sized_rejected : forall fuel sy pp s v x q,
  nth_error (vars sy) v = Some x ->
  v_unit x = Eternity \/ p_unit q = Eternity \/ p_size q <> 1 ->
  step fuel sy pp s (RDivide v q) = (s, AErr EValue).
Proof. exact divide_eternal_or_long_rejected. Qed.
Print Assumptions divide_eternal_or_sized_rejected.

(** ** Non-vacuity *)

Definition ex_pop : popu :=
  {| grp := {| Group.g_entity := {| Group.e_key := "household"%string; Group.e_roles := []; Group.e_containing := [] |};
               Group.g_count := 1; Group.g_ids := [0; 0]%nat; Group.g_roles := [0; 0]%nat |} |}.

(** v0: eternal input; v1: monthly, value 100*month + day-of-start + v0; v2: daily, value = day;
    v3: yearly wrapper = ADD of v1 over the year; v4: yearly, value = year *)
Definition ex_sys : sys :=
  {| vars := [ mk_var EPerson TInt Eternity None [] 0 false false;
               mk_var EPerson TInt Month None
                 [((1, 1, 1), EBin BAdd (EBin BAdd (EBin BMul (EConst 100) (EField FMonth)) (EField FDay))
                                (EDep 0 PSame OPlain))] 0 false false;
               mk_var EPerson TInt Day None [((1, 1, 1), EField FDay)] 0 false false;
               mk_var EPerson TInt Year None [((1, 1, 1), EDep 1 PSame OAdd)] 0 false false;
               mk_var EPerson TInt Year None [((1, 1, 1), EField FYear)] 0 false false ];
     params := []; switches := []; max_loops := 1 |}.
Definition ex_inp : inputs := [((0%nat, eternity_period), [1; 2])].

Example ex_hypotheses :
  ranked ex_sys = true /\ (1 <= max_loops ex_sys)%nat /\ Top ex_sys ex_pop ex_inp (init ex_inp)
  /\ wf (Year, (2020, 1, 1), 2) /\ same_family Year Month = true /\ aligned Month (2020, 1, 1).
Proof.
  split; [reflexivity|]. split; [apply le_n|]. split; [apply Top_init|].
  split; [split; [discriminate|split; [reflexivity|discriminate]]|]. split; reflexivity.
Qed.

(** months of 2020-2021: sum of 100*m + 1 + v0 over 24 months = 2*7800 + 24 + 24*v0 *)
Example ex_add :
  snd (step (enough_fuel ex_sys) ex_sys ex_pop (init ex_inp) (RAdd 1 (Year, (2020, 1, 1), 2)))
  = AVal [15648; 15672].
Proof. vm_compute. reflexivity. Qed.

(** days of February 2020 (leap): 1 + ... + 29 *)
Example ex_add_days :
  snd (step (enough_fuel ex_sys) ex_sys ex_pop (init ex_inp) (RAdd 2 (Month, (2020, 2, 1), 1)))
  = AVal [435; 435].
Proof. vm_compute. reflexivity. Qed.

(** the year's value over the 366 days of 2020, asked for 29 February *)
Example ex_divide :
  snd (step (enough_fuel ex_sys) ex_sys ex_pop (init ex_inp) (RDivide 4 (Day, (2020, 2, 29), 1)))
  = AQuot [2020; 2020] 366
  /\ enclosing Year (2020, 2, 29) = (Year, (2020, 1, 1), 1)
  /\ count_in (Year, (2020, 1, 1), 1) Day = 366.
Proof. vm_compute. repeat split. Qed.

(** an error cell and a served cell, on the machine; a refused option inside a formula *)
Example ex_cells :
  error_cell Month Week true OAdd = true
  /\ step (enough_fuel ex_sys) ex_sys ex_pop (init ex_inp) (RAdd 1 (Week, (2020, 12, 28), 1))
     = (init ex_inp, AErr EValue)
  /\ error_cell Year Month true OPlain = true
  /\ snd (step (enough_fuel ex_sys) ex_sys ex_pop (init ex_inp) (RCalc 4 (Month, (2020, 1, 1), 1)))
     = AErr EValue
  /\ error_cell Year Year false OAdd = false
  /\ snd (step (enough_fuel ex_sys) ex_sys ex_pop (init ex_inp) (RAdd 4 (Year, (2019, 1, 1), 3)))
     = AVal [6060; 6060]
  /\ snd (step (enough_fuel ex_sys) ex_sys ex_pop (init ex_inp) (RCalc 3 (Year, (2020, 1, 1), 1)))
     = AVal [7824; 7836].
Proof. vm_compute. repeat split. Qed.

(** ** Tie to the regenerated guards

    coq/gen/Guards.v is re-emitted on every run from the Python text of
    Simulation._check_period_consistency, calculate_add, calculate_divide and
    CorePopulation.__call__ (harness/gen_tables.py, fail-closed); coq/model/GuardsSem.v reads
    the names it chooses among and re-assembles the decision points ([src_calc_divide],
    [src_call]).  The accept / reject decisions, the choice of the enclosing period and of the
    denominator, and the option dispatch that the theorems above are about are the ones
    written in the source now (the single statements are in props/GuardsTie.v). *)
From Verif Require Import GuardsTypes Guards GuardsSem GuardsProofs.

Theorem source_guards_are_model_guards :
  (forall x p, check_consistency x p
               = if gen_check_consistency (v_unit x) (p_unit p) (p_size p) then Err EValue else Ok tt)
  /\ (forall (S : Type) (rec : S -> nat -> period -> S * res val) s v x q,
        calc_add rec s v x q
        = if gen_add_guard (v_unit x) (p_unit q) then (s, Err EValue)
          else match subperiods q (v_unit x) with
               | Err e => (s, Err e)
               | Ok subs => sum_calc rec s v subs None
               end)
  /\ (forall (S : Type) (rec : S -> nat -> period -> S * res val) s v x q,
        calc_divide rec s v x q = src_calc_divide rec s v x q)
  /\ (forall x q, apply_named (gen_divide_period_choice (v_unit x)) q = divide_period x q)
  /\ (forall q cp, apply_size (gen_divide_denominator_choice (p_unit q)) cp = divide_denominator q cp)
  /\ (forall (S : Type) (rec : S -> nat -> period -> S * res val) sy c s v q o,
        call rec sy c s v q o = src_call rec sy c s v q o)
  /\ (forall o, gen_option_dispatch (opt_has_add o) (opt_has_divide o) (opt_is_sequence o)
                = match o with
                  | OPlain => DPlain | OAdd => DAdd | ODivide => DDivide
                  | OBoth => DIncompatible | OUnknown => DInvalid
                  end).
Proof.
  exact (conj check_consistency_is_source (conj calc_add_is_source (conj calc_divide_is_source
         (conj gen_divide_period_choice_is_model (conj gen_divide_denominator_choice_is_model
         (conj call_is_source gen_option_dispatch_table)))))).
Qed.
Print Assumptions source_guards_are_model_guards.
