(** C17 - Tracing and storage settings never change results; the evaluation stack is empty
    after every top-level request; the trace lists, for each calculated variable, exactly
    the variable-at-period calculations its formula performed, with the values returned.
    Only statements here; proofs are in proofs/EngineC17Proofs.v and proofs/EngineC17Trace.v.

    Vocabulary.  coq/model/Engine.v: [calc] is Simulation.calculate (cache, evaluation stack,
    cycle and spiral tests, purge), [step]/[run] are top-level requests, [v_nostore x] says
    that the holder of variable [x] skips the store (memory_config.variables_to_drop, or
    cache blacklist with opt_out_cache).  coq/model/EngineTrace.v: [calc_t]/[step_t]/[run_t]
    are the same with a FullTracer (tree of [TNode key value children] + cursor [opened]);
    [reads fuel sy pp s v p] is the list (variable, period, value or None) of the calls
    Simulation._calculate(v, p) makes to Simulation.calculate when started in machine state
    [s], recorded call by call by wrapping the untraced [calc] ([logged]) - no tree involved;
    [with_nostore flags sy] sets the store flags (what the correspondence check runs for a
    configuration).  proofs: [same_but_nostore sy1 sy2]: equal once the store flags are
    forgotten; [Top sy pp inp s] (C01): a state between two requests whose cache holds the
    inputs and otherwise meanings; [faithful sy pp n]: node [n] = TNode (v,p) value kids
    where value is what some machine calculation [calc f sy pp s v p] returned (None if it
    failed), [map summary kids = reads f sy pp s v p], and every kid is faithful;
    [extends sy pp tr tr']: [tr'] is closed (no current node) and is [tr] plus faithful trees. *)
From Coq Require Import ZArith List Bool Arith String.
From Verif Require Import Base Cal Period Engine EngineTrace EngineProofs EngineC17Proofs EngineC17Trace.
Import ListNotations.
Open Scope nat_scope.
Local Notation length := List.length.

(** ** Storage settings *)

(** Two simulations over rule systems that differ only in which variables skip the store,
    between two requests and on the same inputs, answer any sequence of calculate /
    calculate_add / calculate_divide requests identically (values and error kinds). *)
Theorem config_invariance : forall sy1 sy2 pp inp, same_but_nostore sy1 sy2 ->
  ranked sy1 = true -> 1 <= max_loops sy1 ->
  forall rs s1 s2, forallb is_calc_request rs = true -> Top sy1 pp inp s1 -> Top sy2 pp inp s2 ->
  snd (run (enough_fuel sy1) sy1 pp s1 rs) = snd (run (enough_fuel sy2) sy2 pp s2 rs).
Proof. exact config_invariance_run. Qed.
Print Assumptions config_invariance.

(** ... in the form the correspondence check runs: any two flag lists, fresh simulations *)
Theorem config_invariance_flags : forall sy pp inp fl1 fl2, ranked sy = true -> 1 <= max_loops sy ->
  forall rs, forallb is_calc_request rs = true ->
  snd (run (enough_fuel (with_nostore fl1 sy)) (with_nostore fl1 sy) pp (init inp) rs)
  = snd (run (enough_fuel (with_nostore fl2 sy)) (with_nostore fl2 sy) pp (init inp) rs).
Proof.
  intros sy pp inp fl1 fl2 Hr Hl rs Hrs.
  assert (H12 : same_but_nostore (with_nostore fl1 sy) (with_nostore fl2 sy)).
  { unfold same_but_nostore. rewrite (with_nostore_same fl1 sy), (with_nostore_same fl2 sy). reflexivity. }
  apply (config_invariance_run _ _ pp inp H12); auto using Top_init.
  now rewrite (ranked_same _ _ (with_nostore_same fl1 sy)).
Qed.
Print Assumptions config_invariance_flags.

(** the meaning itself does not read the flags *)
Theorem meaning_ignores_store_flags : forall sy1 sy2 pp inp v p, same_but_nostore sy1 sy2 ->
  sem sy1 pp inp v p = sem sy2 pp inp v p.
Proof. intros. now apply sem_same. Qed.
Print Assumptions meaning_ignores_store_flags.

(** ** Tracing *)

(** Switching the full tracer on changes neither the machine state (cache, stack, marks)
    nor any answer: every rule system (spirals, cycles, errors), every state, every
    request sequence (set_input, delete_arrays ... included), every store flags. *)
Theorem tracing_changes_nothing : forall rs fuel sy pp s tr,
  fst (fst (run_t fuel sy pp (s, tr) rs)) = fst (run fuel sy pp s rs)
  /\ snd (run_t fuel sy pp (s, tr) rs) = snd (run fuel sy pp s rs).
Proof. exact run_t_erase. Qed.
Print Assumptions tracing_changes_nothing.

(** ** The evaluation stack *)

(** Every calculation, successful or not, in any rule system and any state, returns with
    the evaluation stack it found. *)
Theorem stack_restored_by_calculate : forall fuel sy pp s v p,
  stack (fst (calc fuel sy pp s v p)) = stack s.
Proof. exact calc_stack. Qed.
Print Assumptions stack_restored_by_calculate.

Theorem stack_empty_after_request : forall fuel sy pp s r, stack s = [] ->
  stack (fst (step fuel sy pp s r)) = [].
Proof. intros fuel sy pp s r H. now rewrite step_stack. Qed.
Print Assumptions stack_empty_after_request.

(** after every request of any sequence (the rule system may change through switches) *)
Theorem stack_empty_after_every_request : forall rs fuel sy pp s s', stack s = [] ->
  In s' (states fuel sy pp s rs) -> stack s' = [].
Proof. intros rs fuel sy pp s s' H Hin. now rewrite (states_stack rs fuel sy pp s s' Hin). Qed.
Print Assumptions stack_empty_after_every_request.

(** with the tracer on as well: same stack, and the tracer's cursor is back to None *)
Theorem traced_request_closes : forall fuel sy pp s tr r, stack s = [] -> opened tr = [] ->
  stack (fst (fst (step_t fuel sy pp (s, tr) r))) = []
  /\ opened (snd (fst (step_t fuel sy pp (s, tr) r))) = [].
Proof.
  intros fuel sy pp s tr r Hs Ho. split.
  - rewrite (proj1 (step_t_erase fuel sy pp s tr r)). now rewrite step_stack.
  - now apply step_t_closed.
Qed.
Print Assumptions traced_request_closes.

(** ** What the trace records *)

(** A traced calculation adds exactly one node at the cursor: its key is the request, its
    value what the calculation returned, its children - in order - exactly the calculations
    its evaluation asked for with what they returned, each of them again such a record. *)
Theorem trace_lists_reads : forall fuel sy pp s tr v p,
  exists kids,
    calc_t fuel sy pp (s, tr) v p
    = ((fst (calc fuel sy pp s v p),
        add_node (TNode (v, p) (res_opt (snd (calc fuel sy pp s v p))) kids) tr),
       snd (calc fuel sy pp s v p))
    /\ map summary kids = reads fuel sy pp s v p
    /\ Forall (faithful sy pp) kids.
Proof. exact calc_t_spec. Qed.
Print Assumptions trace_lists_reads.

(** a top-level calculate: one new tree *)
Theorem trace_of_calculate_request : forall fuel sy pp s tr v p, opened tr = [] ->
  exists kids,
    snd (fst (step_t fuel sy pp (s, tr) (RCalc v p)))
    = {| trees := trees tr ++ [TNode (v, p) (res_opt (snd (calc fuel sy pp s v p))) kids]; opened := [] |}
    /\ map summary kids = reads fuel sy pp s v p
    /\ Forall (faithful sy pp) kids.
Proof. exact calc_request_tree. Qed.
Print Assumptions trace_of_calculate_request.

(** any top-level request (calculate_add: one tree per sub-period ...): only faithful trees
    are appended, nothing recorded earlier is touched *)
Theorem trace_of_any_request : forall fuel sy pp s tr r, opened tr = [] ->
  extends sy pp tr (snd (fst (step_t fuel sy pp (s, tr) r))).
Proof. exact step_t_extends. Qed.
Print Assumptions trace_of_any_request.

(** FlatTrace: the entry of a key gives the dependencies and value of the first node with
    that key in browsing order (later cache reads do not overwrite it). *)
Theorem flat_trace_entry : forall ts k,
  flat_lookup k (flat_trace ts)
  = option_map (fun n => (map n_key (n_children n), n_value n))
               (find (fun n => key_eqb k (n_key n)) (browse ts)).
Proof. exact flat_trace_first. Qed.
Print Assumptions flat_trace_entry.

(** ** Non-vacuity *)

Definition ex_pop : popu :=
  {| grp := {| Group.g_entity := {| Group.e_key := "household"%string; Group.e_roles := []; Group.e_containing := [] |};
               Group.g_count := 2; Group.g_ids := [0; 1; 0]; Group.g_roles := [0; 0; 0] |} |}.
Definition jan18 : period := (Month, (2018, 1, 1)%Z, 1%Z).
Definition y18 : period := (Year, (2018, 1, 1)%Z, 1%Z).

(** v0 monthly input; v1 = v0 + v0@last_month (monthly); v2 = ADD of v1 over the year + v1@first_month *)
Definition ex_sys : sys :=
  {| vars := [ mk_var EPerson TInt Month None [] 1%Z false false;
               mk_var EPerson TInt Month None
                 [((1, 1, 1)%Z, EBin BAdd (EDep 0 PSame OPlain) (EDep 0 PLastMonth OPlain))] 0%Z false false;
               mk_var EPerson TInt Year None
                 [((1, 1, 1)%Z, EBin BAdd (EDep 1 PSame OAdd) (EDep 1 PFirstMonth OPlain))] 0%Z false false ];
     params := []; switches := []; max_loops := 1 |}.
Definition ex_inp : inputs := [((0, jan18), [10; 20; 30]%Z)].
Definition ex_rs : list request := [RCalc 2 y18; RCalc 1 jan18; RAdd 1 y18].

Example ex_ranked : ranked ex_sys = true /\ 1 <= max_loops ex_sys.
Proof. split; [reflexivity|apply le_n]. Qed.

(** dropping the store of v1: another cache, the same answers *)
Example ex_flags_answers :
  snd (run (enough_fuel ex_sys) (with_nostore [false; true; false] ex_sys) ex_pop (init ex_inp) ex_rs)
  = snd (run (enough_fuel ex_sys) ex_sys ex_pop (init ex_inp) ex_rs)
  /\ nth 0 (snd (run (enough_fuel ex_sys) ex_sys ex_pop (init ex_inp) ex_rs)) ANone = AVal [53; 83; 113]%Z.
Proof. vm_compute. split; reflexivity. Qed.
Example ex_flags_caches_differ :
  length (cache (fst (run (enough_fuel ex_sys) (with_nostore [false; true; false] ex_sys) ex_pop (init ex_inp) ex_rs))) = 14
  /\ length (cache (fst (run (enough_fuel ex_sys) ex_sys ex_pop (init ex_inp) ex_rs))) = 26.
Proof. vm_compute. split; reflexivity. Qed.

(** the trace of calculate(v1, 2018-01): one tree, two children with their values *)
Example ex_trace :
  trees (snd (fst (step_t (enough_fuel ex_sys) ex_sys ex_pop (init ex_inp, tr_init) (RCalc 1 jan18))))
  = [TNode (1, jan18) (Some [11; 21; 31]%Z)
       [TNode (0, jan18) (Some [10; 20; 30]%Z) [];
        TNode (0, (Month, (2017, 12, 1)%Z, 1%Z)) (Some [1; 1; 1]%Z) []]]
  /\ reads (enough_fuel ex_sys) ex_sys ex_pop (init ex_inp) 1 jan18
     = [(0, jan18, Some [10; 20; 30]%Z); (0, (Month, (2017, 12, 1)%Z, 1%Z), Some [1; 1; 1]%Z)].
Proof. vm_compute. split; reflexivity. Qed.

(** a self-dependent (spiralling) system and a failing request: stack and cursor come back *)
Definition ex_spiral : sys :=
  {| vars := [ mk_var EPerson TInt Month None
                 [((1, 1, 1)%Z, EBin BAdd (EDep 0 PLastMonth OPlain) (EDep 1 PSame OPlain))] 0%Z false false;
               mk_var EPerson TInt Month None [((1, 1, 1)%Z, EDep 0 PSame OBoth)] 0%Z false true ];
     params := []; switches := []; max_loops := 2 |}.
Example ex_spiral_fails :
  let r := step_t (enough_fuel ex_spiral) ex_spiral ex_pop (init [], tr_init) (RCalc 0 jan18) in
  snd r = AErr EValue /\ stack (fst (fst r)) = [] /\ opened (snd (fst r)) = []
  /\ map n_value (trees (snd (fst r))) = [None] /\ length (browse (trees (snd (fst r)))) = 4.
Proof. vm_compute. repeat split; reflexivity. Qed.

(** ** Tie to the regenerated descriptions of the storages and of the holder

    coq/gen/GuardsStorage.v is re-emitted on every run from the Python text of get / put /
    delete (get_known_periods pinned to the dictionary's keys) of InMemoryStorage and
    OnDiskStorage, coq/gen/GuardsHolder.v from Holder.get_array / put_in_cache / _set /
    delete_arrays and the construction of the two storages (harness/gen_tables.py,
    fail-closed).  The memory and the disk storage have the same description: the same key
    for the same request, the same deletion rule - which is why keeping values in memory or
    on disk cannot change an answer; that description is [Engine.norm] / [delete_one] /
    [delete_arrays]; the holder only chooses WHERE a value is read or written, and on the
    merged cache ([merged], coq/model/GuardsHolderSem.v) that is [Engine.get_array] /
    [put_in_cache]. *)
From Verif Require Import GuardsTypes GuardsStorage GuardsStorageSem GuardsStorageProofs.
From Verif Require Import GuardsHolder GuardsHolderSem GuardsHolderProofs.

Theorem source_storages_are_model_storages :
  (* the two storages agree *)
  (forall is_eternal period_is_none,
     gen_memory_get_key is_eternal period_is_none = gen_disk_get_key is_eternal period_is_none
     /\ gen_memory_put_key is_eternal period_is_none = gen_disk_put_key is_eternal period_is_none
     /\ gen_memory_delete is_eternal period_is_none = gen_disk_delete is_eternal period_is_none)
  (* a value is found under the key it was stored under *)
  /\ (forall is_eternal period_is_none,
        gen_memory_get_key is_eternal period_is_none = gen_memory_put_key is_eternal period_is_none)
  (* the key is the engine's, whichever storage _set chooses *)
  /\ (forall x p, norm x p = apply_key (gen_memory_get_key (unit_eqb (v_unit x) Eternity) false) p)
  /\ (forall c x p, store_key c x p = norm x p)
  (* deletion *)
  /\ (forall sy k c, delete_one sy k c = src_delete_one sy k c)
  /\ (forall sy s v p, delete_arrays sy s v p = src_delete_arrays sy s v p)
  (* the holder on the merged cache *)
  /\ (forall pp x s mem disk has_disk v p, merged (cache s) mem disk has_disk ->
        get_array pp x s v p = src_get_array pp x mem disk has_disk v p)
  /\ (forall dns oo ne inb x v p a s, v_nostore x = dns || (oo && ne && inb) ->
        put_in_cache x v p a s = src_put_in_cache dns oo ne inb x v p a s).
Proof.
  exact (conj storages_agree (conj get_key_is_put_key (conj norm_is_source_get
        (conj store_key_is_norm (conj delete_one_is_source (conj delete_arrays_is_source
        (conj get_array_is_source put_in_cache_is_source))))))).
Qed.
Print Assumptions source_storages_are_model_storages.
