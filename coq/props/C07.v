(** C07 - Every way of reading parameters returns the tree's current values.
    Only statements here; proofs are in proofs/ParamCacheProofs.v.  All statements are
    about the functions of model/ParamCache.v that corr/Corr_C07.v runs against the
    implementation: [wstep] / [wrun] in mode [Fixed] (a world of systems - baseline,
    reforms, reforms of reforms - each with its own cache; load_parameters, modifiers),
    [read_view], [read_direct], [read_traced] (the routes), [vector_lookup] /
    [apply_tail] (fancy indexing), [asof_lookup] (indexing by dates).  Mode [NoCache] is
    the same world WITHOUT any cache: every read evaluates [at_instant] of the tree the
    system holds ([get_parameters_at_instant NoCache s i = (s, at_instant (s_root s) i)]).  The vocabulary of the
    statements is in model/ParamCacheSpec.v.  Dates are ordinals. *)
From Coq Require Import ZArith List Bool String.
From Verif Require Import Base Cal Param ParamCache ParamCacheSpec ParamCacheProofs.
Import ListNotations.
Open Scope Z_scope.
Open Scope string_scope.

(** ** Reads never see a cache: in a world of systems (a baseline, reforms over it,
    reforms of reforms), after ANY interleaving of reads on any system with replacements
    of any system's tree (load / assignment, new reforms, modifiers), every answer of
    every route is the one of the world without caches, i.e. computed from [at_instant]
    of the tree held by the system that is read *)

Theorem views_agree : forall (t0 : tree) (ops : list (nat * op)),
  forallb documented ops = true ->
  wrun Fixed (init t0) ops = wrun NoCache (init t0) ops.
Proof. exact views_agree_init. Qed.
Print Assumptions views_agree.

(** the invariant behind it: each system's cache is part of the graph of [at_instant] of
    that system's current tree whenever it carries the identity of that tree; it holds
    initially, is kept by every documented operation on any system (the cache is dropped
    at each reassignment of the tree, a new reform starts without a valid cache), and
    from any world that satisfies it the answers are those of the cache-free world *)
Theorem views_agree_from_invariant : forall (ops : list (nat * op)) (w w0 : world),
  world_ok w -> same_world w w0 -> forallb documented ops = true ->
  wrun Fixed w ops = wrun NoCache w0 ops.
Proof. exact views_agree_gen. Qed.
Print Assumptions views_agree_from_invariant.

Theorem cache_invariant_reachable : forall (t0 : tree) (ops : list (nat * op)),
  forallb documented ops = true -> world_ok (wexec Fixed (init t0) ops).
Proof. exact reachable_ok_init. Qed.
Print Assumptions cache_invariant_reachable.

(** in every reachable world, one more read by any route at any date on ANY system
    answers from the tree THAT system holds *)
Theorem read_returns_current_tree : forall (t0 : tree) (ops : list (nat * op)) (k : nat) (s : sys)
    (r : route) (p : path) (i : Z) (t : tail),
  forallb documented ops = true ->
  let w := wexec Fixed (init t0) ops in
  nth_error (w_sys w) k = Some s ->
  snd (wstep Fixed w (k, Read r p i t)) = read_spec (s_root s) r p i t.
Proof. exact read_current. Qed.
Print Assumptions read_returns_current_tree.

(** the at-instant view handed out is the view of the system's current tree, whatever
    was read before *)
Theorem get_parameters_at_instant_is_current : forall (n : nat) (s : sys) (i : Z),
  cache_ok n s ->
  let '(s', ov) := get_parameters_at_instant Fixed s i in
  ov = at_instant (s_root s) i /\ cache_ok n s' /\ same_trees s' s.
Proof. exact get_parameters_at_instant_current. Qed.
Print Assumptions get_parameters_at_instant_is_current.

(** ** The parameter object itself and the system view give the same object.  Member
    names of a node are distinct ([wf_tree]: they are dict keys); a leaf without value at
    the date is None on one side and ParameterNotFoundError on the other. *)

Theorem routes_agree : forall (root st : tree) (v : view) (p : path) (i : Z) (t : tail),
  wf_tree root -> subtree root p = Ok st -> at_instant root i = Some v ->
  match at_instant st i with
  | Some w => read_direct root p i t = apply_tail w t /\ read_view (Some v) p t = apply_tail w t
  | None => read_direct root p i t = (match t with TWhole => Ok RNone | _ => Err EType end) /\
            read_view (Some v) p t = Err ENotFound
  end.
Proof. exact routes_agree_lemma. Qed.
Print Assumptions routes_agree.

Theorem routes_agree_on_missing_paths : forall (p : path) (root : tree) (v : view) (i : Z) (e : err),
  wf_tree root -> subtree root p = Err e -> at_instant root i = Some v ->
  exists e', view_get v p = Err e'.
Proof. exact missing_in_both. Qed.
Print Assumptions routes_agree_on_missing_paths.

(** distinct member names are kept by every operation (loaded trees have them) *)
Theorem unique_names_reachable : forall (m : mode) (ops : list (nat * op)) (w : world),
  wf_world w -> Forall wf_op ops -> wf_world (wexec m w ops).
Proof. exact wexec_wf. Qed.
Print Assumptions unique_names_reachable.

(** ** The tracing wrapper is transparent: same state, same answer as the untraced
    formula, which is the answer of the system view *)

Theorem tracing_transparent : forall (m : mode) (w : world) (k : nat) (p : path) (i : Z) (t : tail),
  fst (wstep m w (k, Read (RFormula true) p i t)) = fst (wstep m w (k, Read (RFormula false) p i t)) /\
  fst (snd (wstep m w (k, Read (RFormula true) p i t))) = fst (snd (wstep m w (k, Read (RFormula false) p i t))) /\
  fst (snd (wstep m w (k, Read (RFormula false) p i t))) = fst (snd (wstep m w (k, Read RSystem p i t))).
Proof. exact tracing_transparent_lemma. Qed.
Print Assumptions tracing_transparent.

Theorem tracing_wrapper_forwards : forall (ov : option view) (p : path) (t : tail),
  fst (read_traced ov p t) = read_view ov p t.
Proof. exact read_traced_transparent. Qed.
Print Assumptions tracing_wrapper_forwards.

(** what the tracer is told for a plain read of a leaf: the value that was returned *)
Theorem tracing_records_the_value : forall (v : view) (p : path) (z : Z),
  view_get v p = Ok (VValue z) -> p <> [] ->
  exists nm, read_traced (Some v) p TWhole = (Ok (RView (VValue z)), [(nm, RView (VValue z))]).
Proof. exact traced_leaf_recorded. Qed.
Print Assumptions tracing_records_the_value.

(** ** Fancy indexing by names is element-wise *)

Theorem vector_lookup_pointwise : forall (v : view) (keys : list string) (rows : list view),
  vector_lookup v keys = Ok rows -> mapM (scalar_lookup v) keys = Ok rows.
Proof. exact vector_lookup_pointwise_lemma. Qed.
Print Assumptions vector_lookup_pointwise.

(** on a group that passes the homogeneity check the whole behaviour: the first key
    decides between numpy's "no field of name" and the element-wise lookups *)
Theorem vector_lookup_total : forall (ch : list (string * view)) (k0 : string) (keys : list string),
  check_node_vectorisable (VNode ch) = Ok tt ->
  vector_lookup (VNode ch) (k0 :: keys) =
    match find_child k0 ch with
    | None => Err EValue
    | Some _ => mapM (scalar_lookup (VNode ch)) (k0 :: keys)
    end.
Proof. exact vector_lookup_eq. Qed.
Print Assumptions vector_lookup_total.

(** a key without member is refused: ParameterNotFoundError ([ENotFound]) - except
    when it is the FIRST key, which numpy refuses earlier with a ValueError *)
Theorem vector_lookup_unknown_key : forall (ch : list (string * view)) (k0 : string) (keys : list string),
  check_node_vectorisable (VNode ch) = Ok tt ->
  (exists k, In k (k0 :: keys) /\ find_child k ch = None) ->
  vector_lookup (VNode ch) (k0 :: keys) =
    Err (match find_child k0 ch with None => EValue | Some _ => ENotFound end).
Proof. exact vector_lookup_unknown_lemma. Qed.
Print Assumptions vector_lookup_unknown_key.

(** chains node[keys][keys']...field: element j is the object reached from the group
    along keys[j], keys'[j], ..., field *)
Theorem vector_chain_pointwise : forall (v : view) (keys : list string) (steps : list vstep) (rows : list view),
  Forall (same_length (List.length keys)) steps ->
  apply_tail v (TVec keys steps) = Ok (RRows rows) ->
  List.length rows = List.length keys /\
  forall j r, nth_error rows j = Some r ->
    exists k ns, nth_error keys j = Some k /\ step_names j steps = Some ns /\
                 view_get v (k :: ns) = Ok r.
Proof. exact tail_vec_pointwise. Qed.
Print Assumptions vector_chain_pointwise.

(** ** Indexing by dates is element-wise UNDER THE PRECONDITION THE CODE RELIES ON: the
    group is homogeneous, its first declared member is its only "before..." member,
    every other member is named after_<date>, and these are declared in chronological
    order.  Then each date gets the member in force at that date ([in_force]). *)

Theorem asof_pointwise : forall (b : string) (v0 : view) (rest : list (string * view))
    (afters : list (Z * view)) (dates : list Z),
  classify_asof b = ABefore ->
  Forall2 dated rest afters -> afters <> [] -> chrono afters ->
  check_node_vectorisable (VNode ((b, v0) :: rest)) = Ok tt ->
  asof_lookup (VNode ((b, v0) :: rest)) dates = Ok (RRows (map (in_force v0 afters) dates)).
Proof. exact asof_pointwise_lemma. Qed.
Print Assumptions asof_pointwise.

Theorem asof_without_dated_member : forall (b : string) (v0 : view) (dates : list Z),
  classify_asof b = ABefore ->
  check_node_vectorisable (VNode [(b, v0)]) = Ok tt ->
  asof_lookup (VNode [(b, v0)]) dates = Ok (RView v0).
Proof. exact asof_no_dated_member. Qed.
Print Assumptions asof_without_dated_member.

(** ** The defect that was repaired stays visible: with the memo of the old code
    (functools.lru_cache keyed by system and instant, cleared by nothing) three
    documented operations suffice to read a value the tree no longer defines *)

Theorem views_agree_refuted_lru :
  exists (t0 : tree) (ops : list (nat * op)),
    List.length ops = 3%nat /\ forallb documented ops = true /\
    wrun Lru (init t0) ops <> wrun NoCache (init t0) ops.
Proof. exact views_agree_refuted_lru_lemma. Qed.
Print Assumptions views_agree_refuted_lru.

(** * Non-vacuity *)

Definition ex_leaf (z : Z) : tree := TParam [(100, Some z)].
Definition ex_tree : tree :=
  TNode [("a", TNode [("b", ex_leaf 1); ("late", TParam [(500, Some 9)])]);
         ("zones", TNode [("z1", ex_leaf 10); ("z2", ex_leaf 20)]);
         ("born", TNode [("before_2000_01_01", ex_leaf 1); ("after_2000_01_01", ex_leaf 2);
                         ("after_2010_06_01", ex_leaf 3)])].
Definition ex_tree2 : tree := TNode [("a", TNode [("b", ex_leaf 3)])].

(** views_agree: three systems - the baseline 0, a reform 1 with a modifier, a
    variables-only reform 2 of the baseline - with reads before and after every change;
    each system keeps answering from ITS OWN tree (baseline 1 then 3, reform 1: 77,
    reform 2: stays at 1 when the baseline is reloaded, also when the baseline is read
    first) *)
Example views_agree_nonvacuous :
  let rd := fun k r => (k, Read r ["a"; "b"] 200 TWhole) in
  let ops := [rd 0%nat RSystem;
              (0%nat, NewReform);                 (* system 1 *)
              rd 1%nat (RFormula true);
              (1%nat, Modify [MUpd ["a"; "b"] (150, None, Some 77)] true);
              rd 1%nat RSystem; rd 1%nat (RFormula false); rd 1%nat RDirect;
              (0%nat, NewReform);                 (* system 2: no modifier *)
              rd 2%nat RSystem; rd 0%nat RSystem;
              (0%nat, Load ex_tree2);
              rd 0%nat RSystem; rd 2%nat RSystem; rd 2%nat (RFormula true); rd 1%nat RSystem] in
  forallb documented ops = true /\
  map fst (wrun Fixed (init ex_tree) ops) =
    [Ok (RView (VValue 1)); Ok RNone; Ok (RView (VValue 1)); Ok RNone; Ok (RView (VValue 77));
     Ok (RView (VValue 77)); Ok (RView (VValue 77)); Ok RNone; Ok (RView (VValue 1)); Ok (RView (VValue 1));
     Ok RNone; Ok (RView (VValue 3)); Ok (RView (VValue 1)); Ok (RView (VValue 1)); Ok (RView (VValue 77))].
Proof. vm_compute. split; reflexivity. Qed.

(** a modifier starts from the baseline's CURRENT tree: after the baseline is reloaded,
    a second modify_parameters of the same reform builds on the new tree *)
Example modifier_reads_current_baseline :
  map fst (wrun Fixed (init ex_tree)
             [(0%nat, NewReform); (0%nat, Load ex_tree2);
              (1%nat, Modify [MUpd ["a"; "b"] (300, None, Some 5)] true);
              (1%nat, Read RSystem ["a"; "b"] 200 TWhole); (1%nat, Read RSystem ["a"; "b"] 400 TWhole)]) =
    [Ok RNone; Ok RNone; Ok RNone; Ok (RView (VValue 3)); Ok (RView (VValue 5))].
Proof. vm_compute. reflexivity. Qed.

(** the hypotheses of the invariant form are satisfiable by a world with a non-empty,
    valid cache: the one reached after a read *)
Example cache_invariant_nonvacuous :
  let w := wexec Fixed (init ex_tree) [(0%nat, Read RSystem ["a"; "b"] 200 TWhole)] in
  world_ok w /\
  exists s, nth_error (w_sys w) 0 = Some s /\ s_cache s <> [] /\ s_cached s = Some (s_rid s).
Proof.
  split; [apply cache_invariant_reachable; reflexivity|]. eexists. vm_compute.
  split; [reflexivity|]. split; [discriminate | reflexivity].
Qed.

(** in-place mutation of the live tree is NOT covered (it is not a documented route):
    the model, like the code, then answers from the stale view - and a reform that still
    shares the tree object sees the mutation too *)
Example poke_is_outside_the_claim :
  map fst (wrun Fixed (init ex_tree)
             [(0%nat, Read RSystem ["a"; "b"] 200 TWhole); (0%nat, NewReform);
              (0%nat, Poke ["a"; "b"] (150, None, Some 77));
              (0%nat, Read RSystem ["a"; "b"] 200 TWhole); (0%nat, Read RDirect ["a"; "b"] 200 TWhole);
              (1%nat, Read RSystem ["a"; "b"] 200 TWhole)]) =
    [Ok (RView (VValue 1)); Ok RNone; Ok RNone; Ok (RView (VValue 1)); Ok (RView (VValue 77));
     Ok (RView (VValue 77))].
Proof. vm_compute. reflexivity. Qed.

(** routes_agree: both cases of the statement occur *)
Example routes_agree_nonvacuous :
  (exists v st w, wf_tree ex_tree /\ subtree ex_tree ["a"; "b"] = Ok st /\ at_instant ex_tree 200 = Some v /\
                  at_instant st 200 = Some w /\ read_view (Some v) ["a"; "b"] TWhole = Ok (RView (VValue 1))) /\
  (exists v st, subtree ex_tree ["a"; "late"] = Ok st /\ at_instant ex_tree 200 = Some v /\
                at_instant st 200 = None /\ read_view (Some v) ["a"; "late"] TWhole = Err ENotFound /\
                read_direct ex_tree ["a"; "late"] 200 TWhole = Ok RNone).
Proof.
  split.
  - eexists; eexists; eexists. split.
    + cbn. repeat split; repeat constructor; cbn; intuition discriminate.
    + vm_compute. repeat split; reflexivity.
  - eexists; eexists. vm_compute. repeat split; reflexivity.
Qed.

Example routes_agree_on_missing_paths_nonvacuous :
  subtree ex_tree ["a"; "nope"] = Err EOther /\
  (exists v, at_instant ex_tree 200 = Some v /\ view_get v ["a"; "nope"] = Err ENotFound).
Proof. split; [reflexivity|]. eexists. vm_compute. split; reflexivity. Qed.

(** tracing: a traced read returns the value and records it under its dotted name *)
Example tracing_nonvacuous :
  snd (wstep Fixed (init ex_tree) (0%nat, Read (RFormula true) ["a"; "b"] 200 TWhole)) =
    (Ok (RView (VValue 1)), [("a.b", RView (VValue 1))]) /\
  snd (wstep Fixed (init ex_tree) (0%nat, Read (RFormula true) ["zones"] 200 (TVec ["z2"; "z1"] []))) =
    (Ok (RRows [VValue 20; VValue 10]), [("zones", RRows [VValue 20; VValue 10])]).
Proof. vm_compute. split; reflexivity. Qed.

(** vector lookups: a successful one, an unknown key later and first *)
Example vector_lookup_nonvacuous :
  exists v, at_instant (TNode [("z1", ex_leaf 10); ("z2", ex_leaf 20)]) 200 = Some v /\
    check_node_vectorisable v = Ok tt /\
    vector_lookup v ["z2"; "z1"; "z2"] = Ok [VValue 20; VValue 10; VValue 20] /\
    vector_lookup v ["z2"; "zz"] = Err ENotFound /\
    vector_lookup v ["zz"; "z2"] = Err EValue.
Proof. eexists. vm_compute. repeat split; reflexivity. Qed.

Example vector_chain_nonvacuous :
  let g := VNode [("a", VNode [("x", VValue 1); ("y", VValue 2)]);
                  ("b", VNode [("x", VValue 3); ("y", VValue 4)])] in
  Forall (same_length 3) [SKeys ["x"; "y"; "y"]] /\
  apply_tail g (TVec ["a"; "b"; "a"] [SKeys ["x"; "y"; "y"]]) = Ok (RRows [VValue 1; VValue 4; VValue 2]) /\
  apply_tail g (TVec ["a"; "b"; "a"] [SField "x"]) = Ok (RRows [VValue 1; VValue 3; VValue 1]).
Proof. vm_compute. repeat split; repeat constructor. Qed.

(** as-of lookups: the precondition holds for a group declared in order ... *)
Definition ex_d1 : Z := ord (2000, 1, 1).
Definition ex_d2 : Z := ord (2010, 6, 1).
Example asof_nonvacuous :
  let rest := [("after_2000_01_01", VValue 2); ("after_2010_06_01", VValue 3)] in
  let afters := [(ex_d1, VValue 2); (ex_d2, VValue 3)] in
  classify_asof "before_2000_01_01" = ABefore /\ Forall2 dated rest afters /\ chrono afters /\
  check_node_vectorisable (VNode (("before_2000_01_01", VValue 1) :: rest)) = Ok tt /\
  asof_lookup (VNode (("before_2000_01_01", VValue 1) :: rest)) [ex_d1 - 1; ex_d1; ex_d2 - 1; ex_d2; ex_d2 + 5000]
    = Ok (RRows [VValue 1; VValue 2; VValue 2; VValue 3; VValue 3]).
Proof.
  cbv zeta. split; [reflexivity|]. split; [|split; [|split]].
  - repeat constructor.
  - vm_compute. intuition discriminate.
  - reflexivity.
  - vm_compute. reflexivity.
Qed.

(** ... and is needed: declared out of order (or the "before" member not first), the
    same dates get other members than the ones in force *)
Example asof_precondition_needed :
  asof_lookup (VNode [("before_2000_01_01", VValue 1); ("after_2010_06_01", VValue 3); ("after_2000_01_01", VValue 2)])
              [ex_d1; ex_d2] = Ok (RRows [VValue 3; VValue 2]) /\
  asof_lookup (VNode [("after_2000_01_01", VValue 2); ("before_2000_01_01", VValue 1); ("after_2010_06_01", VValue 3)])
              [ex_d1 - 1; ex_d1] = Ok (RRows [VValue 2; VValue 1]) /\
  asof_lookup (VNode [("after_2000_01_01", VValue 2); ("after_2010_06_01", VValue 3)]) [ex_d2] = Err EIndex.
Proof. vm_compute. repeat split; reflexivity. Qed.

(** the witness of the old defect, spelled out: view 1, tree 3 *)
Example lru_witness_spelled_out :
  wrun Lru (init lru_tree1) lru_witness =
    [(Ok (RView (VValue 1)), []); (Ok RNone, []); (Ok (RView (VValue 1)), [])] /\
  wrun Fixed (init lru_tree1) lru_witness =
    [(Ok (RView (VValue 1)), []); (Ok RNone, []); (Ok (RView (VValue 3)), [])].
Proof. vm_compute. split; reflexivity. Qed.
