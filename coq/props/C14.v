(** C14 - Reforms and system copies leave the system they derive from untouched.
    Only statements here; proofs are in proofs/SystemsProofs.v. *)
From Coq Require Import ZArith List Bool Arith.
From Verif Require Import Base Obs Cal Period Param Engine EngineProofs Systems SystemsProofs.
Import ListNotations.

(** The base system of a world is the given rule system itself. *)
Theorem base_is_itself : forall y0 ny sy, to_sys y0 ny (of_sys sy) = sy.
Proof. exact to_sys_of_sys. Qed.
Print Assumptions base_is_itself.
