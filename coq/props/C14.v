(** C14 - Reforms and system copies leave the system they derive from untouched; the derived
    system computes the original rules with the declared changes.
    Only statements here; proofs are in proofs/SystemsProofs.v.

    Vocabulary (coq/model/Systems.v).  A [world] is the list of systems built so far (the base
    first) and a heap of entity objects, each bound to the system it resolves variable names
    in.  [run_dops false w ops] performs derivations: [DClone i] (system.clone()), [DReform i
    ms] (a Reform subclass of system i whose apply() performs the modifications ms; reforms
    chain by naming a reform as i), [DMod j m] (modification m of system j in place);
    [target_of] is the system a derivation modifies in place, if any.  Modifications:
    [AddVar], [UpdateVar], [ReplaceVar], [Neutralize], [Annualize], [ModifyParams] (the
    modifier function of a reform), [EditParams] (edits of the tree a copy owns).
    [to_sys y0 ny s] are the rules of system [s] as the engine runs them (Engine.v); [sem] is
    the engine's meaning of a request, [calc] / [run] the machine (C01).
    [entities_bound w]: every entity object of system i is bound to system i - true of
    [initial s] and kept by every derivation.
    Observations of system i: [look] (the variable table through the system and through
    each of its entities - the path population -> entity -> system -, and the parameters at
    given dates), [eval_fresh] / [eval_on] (answers of the machine on a new / a long-lived
    simulation), [sem_in] (the meaning of a request). *)
From Coq Require Import ZArith List Bool Arith String.
From Verif Require Import Base Obs Cal Period Param ParamProofs Engine EngineProofs Systems SystemsProofs.
Import ListNotations.
Open Scope nat_scope.
Local Notation length := List.length.

(** ** Sentence 1: the source is untouched *)

(** For every sequence of derivations and modifications none of which modifies system i in
    place: system i is the same value as before (variable table, parameters), its entities
    still resolve names in system i, and every observation of it - definitions through the
    system and through the entities, parameters at any dates, the machine's answers on a new
    or on an existing simulation, the meaning of any request - is what it was. *)
Theorem derivation_frame : forall os w i e,
  entities_bound w -> nth_error (w_entries w) i = Some e ->
  (forall o, In o os -> target_of o <> Some i) ->
  let w' := run_dops false w os in
  nth_error (w_entries w') i = Some e
  /\ entities_bound w'
  /\ (forall k id, nth_error (e_ents e) k = Some id -> resolve w' i k = Some i)
  /\ (forall nnames ds, look w' i nnames ds = look w i nnames ds)
  /\ (forall y0 ny pp s rs, eval_on y0 ny w' i pp s rs = eval_on y0 ny w i pp s rs)
  /\ (forall y0 ny pp inputs rs, eval_fresh y0 ny w' i pp inputs rs = eval_fresh y0 ny w i pp inputs rs)
  /\ (forall y0 ny pp inp v p, sem_in y0 ny w' i pp inp v p = sem_in y0 ny w i pp inp v p).
Proof. exact derivation_frame_lemma. Qed.
Print Assumptions derivation_frame.

Theorem base_world_bound : forall s, entities_bound (initial s).
Proof. exact initial_bound. Qed.
Print Assumptions base_world_bound.

(** The base system of a world is the given rule system itself. *)
Theorem base_is_itself : forall y0 ny sy, to_sys y0 ny (of_sys sy) = sy.
Proof. exact to_sys_of_sys. Qed.
Print Assumptions base_is_itself.

(** Before the repair of F14, clone() shared the entity objects and re-bound them to the
    copy ([run_dops true]): neutralising a variable of the copy changed what the original's
    entities show, although no derivation targets the original. *)
Theorem clone_shares_refuted :
  let w := initial refuted_sys in
  (forall o, In o refuted_ops -> target_of o <> Some 0)
  /\ look (run_dops true w refuted_ops) 0 1 [] <> look w 0 1 []
  /\ resolve (run_dops true w refuted_ops) 0 0 = Some 1
  /\ look (run_dops false w refuted_ops) 0 1 [] = look w 0 1 [].
Proof. exact clone_shares_refuted_lemma. Qed.
Print Assumptions clone_shares_refuted.

(** ** Sentence 2: the derived system is the original with the declared changes *)

(** A copy starts as the system it was copied from, with entity objects of its own bound to it. *)
Theorem clone_copies : forall w i e w',
  nth_error (w_entries w) i = Some e -> apply_dop false w (DClone i) = Ok w' ->
  exists e', nth_error (w_entries w') (length (w_entries w)) = Some e'
  /\ e_sys e' = e_sys e /\ e_base e' = e_base e
  /\ (forall id, In id (e_ents e') -> ~ In id (e_ents e) \/ length (w_heap w) <= id)
  /\ (forall id, In id (e_ents e') -> nth_error (w_heap w') id = Some (length (w_entries w))).
Proof. exact clone_copies_lemma. Qed.
Print Assumptions clone_copies.

(** A modification of variable v leaves every other variable and the parameters as they
    were; a parameter edit leaves the variables as they were. *)
Theorem modification_touches_only_its_variable : forall s m s', apply_var_mod s m = Ok s' ->
  match mod_name m with
  | Some v => (forall u, u <> v -> nth_error (s_vars s') u = nth_error (s_vars s) u) /\ s_params s' = s_params s
  | None => s_vars s' = s_vars s
  end.
Proof. exact var_mod_rest_lemma. Qed.
Print Assumptions modification_touches_only_its_variable.

(** update_variable: the attributes the class does not define are the old ones ([decl o old]
    is o's content when the class defines it, else old); the formulas are exactly the old
    ones dated before the first new formula, and the new ones. *)
Theorem update_inherits : forall s v d s' x,
  nth_error (s_vars s) v = Some x -> apply_var_mod s (UpdateVar v d) = Ok s' ->
  exists x', nth_error (s_vars s') v = Some x'
  /\ (forall u, u <> v -> nth_error (s_vars s') u = nth_error (s_vars s) u)
  /\ s_params s' = s_params s
  /\ sv_ent x' = decl (d_ent d) (sv_ent x) /\ sv_type x' = decl (d_type d) (sv_type x)
  /\ sv_unit x' = decl (d_unit d) (sv_unit x) /\ sv_default x' = decl (d_default d) (sv_default x)
  /\ sv_end x' = match d_end d with Some e => Some e | None => sv_end x end
  /\ sv_neutral x' = false
  /\ (forall f, In f (sv_formulas x') <->
        (In f (sv_formulas x)
         /\ match d_formulas d with [] => True | (d0, _) :: _ => date_ltb (f_start f) d0 = true end)
        \/ (f_wrapped f = false /\ In (f_start f, f_body f) (d_formulas d))).
Proof. exact update_inherits_lemma. Qed.
Print Assumptions update_inherits.

(** neutralize_variable: the meaning of the variable is its default whatever the inputs, so is
    the machine's answer in any state, and set_input on it changes nothing. *)
Theorem neutralised_spec : forall y0 ny s v x s',
  nth_error (s_vars s) v = Some x -> apply_var_mod s (Neutralize v) = Ok s' ->
  let sy' := to_sys y0 ny s' in
  exists x', nth_error (vars sy') v = Some x'
  /\ v_default x' = sv_default x /\ v_unit x' = sv_unit x /\ v_ent x' = sv_ent x /\ v_neutral x' = true
  /\ (forall u, u <> v -> nth_error (s_vars s') u = nth_error (s_vars s) u)
  /\ s_params s' = s_params s
  /\ (forall pp inp p, sem sy' pp inp v p =
        match check_consistency x' p with Err e => Err e | Ok _ => Ok (default_array pp x') end)
  /\ (forall pp st fuel p, snd (calc (S fuel) sy' pp st v p) =
        match check_consistency x' p with Err e => Err e | Ok _ => Ok (default_array pp x') end)
  /\ (forall pp st p a, fst (set_input sy' pp st v p a) = st).
Proof. exact neutralised_spec_lemma. Qed.
Print Assumptions neutralised_spec.

(** annualize_variable, on the rules.  System s' is s with month variable v annualised; s is
    ranked (C01) and v is not already annualised or neutralised.  For every year y of the
    window and every month m of it for which no input is given: the meaning of v at that month
    in s' is the meaning of v at January y in the ORIGINAL system s (cast to v's type, which
    changes nothing for a value of that type).  [pick .. = Some _]: some formula of v is in
    force in January; the end date, if any, is not before the month. *)
Theorem annualised_spec : forall y0 ny s v x s' k m e w pp inp,
  nth_error (s_vars s) v = Some x -> apply_var_mod s (Annualize v) = Ok s' ->
  ranked (to_sys y0 ny s) = true -> 1 <= s_loops s ->
  sv_unit x = Month -> has_wrapped (sv_formulas x) = false -> sv_neutral x = false ->
  (1 <= y0)%Z -> k < ny -> (2 <= m <= 12)%Z ->
  pick (sv_formulas x) ((y0 + Z.of_nat k)%Z, 1%Z, 1%Z) None = Some (e, w) ->
  match sv_end x with Some en => date_ltb en ((y0 + Z.of_nat k)%Z, m, 1%Z) = false | None => True end ->
  lookup (v, month_of (y0 + Z.of_nat k) m) inp = None ->
  sem (to_sys y0 ny s') pp inp v (month_of (y0 + Z.of_nat k) m)
  = rmap (cast (to_var y0 ny v x)) (sem (to_sys y0 ny s) pp inp v (jan (y0 + Z.of_nat k))).
Proof. exact annualised_spec_lemma. Qed.
Print Assumptions annualised_spec.

(** The same without any hypothesis on the rest of the system (other variables may be
    annualised too, the system need not be ranked): with one more unit of fuel, every month
    means what January of that year means in the derived system itself. *)
Theorem annualised_months_equal_january : forall y0 ny s v x s' k m e w,
  nth_error (s_vars s) v = Some x -> apply_var_mod s (Annualize v) = Ok s' ->
  sv_unit x = Month -> (1 <= y0)%Z -> k < ny -> (2 <= m <= 12)%Z ->
  pick (sv_formulas x) ((y0 + Z.of_nat k)%Z, m, 1%Z) None = Some (e, w) ->
  match sv_end x with Some en => date_ltb en ((y0 + Z.of_nat k)%Z, m, 1%Z) = false | None => True end ->
  forall pp inp fuel,
  lookup (v, month_of (y0 + Z.of_nat k) m) inp = None ->
  let sy' := to_sys y0 ny s' in
  meaning (S fuel) sy' pp inp v (month_of (y0 + Z.of_nat k) m)
  = rmap (cast (to_var y0 ny v (annualized x))) (meaning fuel sy' pp inp v (jan (y0 + Z.of_nat k))).
Proof. exact annualised_months_lemma. Qed.
Print Assumptions annualised_months_equal_january.

(** annualize_variable, on the machine, under the stated condition: between two requests, when
    the January value of v is in the cache and the month's is not, the machine answers the
    January value.  (Without the condition it does not: F20, example [ex_f20] below.) *)
Theorem annualised_machine_when_january_known : forall y0 ny s v x s' k m e w pp st fuel a,
  nth_error (s_vars s) v = Some x -> apply_var_mod s (Annualize v) = Ok s' ->
  sv_unit x = Month -> (1 <= y0)%Z -> k < ny -> (2 <= m <= 12)%Z ->
  pick (sv_formulas x) ((y0 + Z.of_nat k)%Z, m, 1%Z) None = Some (e, w) ->
  match sv_end x with Some en => date_ltb en ((y0 + Z.of_nat k)%Z, m, 1%Z) = false | None => True end ->
  1 <= s_loops s ->
  stack st = [] -> invalid st = [] ->
  lookup (v, jan (y0 + Z.of_nat k)) (cache st) = Some a ->
  lookup (v, month_of (y0 + Z.of_nat k) m) (cache st) = None ->
  snd (calc (S (S fuel)) (to_sys y0 ny s') pp st v (month_of (y0 + Z.of_nat k) m))
  = Ok (cast (to_var y0 ny v (annualized x)) a).
Proof. exact annualised_machine_lemma. Qed.
Print Assumptions annualised_machine_when_january_known.

(** Reform.modify_parameters: at every date the reform reads the BASELINE's value overridden
    by the declared updates in turn - [override f (start, stop, value) d] is [value] when
    start <= d (and d <= stop when a stop is given), else [f d] ([updates_of k]: the updates
    of parameter k); its variables are unchanged.  The baseline keeps its values
    (derivation_frame). *)
Theorem modified_parameters_from_date : forall w j ups w' e b eb,
  apply_mod w j (ModifyParams ups) = Ok w' ->
  nth_error (w_entries w) j = Some e -> e_base e = Some b -> nth_error (w_entries w) b = Some eb ->
  exists e', nth_error (w_entries w') j = Some e'
  /\ s_vars (e_sys e') = s_vars (e_sys e)
  /\ forall k h, nth_error (s_params (e_sys eb)) k = Some h ->
       exists h', nth_error (s_params (e_sys e')) k = Some h'
                  /\ forall d, get_at h' d = fold_left override (updates_of k ups) (get_at h) d.
Proof. exact modified_parameters_lemma. Qed.
Print Assumptions modified_parameters_from_date.

Theorem override_unfolds : forall (f : Z -> option Z) s e v d,
  override f (s, e, v) d
  = if ((s <=? d) && match e with Some e => (d <=? e) | None => true end)%Z then v else f d.
Proof. reflexivity. Qed.
Print Assumptions override_unfolds.

(** the same updates made in place on the parameter tree a copy owns *)
Theorem edited_parameters_from_date : forall s ups s',
  apply_var_mod s (EditParams ups) = Ok s' ->
  s_vars s' = s_vars s
  /\ forall k h, nth_error (s_params s) k = Some h ->
       exists h', nth_error (s_params s') k = Some h'
                  /\ forall d, get_at h' d = fold_left override (updates_of k ups) (get_at h) d.
Proof. exact edited_parameters_lemma. Qed.
Print Assumptions edited_parameters_from_date.

(** ** Non-vacuity *)

Definition ex_pop : popu :=
  {| grp := {| Group.g_entity := {| Group.e_key := "household"%string; Group.e_roles := []; Group.e_containing := [] |};
               Group.g_count := 1; Group.g_ids := [0; 0]; Group.g_roles := [0; 0] |} |}.

(** v0 input (month); v1 = v0 + month number, from 2019 v0 + 100 (month); p0 = 3, from 2018 4;
    v2 = v1 + p0 (month) *)
Definition ex_base : sys :=
  {| vars := [ mk_var EPerson TInt Month None [] 0%Z false false;
               mk_var EPerson TInt Month None
                 [((1, 1, 1)%Z, EBin BAdd (EDep 0 PSame OPlain) (EField FMonth));
                  ((2019, 1, 1)%Z, EBin BAdd (EDep 0 PSame OPlain) (EConst 100))] 5%Z false false;
               mk_var EPerson TInt Month None [((1, 1, 1)%Z, EBin BAdd (EDep 1 PSame OPlain) (EParam 0))] 0%Z false false ];
     params := [ [(ord (2018, 1, 1)%Z, Some 4%Z); (ord (2000, 1, 1)%Z, Some 3%Z)] ];
     switches := []; max_loops := 1 |}.

Definition ex_update : vdef :=
  mk_vdef None None None None (Some 9%Z) [((2018, 6, 1)%Z, EConst 50%Z)].

(** a reform of the base (annualise v1, new parameter value from mid 2018), a copy of the
    reform in which v1 is then updated, a reform of the copy neutralising v2 *)
Definition ex_ops : list dop :=
  [ DReform 0 [Annualize 1; ModifyParams [(0, (ord (2018, 7, 1)%Z, None, Some 40%Z))]];
    DClone 1; DMod 2 (UpdateVar 1 ex_update); DReform 2 [Neutralize 2] ].

Definition ex_world : world := run_dops false (initial (of_sys ex_base)) ex_ops.
Definition mar18 : period := month_of 2018 3.
Definition ex_inputs : list request := [RSetInput 0 (jan 2018) [10; 20]%Z; RSetInput 0 mar18 [1; 2]%Z].

Example ex_frame_hypotheses :
  entities_bound (initial (of_sys ex_base)) /\ (forall o, In o ex_ops -> target_of o <> Some 0)
  /\ length (w_entries ex_world) = 4.
Proof.
  split; [apply initial_bound|split; [|reflexivity]].
  intros o [<-|[<-|[<-|[<-|[]]]]]; discriminate.
Qed.

(** the base answers v2 = v0 + 3 + 4 in March 2018; the reform answers the January value of
    v1 (10 + 1, 20 + 1) plus the parameter *)
Example ex_base_answer :
  eval_fresh 1996 30 ex_world 0 ex_pop ex_inputs [RCalc 2 mar18]
  = OL [ONone; ONone; OL [OZ 8; OZ 9]].
Proof. vm_compute. reflexivity. Qed.
Example ex_reform_answer :
  eval_fresh 1996 30 ex_world 1 ex_pop ex_inputs [RCalc 1 (jan 2018); RCalc 2 mar18; RCalc 2 (month_of 2018 8)]
  = OL [ONone; ONone; OL [OZ 11; OZ 21]; OL [OZ 15; OZ 25]; OL [OZ 51; OZ 61]].
Proof. vm_compute. reflexivity. Qed.

(** F20 in the model: on a fresh simulation March is asked before January and yields the
    default 5; once January is known March yields the January value *)
Example ex_f20 :
  eval_fresh 1996 30 ex_world 1 ex_pop ex_inputs [RCalc 1 mar18; RCalc 1 (jan 2018); RCalc 1 mar18]
  = OL [ONone; ONone; OL [OZ 5; OZ 5]; OL [OZ 11; OZ 21]; OL [OZ 11; OZ 21]].
Proof. vm_compute. reflexivity. Qed.

(** the meaning has no such order: March means January *)
Example ex_annualised_meaning :
  sem_in 1996 30 ex_world 1 ex_pop [((0, jan 2018), [10; 20]%Z)] 1 mar18 = Some (Ok [11; 21]%Z).
Proof. vm_compute. reflexivity. Qed.

Example ex_annualised_hypotheses :
  exists x s' e w,
    nth_error (s_vars (of_sys ex_base)) 1 = Some x /\ apply_var_mod (of_sys ex_base) (Annualize 1) = Ok s'
    /\ ranked (to_sys 1996 30 (of_sys ex_base)) = true /\ sv_unit x = Month
    /\ has_wrapped (sv_formulas x) = false /\ sv_neutral x = false
    /\ pick (sv_formulas x) (2018, 1, 1)%Z None = Some (e, w).
Proof. do 4 eexists. repeat split; vm_compute; reflexivity. Qed.

(** the update of v1 in the copy: the formula of 0001 (annualised) is kept, the one of 2019
    is dropped, default 9, still a month variable of persons *)
Example ex_update_result :
  option_map (fun e => option_map look_var (nth_error (s_vars (e_sys e)) 1)) (nth_error (w_entries ex_world) 2)
  = Some (Some (OL [ OL [odate (1, 1, 1)%Z; odate (2018, 6, 1)%Z]; OZ 3; OB false; OZ 9; OZ 0; ONone; OZ 0 ])).
Proof. vm_compute. reflexivity. Qed.

(** the chained reform neutralises v2: default 0 whatever the inputs *)
Example ex_neutralised_answer :
  eval_fresh 1996 30 ex_world 3 ex_pop (ex_inputs ++ [RSetInput 2 mar18 [7; 7]%Z]) [RCalc 2 mar18]
  = OL [ONone; ONone; ONone; OL [OZ 0; OZ 0]].
Proof. vm_compute. reflexivity. Qed.

(** parameters: the reform reads 40 from July 2018, the base still 4 *)
Example ex_parameters :
  look_params (of_sys ex_base) [ord (2018, 6, 30)%Z; ord (2018, 7, 1)%Z] = OL [OL [OZ 4; OZ 4]]
  /\ option_map (fun s => look_params s [ord (2018, 6, 30)%Z; ord (2018, 7, 1)%Z]) (sys_at ex_world 1)
     = Some (OL [OL [OZ 4; OZ 40]]).
Proof. split; vm_compute; reflexivity. Qed.

(** ** F20 made exact (appended): where the machine departs from the meaning, and where not

    [in_force y0 x k m]: some formula of x is in force on the first of month m of year
    y0 + k and x has not ended before it.  A state [{| cache := c; stack := []; invalid := [] |}]
    is a simulation between two requests ([init inp] is the one with c = inp).
    [january_known y0 ny v x k a c]: cache c holds a for (v, January) and, for every other
    month of the year, nothing or the January value. *)

(** (1) F20 characterised.  max_loops = 1 (the default of Simulation), the annualised rendering of
    ANY month variable x, a month m >= 2 of the window with a formula in force, neither that
    month nor January in the cache.  The annualised formula asks for the variable at January;
    that request is the second frame of the variable on the stack, the spiral test answers the
    default array and marks both frames invalid; the month's value (the default, cast to the
    type) is put in the cache and removed again by the purge that ends the request.  So: the
    answer is the default - not the January value -, nothing is stored for the month nor for
    January, the stack is empty and nothing stays marked.  The same request again gives the
    same answer. *)
Theorem annualised_machine_refuted_when_january_unknown : forall y0 ny s v x s' k m pp c fuel,
  nth_error (s_vars s) v = Some x -> apply_var_mod s (Annualize v) = Ok s' -> sv_unit x = Month ->
  (1 <= y0)%Z -> k < ny -> (2 <= m <= 12)%Z -> in_force y0 x k m -> s_loops s = 1 ->
  lookup (v, month_of (y0 + Z.of_nat k) m) c = None -> lookup (v, jan (y0 + Z.of_nat k)) c = None ->
  let x' := to_var y0 ny v (annualized x) in
  let r := calc (S (S fuel)) (to_sys y0 ny s') pp {| cache := c; stack := []; invalid := [] |} v
             (month_of (y0 + Z.of_nat k) m) in
  snd r = Ok (cast x' (default_array pp x'))
  /\ (sv_type x <> TBool -> snd r = Ok (repeat (sv_default x) (count_of pp (sv_ent x))))
  /\ lookup (v, month_of (y0 + Z.of_nat k) m) (cache (fst r)) = None
  /\ lookup (v, jan (y0 + Z.of_nat k)) (cache (fst r)) = None
  /\ stack (fst r) = [] /\ invalid (fst r) = [].
Proof. exact am_f20_summary. Qed.
Print Assumptions annualised_machine_refuted_when_january_unknown.

(** the state after that request, exactly *)
Theorem annualised_machine_f20_state : forall y0 ny s v x s' k,
  nth_error (s_vars s) v = Some x -> apply_var_mod s (Annualize v) = Ok s' -> sv_unit x = Month ->
  (1 <= y0)%Z -> k < ny ->
  forall m pp c fuel, (2 <= m <= 12)%Z -> in_force y0 x k m -> s_loops s = 1 ->
  lookup (v, month_of (y0 + Z.of_nat k) m) c = None -> lookup (v, jan (y0 + Z.of_nat k)) c = None ->
  let st := {| cache := c; stack := []; invalid := [] |} in
  let d := cast (to_var y0 ny v (annualized x)) (default_array pp (to_var y0 ny v (annualized x))) in
  calc (S (S fuel)) (to_sys y0 ny s') pp st v (month_of (y0 + Z.of_nat k) m)
  = ({| cache := delete_one (to_sys y0 ny s') (v, month_of (y0 + Z.of_nat k) m)
                   (delete_one (to_sys y0 ny s') (v, jan (y0 + Z.of_nat k))
                      (cache (put_in_cache (to_var y0 ny v (annualized x)) v (month_of (y0 + Z.of_nat k) m) d st)));
        stack := []; invalid := [] |}, Ok d).
Proof. exact am_f20. Qed.
Print Assumptions annualised_machine_f20_state.

(** (2) Once January of year y is known, any sequence of requests for months of y (January
    included, any order, repetitions allowed) answers the January value a (cast to the type
    for the other months), and January stays known. *)
Theorem annualised_machine_after_january_partial : forall y0 ny s v x s' k,
  nth_error (s_vars s) v = Some x -> apply_var_mod s (Annualize v) = Ok s' -> sv_unit x = Month ->
  (1 <= y0)%Z -> k < ny ->
  forall pp fuel a,
  (forall m', (2 <= m' <= 12)%Z -> in_force y0 x k m') -> 1 <= s_loops s ->
  forall ms c, Forall (fun m => (1 <= m <= 12)%Z) ms -> january_known y0 ny v x k a c ->
  snd (run (S (S fuel)) (to_sys y0 ny s') pp {| cache := c; stack := []; invalid := [] |}
         (map (fun m => RCalc v (month_of (y0 + Z.of_nat k) m)) ms))
  = map (fun m => AVal (if (m =? 1)%Z then a else cast (to_var y0 ny v (annualized x)) a)) ms.
Proof. exact am_sequence. Qed.
Print Assumptions annualised_machine_after_january_partial.

(** one request, with the state it leaves *)
Theorem annualised_machine_step_keeps_january : forall y0 ny s v x s' k,
  nth_error (s_vars s) v = Some x -> apply_var_mod s (Annualize v) = Ok s' -> sv_unit x = Month ->
  (1 <= y0)%Z -> k < ny ->
  forall m pp c fuel a, (1 <= m <= 12)%Z -> (forall m', (2 <= m' <= 12)%Z -> in_force y0 x k m') -> 1 <= s_loops s ->
  january_known y0 ny v x k a c ->
  let r := calc (S (S fuel)) (to_sys y0 ny s') pp {| cache := c; stack := []; invalid := [] |} v
             (month_of (y0 + Z.of_nat k) m) in
  snd r = Ok (if (m =? 1)%Z then a else cast (to_var y0 ny v (annualized x)) a)
  /\ stack (fst r) = [] /\ invalid (fst r) = [] /\ january_known y0 ny v x k a (cache (fst r)).
Proof. exact am_step. Qed.
Print Assumptions annualised_machine_step_keeps_january.

(** The full statement starts from the January REQUEST rather than from a cache that holds
    January.  Missing for it: that on a ranked base a successful request for (v, January) in
    the derived system leaves its answer in the cache and marks nothing - the C01 invariant
    (EngineProofs.calc_refines) is proved for ranked systems only and the derived system is
    not ranked (v reads itself); it would have to be transported from s to s' for the
    variables below v.  The examples [ex_after_january] below run exactly this sequence. *)
Definition annualised_machine_after_january_statement : Prop :=
  forall y0 ny s v x s' k pp inp fuel a st1 ms,
  nth_error (s_vars s) v = Some x -> apply_var_mod s (Annualize v) = Ok s' -> sv_unit x = Month ->
  (1 <= y0)%Z -> k < ny -> ranked (to_sys y0 ny s) = true -> 1 <= s_loops s ->
  has_wrapped (sv_formulas x) = false -> sv_neutral x = false -> sv_nostore x = false ->
  (forall m', (1 <= m' <= 12)%Z -> in_force y0 x k m') ->
  calc (S (S fuel)) (to_sys y0 ny s') pp (init inp) v (jan (y0 + Z.of_nat k)) = (st1, Ok a) ->
  Forall (fun m => (1 <= m <= 12)%Z) ms ->
  snd (run (S (S fuel)) (to_sys y0 ny s') pp st1 (map (fun m => RCalc v (month_of (y0 + Z.of_nat k) m)) ms))
  = map (fun m => AVal (if (m =? 1)%Z then a else cast (to_var y0 ny v (annualized x)) a)) ms.

(** (3) Whatever max_loops is, the month's answer is the answer of the January request made with
    the month's frame on the stack.  With max_loops = 1 that request is cut (theorem 1); with
    max_loops >= 2 the cut needs two earlier frames of the variable, the January formula runs
    and the month yields the January value ([ex_loops2]). *)
Theorem annualised_month_delegates_to_january : forall y0 ny s v x s' k,
  nth_error (s_vars s) v = Some x -> apply_var_mod s (Annualize v) = Ok s' -> sv_unit x = Month ->
  (1 <= y0)%Z -> k < ny ->
  forall m pp c fuel, (2 <= m <= 12)%Z -> in_force y0 x k m -> 1 <= s_loops s ->
  lookup (v, month_of (y0 + Z.of_nat k) m) c = None ->
  let st := {| cache := c; stack := []; invalid := [] |} in
  snd (calc (S (S fuel)) (to_sys y0 ny s') pp st v (month_of (y0 + Z.of_nat k) m))
  = rmap (cast (to_var y0 ny v (annualized x)))
         (snd (calc (S fuel) (to_sys y0 ny s') pp (push (v, month_of (y0 + Z.of_nat k) m) st) v (jan (y0 + Z.of_nat k)))).
Proof. exact am_delegates. Qed.
Print Assumptions annualised_month_delegates_to_january.

From Coq Require Import Lia.

(** Non-vacuity.  v1 of [ex_base] (2018 = 1996 + 22): a formula is in force in every month *)
Example ex_in_force : forall m, (1 <= m <= 12)%Z ->
  exists x, nth_error (s_vars (of_sys ex_base)) 1 = Some x /\ sv_unit x = Month /\ in_force 1996 x 22 m.
Proof.
  intros m Hm. eexists. split; [reflexivity|split; [reflexivity|]]. split; [|exact I].
  assert (H : (m = 1 \/ m = 2 \/ m = 3 \/ m = 4 \/ m = 5 \/ m = 6 \/ m = 7 \/ m = 8 \/ m = 9 \/ m = 10
              \/ m = 11 \/ m = 12)%Z) by lia.
  repeat (destruct H as [->|H]; [do 2 eexists; vm_compute; reflexivity|]). subst. do 2 eexists; vm_compute; reflexivity.
Qed.

(** January first, then all twelve months in a scrambled order, on the reform of [ex_world]:
    every month yields the January value (10 + 1, 20 + 1) *)
Example ex_after_january :
  eval_fresh 1996 30 ex_world 1 ex_pop [RSetInput 0 (jan 2018) [10; 20]%Z]
    (RCalc 1 (jan 2018) :: map (fun m => RCalc 1 (month_of 2018 m)) [7; 3; 12; 1; 5; 2; 9; 4; 11; 6; 8; 10; 3]%Z)
  = OL (ONone :: repeat (OL [OZ 11; OZ 21]) 14).
Proof. vm_compute. reflexivity. Qed.

(** the same base with max_loops = 2: March asked first on a fresh simulation yields the
    January value - F20 is the cut of max_loops = 1 *)
Definition ex_base2 : sys :=
  {| vars := vars ex_base; params := params ex_base; switches := []; max_loops := 2 |}.
Example ex_loops2 :
  eval_fresh 1996 30 (run_dops false (initial (of_sys ex_base2)) [DReform 0 [Annualize 1]]) 1 ex_pop ex_inputs
    [RCalc 1 mar18; RCalc 1 (jan 2018)]
  = OL [ONone; ONone; OL [OZ 11; OZ 21]; OL [OZ 11; OZ 21]].
Proof. vm_compute. reflexivity. Qed.
