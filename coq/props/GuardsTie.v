(** Tie between the source text of the engine's decision points and the hand-written model.

    coq/gen/Guards.v is re-emitted from /repo on every run by harness/gen_tables.py (a
    fail-closed walk over the Python syntax tree of Simulation._check_period_consistency,
    calculate_add, calculate_divide and CorePopulation.__call__): [gen_check_consistency],
    [gen_add_guard], [gen_divide_guard] (true = raises ValueError), [gen_divide_period_choice],
    [gen_divide_denominator_choice], [gen_option_dispatch].  coq/model/GuardsSem.v reads the
    names they choose among ([apply_named], [apply_size], [opt_has_add] ...) and re-assembles
    the four decision points from the regenerated pieces ([src_...]).

    The theorems say that the regenerated decisions are the ones of coq/model/Engine.v, for
    every unit, size, option and request function.  An edit of one of those guards in /repo
    changes coq/gen/Guards.v, and the corresponding statement below stops being provable.
    Only statements here; proofs are in proofs/GuardsProofs.v. *)
From Coq Require Import ZArith List Bool.
From Verif Require Import Base Cal Tables Period Engine GuardsTypes Guards GuardsSem.
From Verif Require Import GuardsPeriod GuardsPeriodSem GuardsInput GuardsInputEngineSem.
From Verif Require Import GuardsProofs GuardsPeriodProofs GuardsInputEngineProofs.
From Verif Require GuardsInputProofs.
From Verif Require Import GuardsPlan EnginePlan GuardsPlanProofs.
From Verif Require Import GuardsStorage GuardsStorageSem GuardsStorageProofs.
From Verif Require Import GuardsHolder GuardsHolderSem GuardsHolderProofs.
From Verif Require Import GuardsFormula GuardsFormulaSem GuardsFormulaProofs.
Import ListNotations.
Open Scope Z_scope.

(** ** Simulation._check_period_consistency *)

Theorem source_check_consistency_raises : forall x p,
  gen_check_consistency (v_unit x) (p_unit p) (p_size p) = true <-> check_consistency x p = Err EValue.
Proof. exact gen_check_consistency_raises. Qed.
Print Assumptions source_check_consistency_raises.

Theorem source_check_consistency_accepts : forall x p,
  gen_check_consistency (v_unit x) (p_unit p) (p_size p) = false <-> check_consistency x p = Ok tt.
Proof. exact gen_check_consistency_accepts. Qed.
Print Assumptions source_check_consistency_accepts.

(** ** Simulation.calculate_add: the three tests before the sum *)

Theorem source_add_guard : forall du ru,
  gen_add_guard du ru
  = (unit_weight ru <? unit_weight du) || unit_eqb ru Eternity || negb (dated_unit du).
Proof. exact gen_add_guard_bool. Qed.
Print Assumptions source_add_guard.

Theorem source_calc_add : forall (S : Type) (rec : S -> nat -> period -> S * res val) s v x q,
  calc_add rec s v x q
  = if gen_add_guard (v_unit x) (p_unit q) then (s, Err EValue)
    else match subperiods q (v_unit x) with
         | Err e => (s, Err e)
         | Ok subs => sum_calc rec s v subs None
         end.
Proof. exact calc_add_is_source. Qed.
Print Assumptions source_calc_add.

(** ** Simulation.calculate_divide: the three tests, the calculation period, the denominator *)

Theorem source_divide_guard : forall du ru size,
  gen_divide_guard du ru size
  = ((unit_weight du <? unit_weight ru) || (1 <? size))
    || negb (dated_unit du)
    || (negb (dated_unit ru) || negb (size =? 1)).
Proof. exact gen_divide_guard_bool. Qed.
Print Assumptions source_divide_guard.

Theorem source_divide_period_choice : forall x q,
  apply_named (gen_divide_period_choice (v_unit x)) q = divide_period x q.
Proof. exact gen_divide_period_choice_is_model. Qed.
Print Assumptions source_divide_period_choice.

Theorem source_divide_denominator_choice : forall q cp,
  apply_size (gen_divide_denominator_choice (p_unit q)) cp = divide_denominator q cp.
Proof. exact gen_divide_denominator_choice_is_model. Qed.
Print Assumptions source_divide_denominator_choice.

Theorem source_calc_divide : forall (S : Type) (rec : S -> nat -> period -> S * res val) s v x q,
  calc_divide rec s v x q = src_calc_divide rec s v x q.
Proof. exact calc_divide_is_source. Qed.
Print Assumptions source_calc_divide.

(** ** CorePopulation.__call__: the option dispatch *)

Theorem source_option_dispatch : forall o,
  gen_option_dispatch (opt_has_add o) (opt_has_divide o) (opt_is_sequence o)
  = match o with
    | OPlain => DPlain | OAdd => DAdd | ODivide => DDivide
    | OBoth => DIncompatible | OUnknown => DInvalid
    end.
Proof. exact gen_option_dispatch_table. Qed.
Print Assumptions source_option_dispatch.

Theorem source_call : forall (S : Type) (rec : S -> nat -> period -> S * res val) sy c s v q o,
  call rec sy c s v q o = src_call rec sy c s v q o.
Proof. exact call_is_source. Qed.
Print Assumptions source_call.

Theorem source_option_dispatch_plain_iff_not_sequence : forall has_add has_divide is_sequence,
  gen_option_dispatch has_add has_divide is_sequence = DPlain <-> is_sequence = false.
Proof. exact gen_option_dispatch_plain_iff. Qed.
Print Assumptions source_option_dispatch_plain_iff_not_sequence.

(** ** Period.get_subperiods: the weight test and the per-unit dispatch
       (coq/gen/GuardsPeriod.v, from periods/period_.py) *)

Theorem source_subperiods_guard : forall pu u,
  gen_subperiods_guard pu u = (unit_weight pu <? unit_weight u).
Proof. exact gen_subperiods_guard_bool. Qed.
Print Assumptions source_subperiods_guard.

Theorem source_subperiods_choice : forall u,
  gen_subperiods_choice u
  = match u with
    | Year => Some (NThisYear, Year, SSize)
    | Month => Some (NFirstMonth, Month, SInMonths)
    | Day => Some (NFirstDay, Day, SInDays)
    | Week => Some (NFirstWeek, Week, SInWeeks)
    | Weekday => Some (NFirstWeekday, Weekday, SInWeekdays)
    | Eternity => None
    end.
Proof. exact gen_subperiods_choice_table. Qed.
Print Assumptions source_subperiods_choice.

Theorem source_subperiods : forall p u, subperiods p u = src_subperiods p u.
Proof. exact subperiods_is_source. Qed.
Print Assumptions source_subperiods.

(** ** The routing of an input (coq/gen/GuardsInput.v, from holders/holder.py and
       Simulation.set_input)

    The statements over the set-input model coq/model/SetInput.v ([_set], [holder_set_input],
    [sim_set_input] re-assembled from the regenerated pieces) are in props/C16.v
    ([source_set_input_guards_are_model_guards]), because SetInput.v and Engine.v use the
    same names; here the regenerated decisions themselves and the engine's [set_input]. *)

Theorem source_holder_eternal : forall du, gen_holder_eternal du = unit_eqb du Eternity.
Proof. reflexivity. Qed.
Print Assumptions source_holder_eternal.

Theorem source_sim_set_input_ignored : forall has_end start_after_end,
  gen_sim_set_input_ignored has_end start_after_end = has_end && start_after_end.
Proof. exact GuardsInputProofs.gen_sim_set_input_ignored_bool. Qed.
Print Assumptions source_sim_set_input_ignored.

Theorem source_holder_set_input : forall ru eternal neutralized has_rule,
  gen_holder_set_input ru eternal neutralized has_rule
  = if unit_eqb ru Eternity && negb eternal then SOMismatch
    else if neutralized then SOIgnored else if has_rule then SORule else SOSet.
Proof. exact GuardsInputProofs.gen_holder_set_input_table. Qed.
Print Assumptions source_holder_set_input.

Theorem source_to_array_rejects : forall len count,
  gen_to_array_rejects len count = negb (len =? count).
Proof. exact GuardsInputProofs.gen_to_array_rejects_bool. Qed.
Print Assumptions source_to_array_rejects.

Theorem source_holder_set_guard : forall du ru size,
  gen_holder_set_guard (gen_holder_eternal du) false du ru size
  = if unit_eqb du Eternity then SGOk
    else if negb (unit_eqb du ru) || (1 <? size) then SGMismatch else SGOk.
Proof. exact GuardsInputProofs.gen_holder_set_guard_table. Qed.
Print Assumptions source_holder_set_guard.

Theorem source_holder_set_guard_no_period : forall du ru size,
  gen_holder_set_guard (gen_holder_eternal du) true du ru size
  = if unit_eqb du Eternity then SGOk else SGValueError.
Proof. exact GuardsInputProofs.gen_holder_set_guard_no_period. Qed.
Print Assumptions source_holder_set_guard_no_period.

Theorem source_engine_set_input : forall sy pp s v p a,
  set_input sy pp s v p a = src_engine_set_input sy pp s v p a.
Proof. exact engine_set_input_is_source. Qed.
Print Assumptions source_engine_set_input.

(** ** The order of the steps of the evaluator (coq/gen/GuardsPlan.v, from
       Simulation.calculate, _calculate, _check_for_cycle, purge_cache_of_invalid_values;
       reference plans and their reading on [Engine.calc] / [calc_body] / [purge] in
       coq/model/EnginePlan.v) *)

Theorem source_calculate_plan : gen_calculate_plan = calculate_plan.
Proof. exact gen_calculate_plan_is_model. Qed.
Print Assumptions source_calculate_plan.

Theorem source__calculate_plan : gen__calculate_plan = _calculate_plan.
Proof. exact gen__calculate_plan_is_model. Qed.
Print Assumptions source__calculate_plan.

Theorem source_check_for_cycle_plan : gen_check_for_cycle_plan = check_for_cycle_plan.
Proof. exact gen_check_for_cycle_plan_is_model. Qed.
Print Assumptions source_check_for_cycle_plan.

Theorem source_purge_plan : gen_purge_plan = purge_plan.
Proof. exact gen_purge_plan_is_model. Qed.
Print Assumptions source_purge_plan.

(** ** The two storages (coq/gen/GuardsStorage.v, from data_storage/in_memory_storage.py and
       on_disk_storage.py): same description, and it is the engine's *)

Theorem source_storages_agree : forall is_eternal period_is_none,
  gen_memory_get_key is_eternal period_is_none = gen_disk_get_key is_eternal period_is_none
  /\ gen_memory_put_key is_eternal period_is_none = gen_disk_put_key is_eternal period_is_none
  /\ gen_memory_delete is_eternal period_is_none = gen_disk_delete is_eternal period_is_none.
Proof. exact storages_agree. Qed.
Print Assumptions source_storages_agree.

Theorem source_storage_description : forall is_eternal period_is_none,
  gen_memory_get_key is_eternal period_is_none = (if is_eternal then KEternity else KGiven)
  /\ gen_memory_put_key is_eternal period_is_none = (if is_eternal then KEternity else KGiven)
  /\ gen_memory_delete is_eternal period_is_none
     = (if period_is_none then DeleteAll
        else DeleteContained (if is_eternal then KEternity else KGiven)).
Proof. exact storage_keys_table. Qed.
Print Assumptions source_storage_description.

Theorem source_norm : forall x p,
  norm x p = apply_key (gen_memory_get_key (unit_eqb (v_unit x) Eternity) false) p
  /\ norm x p = apply_key (gen_memory_put_key (unit_eqb (v_unit x) Eternity) false) p.
Proof. exact (fun x p => conj (norm_is_source_get x p) (norm_is_source_put x p)). Qed.
Print Assumptions source_norm.

Theorem source_delete_one : forall sy k c, delete_one sy k c = src_delete_one sy k c.
Proof. exact delete_one_is_source. Qed.
Print Assumptions source_delete_one.

Theorem source_delete_arrays : forall sy s v p, delete_arrays sy s v p = src_delete_arrays sy s v p.
Proof. exact delete_arrays_is_source. Qed.
Print Assumptions source_delete_arrays.

(** ** The holder (coq/gen/GuardsHolder.v, from holders/holder.py): where a value is read and
       written.  The model's cache merges the memory and the disk storage ([merged],
       coq/model/GuardsHolderSem.v); the regenerated selections only choose WHERE. *)

Theorem source_holder_get_array : forall neutralized memory_hit has_disk,
  gen_holder_get_array neutralized memory_hit has_disk
  = if neutralized then GDefault else if memory_hit then GMemory
    else if has_disk then GDisk else GNothing.
Proof. exact gen_holder_get_array_table. Qed.
Print Assumptions source_holder_get_array.

Theorem source_holder_put_in_cache : forall do_not_store opt_out_cache blacklist_nonempty name_in_blacklist,
  gen_holder_put_in_cache do_not_store opt_out_cache blacklist_nonempty name_in_blacklist
  = if do_not_store || (opt_out_cache && blacklist_nonempty && name_in_blacklist) then PSkip else PSet.
Proof. exact gen_holder_put_in_cache_table. Qed.
Print Assumptions source_holder_put_in_cache.

Theorem source_holder_store_choice : forall on_disk_storable memory_has_value memory_pressure,
  gen_holder_store_choice on_disk_storable memory_has_value memory_pressure
  = if on_disk_storable && negb memory_has_value && memory_pressure then StDisk else StMemory.
Proof. exact gen_holder_store_choice_table. Qed.
Print Assumptions source_holder_store_choice.

Theorem source_store_key_is_norm : forall c x p, store_key c x p = norm x p.
Proof. exact store_key_is_norm. Qed.
Print Assumptions source_store_key_is_norm.

Theorem source_get_array : forall pp x s mem disk has_disk v p,
  merged (cache s) mem disk has_disk ->
  get_array pp x s v p = src_get_array pp x mem disk has_disk v p.
Proof. exact get_array_is_source. Qed.
Print Assumptions source_get_array.

Theorem source_put_in_cache : forall dns oo ne inb x v p a s,
  v_nostore x = dns || (oo && ne && inb) ->
  put_in_cache x v p a s = src_put_in_cache dns oo ne inb x v p a s.
Proof. exact put_in_cache_is_source. Qed.
Print Assumptions source_put_in_cache.

(** ** Variable.get_formula (coq/gen/GuardsFormula.v, from variables/variable.py) *)

Theorem source_formula_guard : forall has_formulas period_is_none instant_is_none has_end after_end,
  gen_formula_guard has_formulas period_is_none instant_is_none has_end after_end
  = if negb has_formulas then FNone else if period_is_none then FOldest
    else if instant_is_none then FNone else if has_end && after_end then FNone else FScan.
Proof. exact gen_formula_guard_table. Qed.
Print Assumptions source_formula_guard.

Theorem source_formula_scan : gen_formula_scan = ScanFirst ScanReversed CmpLe.
Proof. exact gen_formula_scan_is_reversed_le. Qed.
Print Assumptions source_formula_scan.

(** ascending list, keep the last start date <= instant  =  reversed list, take the first *)
Theorem latest_formula_is_reversed_scan : forall fs d acc,
  latest_formula fs d acc
  = match first_match CmpLe (rev fs) d with Some e => Some e | None => acc end.
Proof. exact latest_is_first_of_reversed. Qed.
Print Assumptions latest_formula_is_reversed_scan.

Theorem source_formula_at : forall x p, formula_at x p = src_formula_at x p.
Proof. exact formula_at_is_source. Qed.
Print Assumptions source_formula_at.

(** ** Non-vacuity: the regenerated guards do raise and do accept *)

Example ex_source_guards :
  gen_check_consistency Month Month 1 = false /\ gen_check_consistency Month Month 3 = true
  /\ gen_check_consistency Year Month 1 = true /\ gen_check_consistency Eternity Day 7 = false
  /\ gen_add_guard Month Year = false /\ gen_add_guard Year Month = true
  /\ gen_add_guard Month Eternity = true /\ gen_add_guard Eternity Year = true
  /\ gen_divide_guard Year Month 1 = false /\ gen_divide_guard Year Month 2 = true
  /\ gen_divide_guard Month Year 1 = true /\ gen_divide_guard Eternity Month 1 = true
  /\ gen_divide_period_choice Year = NThisYear /\ gen_divide_period_choice Weekday = NFirstWeekday
  /\ gen_divide_denominator_choice Month = SInMonths
  /\ gen_option_dispatch true true true = DIncompatible
  /\ gen_option_dispatch false false true = DInvalid.
Proof. vm_compute. repeat split. Qed.
