(** C15 - Enum values survive encoding and decoding; invalid ones are rejected.
    Only statements here; proofs are in proofs/EnumProofs.v (with EnumOrder.v: the order
    on strings, EnumSearch.v: argsort and searchsorted).  All statements are about the
    functions of model/EnumModel.v that corr/Corr_C15.v runs against the implementation:
    [encode] (Enum.encode with _encode_array / _encode_array_like and the helpers
    [int_to_index], [str_to_index], [enum_to_index]), [decode], [decode_to_str],
    [argsort], [searchsorted], [lookup].

    Reading guide.  An enumeration [e] is its identity [eid e] and the list [names e] of
    its member names in declaration order (any length; the statements about names ask for
    [NoDup (names e)], which Python's enum machinery guarantees).  Two classes of the same
    __name__ compare equal in openfisca and have the same [eid].  A member is
    (identity of its enumeration, index, name); [designates e m]: [m] is of [e]'s class
    (as == sees it) and [e] has a member of that name at that index;
    [member_of_index e i m]: moreover that index is [i].  [as_ints x = Some l] reads "x is a numpy integer
    array, or a Python sequence of ints/bools, holding the values l"; [as_names],
    [as_members] likewise.  [valid_index e i] is [0 <= i < size e]. *)
From Coq Require Import String ZArith List Bool Permutation.
From Verif Require Import Base EnumModel EnumProofs.
Import ListNotations.
Open Scope string_scope.
Open Scope Z_scope.

(** ** Round trips: encoding valid indices / names / members and decoding gives back the
       same members in the same order *)

Theorem decode_encode_indices : forall e x l,
  as_ints x = Some l -> (forall i, In i l -> valid_index e i) ->
  exists a ms, encode e x = Ok a /\ possible_values a = Some e /\ indices a = l /\
    decode a = Ok ms /\ Forall2 (member_of_index e) l ms /\
    decode_to_str a = Ok (map mname ms).
Proof. exact decode_encode_indices_lemma. Qed.
Print Assumptions decode_encode_indices.

Theorem decode_encode_names : forall e x l,
  NoDup (names e) -> as_names x = Some l -> (forall s, In s l -> In s (names e)) ->
  exists a ms, encode e x = Ok a /\ possible_values a = Some e /\
    decode_to_str a = Ok l /\ decode a = Ok ms /\
    map mname ms = l /\ (forall m, In m ms -> designates e m).
Proof. exact decode_encode_names_lemma. Qed.
Print Assumptions decode_encode_names.

Theorem decode_encode_members : forall e x ms,
  as_members x = Some ms -> (forall m, In m ms -> designates e m) ->
  exists a, encode e x = Ok a /\ possible_values a = Some e /\ decode a = Ok ms /\
    decode_to_str a = Ok (map mname ms).
Proof. exact decode_encode_members_lemma. Qed.
Print Assumptions decode_encode_members.

(** ** Encoding an already encoded array changes nothing *)

Theorem encode_encoded_unchanged : forall e a, encode e (Encoded a) = Ok a.
Proof. exact encode_encoded. Qed.
Print Assumptions encode_encoded_unchanged.

Theorem encode_idempotent : forall e e' x a,
  encode e x = Ok a -> encode e' (Encoded a) = Ok a.
Proof. exact encode_idempotent_lemma. Qed.
Print Assumptions encode_idempotent.

(** ** An encoded array never holds an index that does not designate a member, whatever
       the input (an already encoded array is returned as it is, see above) *)

Theorem encode_total_valid : forall e x a,
  (forall b, x <> Encoded b) -> encode e x = Ok a ->
  possible_values a = Some e /\ length (indices a) = input_len x /\
  forall i, In i (indices a) -> valid_index e i.
Proof. exact encode_total_valid_lemma. Qed.
Print Assumptions encode_total_valid.

(** ... so decoding it succeeds and yields members of this enumeration, one per element *)
Theorem encoded_decodes : forall e x a,
  (forall b, x <> Encoded b) -> encode e x = Ok a ->
  exists ms, decode a = Ok ms /\ decode_to_str a = Ok (map mname ms) /\
    length ms = input_len x /\ Forall2 (member_of_index e) (indices a) ms.
Proof. exact encoded_decodes_lemma. Qed.
Print Assumptions encoded_decodes.

(** ** Invalid inputs are rejected.  [In _ l] is "anywhere in the input": first, last
       or in the middle, whatever surrounds it. *)

(** an index < 0 or >= n anywhere among integers: EnumMemberNotFoundError (an IndexError) *)
Theorem index_out_of_range_rejected : forall e x l i,
  as_ints x = Some l -> In i l -> (i < 0 \/ size e <= i) -> encode e x = Err EIndex.
Proof. exact index_out_of_range_rejected_lemma. Qed.
Print Assumptions index_out_of_range_rejected.

(** an unknown name anywhere among names: EnumMemberNotFoundError *)
Theorem unknown_name_rejected : forall e x l s,
  as_names x = Some l -> In s l -> ~ In s (names e) -> encode e x = Err EIndex.
Proof. exact unknown_name_rejected_lemma. Qed.
Print Assumptions unknown_name_rejected.

(** a member of another enumeration anywhere among members: EnumEncodingError (a TypeError).
    "Another enumeration": of another class name, or of a class of the same name in which that
    (index, name) does not designate a member of [e] *)
Theorem foreign_member_rejected : forall e x ms m,
  as_members x = Some ms -> In m ms -> ~ designates e m -> encode e x = Err EType.
Proof. exact foreign_member_rejected_lemma. Qed.
Print Assumptions foreign_member_rejected.

(** an element of an unsupported type (float, bytes, None, ...) anywhere in a sequence or
    object array, or a non-empty array of another dtype: EnumEncodingError *)
Theorem unsupported_type_rejected : forall e x,
  In EOther (input_elems x) \/ (exists n, x = ArrOther (S n)) -> encode e x = Err EType.
Proof. exact unsupported_type_rejected_lemma. Qed.
Print Assumptions unsupported_type_rejected.

(** elements of different kinds in one input, even if each is valid on its own *)
Theorem mixed_kinds_rejected : forall e l,
  l <> [] -> all_ints l = None -> all_strs l = None -> all_enums l = None ->
  encode e (Seq l) = Err EType /\ encode e (ArrObj l) = Err EType.
Proof. exact mixed_kinds_rejected_lemma. Qed.
Print Assumptions mixed_kinds_rejected.

(** all classes at once, also inside inputs of mixed kinds ([input_invalid]: some element
    is an out-of-range integer, an unknown name, a foreign member or of unsupported type) *)
Theorem invalid_rejected : forall e x, input_invalid e x -> exists k, encode e x = Err k.
Proof. exact invalid_rejected_lemma. Qed.
Print Assumptions invalid_rejected.

(** ** The str -> index route (argsort + searchsorted), for every duplicate-free name list
       in any order and any sorting permutation: a member's name is mapped to its
       declaration index; for a non-member the search lands past the end or on a strictly
       greater name, never on a member that could be taken for it *)

Theorem searchsorted_finds : forall nm sorter,
  NoDup nm -> Permutation sorter (seq 0 (length nm)) -> sorts nm sorter ->
  (forall i s, nth_error nm i = Some s -> lookup nm sorter s = Ok (Z.of_nat i)) /\
  (forall s, ~ In s nm ->
     exists r, searchsorted nm sorter s = Ok r /\
       (r = length sorter \/
        exists j t, nth_error sorter r = Some j /\ nth_error nm j = Some t /\ String.ltb s t = true)).
Proof. exact searchsorted_finds_lemma. Qed.
Print Assumptions searchsorted_finds.

(** the model's argsort is such a sorting permutation, for every name list *)
Theorem argsort_sorts : forall nm,
  Permutation (argsort nm) (seq 0 (length nm)) /\ sorts nm (argsort nm).
Proof. exact argsort_sorts_lemma. Qed.
Print Assumptions argsort_sorts.

(** _str_to_index on any input: the declaration indices of the names that are members, in
    order; unknown names are dropped, and the result is as long as the input exactly when
    there was none (which is what the size comparison of encode tests) *)
Theorem str_to_index_spec : forall e l,
  NoDup (names e) ->
  exists idx, str_to_index e l = Ok idx /\
    Forall2 (fun s z => 0 <= z /\ nth_error (names e) (Z.to_nat z) = Some s)
            (filter (isin (names e)) l) idx /\
    (length idx = length l <-> forall s, In s l -> In s (names e)).
Proof. exact str_to_index_spec_lemma. Qed.
Print Assumptions str_to_index_spec.

(** ** Non-vacuity: the hypotheses are satisfiable and the conclusions are the expected
       concrete values.  Names deliberately unsorted, with prefixes and case variants. *)

Definition housing : enum := mkEnum 7 ["tenant"; "owner"; "free"; "Owner"; "own"].
Definition other : enum := mkEnum 8 ["a"; "b"; "c"].

Example housing_nodup : NoDup (names housing).
Proof. repeat constructor; cbn; intuition discriminate. Qed.

Example ex_indices_hyps :
  as_ints (Seq [EInt 4; EBool true; EInt 0]) = Some [4; 1; 0] /\
  forallb (fun i => (0 <=? i) && (i <? size housing)) [4; 1; 0] = true.
Proof. vm_compute. auto. Qed.

Example ex_indices :
  encode housing (Seq [EInt 4; EBool true; EInt 0]) = Ok (mkArr (Some housing) [4; 1; 0]) /\
  decode (mkArr (Some housing) [4; 1; 0]) = Ok [mkMem 7 4 "own"; mkMem 7 1 "owner"; mkMem 7 0 "tenant"] /\
  decode_to_str (mkArr (Some housing) [4; 1; 0]) = Ok ["own"; "owner"; "tenant"] /\
  encode housing (ArrInt [4; 1; 0]) = Ok (mkArr (Some housing) [4; 1; 0]).
Proof. vm_compute. auto. Qed.

Example ex_names :
  as_names (ArrStr ["own"; "Owner"; "tenant"; "own"]) = Some ["own"; "Owner"; "tenant"; "own"] /\
  encode housing (ArrStr ["own"; "Owner"; "tenant"; "own"]) = Ok (mkArr (Some housing) [4; 3; 0; 4]) /\
  decode_to_str (mkArr (Some housing) [4; 3; 0; 4]) = Ok ["own"; "Owner"; "tenant"; "own"] /\
  encode housing (Seq [EStr "free"; EStr "owner"]) = Ok (mkArr (Some housing) [2; 1]).
Proof. vm_compute. auto. Qed.

Example ex_members :
  as_members (ArrObj [EMem (mkMem 7 2 "free"); EMem (mkMem 7 0 "tenant")]) = Some [mkMem 7 2 "free"; mkMem 7 0 "tenant"] /\
  encode housing (ArrObj [EMem (mkMem 7 2 "free"); EMem (mkMem 7 0 "tenant")]) = Ok (mkArr (Some housing) [2; 0]) /\
  decode (mkArr (Some housing) [2; 0]) = Ok [mkMem 7 2 "free"; mkMem 7 0 "tenant"] /\
  encode housing (Seq [EMem (mkMem 7 2 "free"); EMem (mkMem 7 0 "tenant")]) = Ok (mkArr (Some housing) [2; 0]).
Proof. vm_compute. auto. Qed.

Example ex_idempotent :
  encode housing (ArrInt [3]) = Ok (mkArr (Some housing) [3]) /\
  encode housing (Encoded (mkArr (Some housing) [3])) = Ok (mkArr (Some housing) [3]).
Proof. vm_compute. auto. Qed.

(** a reform redefines "housing" under the same class name (same [eid]), members permuted and
    one more: its members are accepted only where index and name coincide *)
Definition housing2 : enum := mkEnum 7 ["tenant"; "free"; "owner"; "Owner"; "own"; "squat"].

Example ex_same_name :
  encode housing (Seq [EMem (mkMem 7 0 "tenant"); EMem (mkMem 7 3 "Owner")]) = Ok (mkArr (Some housing) [0; 3]) /\
  encode housing (Seq [EMem (mkMem 7 0 "tenant"); EMem (mkMem 7 1 "free")]) = Err EType /\
  encode housing (ArrObj [EMem (mkMem 7 5 "squat")]) = Err EType /\
  encode housing2 (Seq [EMem (mkMem 7 5 "squat"); EMem (mkMem 7 2 "owner")]) = Ok (mkArr (Some housing2) [5; 2]) /\
  ~ designates housing (mkMem 7 1 "free") /\ designates housing (mkMem 7 3 "Owner").
Proof. vm_compute. repeat split; auto; intros [_ H]; discriminate. Qed.

Example ex_out_of_range :
  encode housing (ArrInt [0; -1; 2]) = Err EIndex /\
  encode housing (ArrInt [5]) = Err EIndex /\
  encode housing (Seq [EInt 0; EInt 1; EInt 5]) = Err EIndex /\
  encode (mkEnum 9 ["only"]) (Seq [EBool true]) = Err EIndex.
Proof. vm_compute. auto. Qed.

Example ex_unknown_name :
  encode housing (ArrStr ["owne"; "owner"]) = Err EIndex /\
  encode housing (Seq [EStr "owner"; EStr "tenant "; EStr "own"]) = Err EIndex /\
  encode housing (Seq [EStr "owner"; EStr "zzz"]) = Err EIndex.
Proof. vm_compute. auto. Qed.

Example ex_foreign_member :
  encode housing (Seq [EMem (mkMem 8 0 "a"); EMem (mkMem 7 0 "tenant"); EMem (mkMem 7 1 "owner")]) = Err EType /\
  encode housing (Seq [EMem (mkMem 7 0 "tenant"); EMem (mkMem 8 0 "a"); EMem (mkMem 7 1 "owner")]) = Err EType /\
  encode housing (ArrObj [EMem (mkMem 7 0 "tenant"); EMem (mkMem 7 1 "owner"); EMem (mkMem 8 0 "a")]) = Err EType /\
  encode other (Seq [EMem (mkMem 8 0 "a")]) = Ok (mkArr (Some other) [0]).
Proof. vm_compute. auto. Qed.

Example ex_unsupported :
  encode housing (Seq [EInt 0; EOther]) = Err EType /\
  encode housing (ArrObj [EMem (mkMem 7 0 "tenant"); EOther]) = Err EType /\
  encode housing (ArrOther 2) = Err EType /\
  encode housing (Seq [EInt 0; EStr "owner"]) = Err EType.
Proof. vm_compute. auto. Qed.

Example ex_invalid_hyp : input_invalid housing (Seq [EStr "owner"; EInt 9]).
Proof. cbn. exists (EInt 9). split; [auto|]. right. vm_compute. discriminate. Qed.

Example ex_search :
  argsort (names housing) = [3; 2; 4; 1; 0]%nat /\
  lookup (names housing) (argsort (names housing)) "own" = Ok 4 /\
  searchsorted (names housing) (argsort (names housing)) "owne" = Ok 3%nat /\
  searchsorted (names housing) (argsort (names housing)) "zzz" = Ok 5%nat /\
  str_to_index housing ["own"; "owne"; "tenant"] = Ok [4; 0].
Proof. vm_compute. auto 6. Qed.
