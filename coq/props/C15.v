(** C15 - Enum values survive encoding and decoding; invalid ones are rejected.
    Only statements here; proofs are in proofs/EnumProofs.v. *)
From Coq Require Import String ZArith List Bool.
From Verif Require Import Base EnumModel EnumProofs.
Import ListNotations.
Open Scope Z_scope.

Theorem encode_encoded_unchanged : forall e a, encode e (Encoded a) = Ok a.
Proof. exact encode_encoded. Qed.
Print Assumptions encode_encoded_unchanged.
