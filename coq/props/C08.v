(** C08 - Tax scales compute their mathematical definition for every base.
    Only statements here; proofs are in proofs/ScaleProofs.v and proofs/ScaleC08Proofs.v.

    A scale is the list of its brackets (threshold, rate-or-amount); [build calls] is the
    scale produced by the add_bracket calls [calls].  [eps] is the threshold shift of the
    code (thresholds are multiplied by factor + eps); eps = 0 gives the property's text.

    Vocabulary (ScaleProofs.v section 4, ScaleC08Proofs.v "Specifications"):
      overlap lo hi b      = max(0, min(b, hi) - lo): length of [lo, hi) ∩ (-inf, b); hi may be +inf
      upper_end rest       = threshold of the next bracket, +inf after the last one
      marginal_tax b s     = sum over the brackets (t_i, r_i) of s of r_i * overlap t_i t_i+1 b
      shift_thresholds m s = the scale with every threshold multiplied by m
      amounts_below b s    = sum of the amounts a_i of the brackets with t_i < b
      in_bracket right lo hi b = lo <= b < hi   (right = false);   lo < b <= hi   (right = true)
      before right b t     = b < t (right = false);  b <= t (right = true)
      interpolated_rate t0 r0 t1 r1 b = r0 + (b - t0) * (r1 - r0) / (t1 - t0);  r0 when t1 = +inf
      seq s s'             = same brackets up to [==] on the rationals
      sorted s / esorted s = thresholds strictly increasing (finite / possibly +inf thresholds)
      lookup t calls       = sum of the rates of the calls whose threshold is == t
    A scale is split as  pre ++ (t, r) :: post  to name "the bracket starting at t". *)
From Coq Require Import ZArith QArith Qminmax List Bool Permutation.
From Verif Require Import Base Scale ScaleProofs ScaleC08Proofs.
Import ListNotations.
Open Scope Q_scope.

(* ------------------------------------------------------------------------- *)
(** * marginal-rate scale                                                      *)
(* ------------------------------------------------------------------------- *)

(** Sum over brackets of rate times the part of the base inside the bracket; thresholds as
    the code shifts them, t' = t * (factor + eps).  Holds for every scale, sorted or not
    ([overlap] of an empty interval is 0), for whole vectors of bases. *)
Theorem marginal_rate_def : forall eps factor s bases,
  Forall2 Qeq (calc_marginal eps factor None s bases)
              (map (fun b => marginal_tax b (shift_thresholds (factor + eps) s)) bases).
Proof. exact calc_marginal_def. Qed.
Print Assumptions marginal_rate_def.

(** the statement of the property: no shift, factor 1 *)
Theorem marginal_rate_def_clean : forall s bases,
  Forall2 Qeq (calc_marginal 0 1 None s bases) (map (fun b => marginal_tax b s) bases).
Proof. exact calc_marginal_def_clean. Qed.
Print Assumptions marginal_rate_def_clean.

(** [marginal_tax] is the textbook function: 0 up to the first threshold, then continuous
    and linear with slope r inside the bracket starting at t. *)
Theorem marginal_tax_is_zero_below : forall b s,
  Forall (fun x => b <= fst x) s -> marginal_tax b s == 0.
Proof. exact marginal_tax_zero_below. Qed.
Print Assumptions marginal_tax_is_zero_below.

Theorem marginal_tax_is_piecewise_linear : forall pre t r post b,
  sorted (pre ++ (t, r) :: post) ->
  t <= b -> match upper_end post with Fin h => b <= h | Inf => True end ->
  marginal_tax b (pre ++ (t, r) :: post) == marginal_tax t (pre ++ (t, r) :: post) + r * (b - t).
Proof. exact marginal_tax_piecewise_linear. Qed.
Print Assumptions marginal_tax_is_piecewise_linear.

(* ------------------------------------------------------------------------- *)
(** * marginal-amount scale                                                    *)
(* ------------------------------------------------------------------------- *)

Theorem marginal_amount_def : forall s bases,
  sorted s ->
  Forall2 Qeq (calc_marginal_amount s bases) (map (fun b => amounts_below b s) bases).
Proof. exact calc_marginal_amount_def. Qed.
Print Assumptions marginal_amount_def.

Theorem marginal_amount_def_build : forall calls bases,
  Forall2 Qeq (calc_marginal_amount (build calls) bases)
              (map (fun b => amounts_below b (build calls)) bases).
Proof. exact calc_marginal_amount_def_build. Qed.
Print Assumptions marginal_amount_def_build.

(* ------------------------------------------------------------------------- *)
(** * single-amount scale                                                      *)
(* ------------------------------------------------------------------------- *)

(** the amount of the one bracket containing the base (both [right] modes of digitize) *)
Theorem single_amount_def : forall right pre t a post b,
  sorted (pre ++ (t, a) :: post) ->
  in_bracket right t (upper_end post) b ->
  calc_single_amount right (pre ++ (t, a) :: post) [b] = [a].
Proof. exact calc_single_amount_def. Qed.
Print Assumptions single_amount_def.

(** 0 outside: a base before every threshold *)
Theorem single_amount_outside : forall right s b,
  Forall (fun x => before right b (fst x)) s ->
  calc_single_amount right s [b] = [0].
Proof. exact calc_single_amount_outside. Qed.
Print Assumptions single_amount_outside.

(* ------------------------------------------------------------------------- *)
(** * linear-average-rate scale                                                *)
(* ------------------------------------------------------------------------- *)

(** base times the rate interpolated linearly between the two thresholds around it *)
Theorem linear_average_def : forall pre t0 r0 t1 r1 post b,
  sorted (pre ++ (t0, r0) :: (t1, r1) :: post) ->
  t0 <= b < t1 ->
  exists v, calc_linear_average (to_escale (pre ++ (t0, r0) :: (t1, r1) :: post)) [b] = Ok [v]
            /\ v == b * (r0 + (b - t0) * ((r1 - r0) / (t1 - t0))).
Proof. exact calc_linear_average_def_fin. Qed.
Print Assumptions linear_average_def.

(** the same when thresholds may be +inf (scales produced by to_average) *)
Theorem linear_average_def_ext : forall pre t0 r0 t1 r1 post b,
  esorted (pre ++ (Fin t0, r0) :: (t1, r1) :: post) ->
  in_bracket false t0 t1 b ->
  exists v, calc_linear_average (pre ++ (Fin t0, r0) :: (t1, r1) :: post) [b] = Ok [v]
            /\ v == b * interpolated_rate t0 r0 t1 r1 b.
Proof. exact calc_linear_average_def. Qed.
Print Assumptions linear_average_def_ext.

(* ------------------------------------------------------------------------- *)
(** * the bracket and the marginal rate reported for a base                    *)
(* ------------------------------------------------------------------------- *)

(** For factor + eps > 0 and a base in the shifted interval [t * m, t_next * m) of the
    bracket starting at t (m = factor + eps): the index is the position of that bracket,
    the marginal rate its rate, the threshold its threshold. *)
Theorem bracket_of_base : forall eps factor pre t r post b,
  sorted (pre ++ (t, r) :: post) ->
  0 < factor + eps ->
  in_bracket false ((factor + eps) * t) (emul (factor + eps) (upper_end post)) b ->
  bracket_indices eps factor None (pre ++ (t, r) :: post) [b] = Ok [Z.of_nat (length pre)].
Proof. exact bracket_of_base_index. Qed.
Print Assumptions bracket_of_base.

Theorem marginal_rate_of_base : forall eps factor pre t r post b,
  sorted (pre ++ (t, r) :: post) ->
  0 < factor + eps ->
  in_bracket false ((factor + eps) * t) (emul (factor + eps) (upper_end post)) b ->
  marginal_rates eps factor None (pre ++ (t, r) :: post) [b] = Ok [r].
Proof. exact bracket_of_base_rate. Qed.
Print Assumptions marginal_rate_of_base.

Theorem rate_from_tax_base_of_base : forall eps pre t r post b,
  sorted (pre ++ (t, r) :: post) ->
  0 < 1 + eps ->
  in_bracket false ((1 + eps) * t) (emul (1 + eps) (upper_end post)) b ->
  rate_from_tax_base eps (pre ++ (t, r) :: post) [b] = Ok [r].
Proof. exact bracket_of_base_rate_from. Qed.
Print Assumptions rate_from_tax_base_of_base.

Theorem threshold_from_tax_base_of_base : forall eps pre t r post b,
  sorted (pre ++ (t, r) :: post) ->
  0 < 1 + eps ->
  in_bracket false ((1 + eps) * t) (emul (1 + eps) (upper_end post)) b ->
  threshold_from_tax_base eps (pre ++ (t, r) :: post) [b] = Ok [t].
Proof. exact bracket_of_base_threshold_from. Qed.
Print Assumptions threshold_from_tax_base_of_base.

(* ------------------------------------------------------------------------- *)
(** * results do not depend on the order in which brackets were added          *)
(* ------------------------------------------------------------------------- *)

Theorem insertion_order_irrelevant : forall calls1 calls2,
  Permutation calls1 calls2 -> seq (build calls1) (build calls2).
Proof. exact build_perm. Qed.
Print Assumptions insertion_order_irrelevant.

(** canonical form: strictly increasing thresholds, exactly the thresholds of the calls,
    each with the sum of the rates given for it *)
Theorem build_canonical : forall calls,
  sorted (build calls)
  /\ (forall t, mem_thr t (build calls) = mem_thr t calls)
  /\ (forall t r, In (t, r) (build calls) -> r == lookup t calls).
Proof. exact build_canonical_form. Qed.
Print Assumptions build_canonical.

Theorem tax_insertion_order_irrelevant : forall eps factor calls1 calls2 bases,
  Permutation calls1 calls2 ->
  Forall2 Qeq (calc_marginal eps factor None (build calls1) bases)
              (calc_marginal eps factor None (build calls2) bases).
Proof. exact calc_marginal_order_irrelevant. Qed.
Print Assumptions tax_insertion_order_irrelevant.

(* ------------------------------------------------------------------------- *)
(** * a vector of bases gives the values of each base alone                    *)
(* ------------------------------------------------------------------------- *)

Theorem vector_is_pointwise_marginal_rate : forall eps factor round s bases,
  calc_marginal eps factor round s bases
  = concat (map (fun b => calc_marginal eps factor round s [b]) bases).
Proof. exact calc_marginal_pointwise. Qed.
Print Assumptions vector_is_pointwise_marginal_rate.

Theorem vector_is_pointwise_marginal_amount : forall s bases,
  calc_marginal_amount s bases = concat (map (fun b => calc_marginal_amount s [b]) bases).
Proof. exact calc_marginal_amount_pointwise. Qed.
Print Assumptions vector_is_pointwise_marginal_amount.

Theorem vector_is_pointwise_single_amount : forall right s bases,
  calc_single_amount right s bases = concat (map (fun b => calc_single_amount right s [b]) bases).
Proof. exact calc_single_amount_pointwise. Qed.
Print Assumptions vector_is_pointwise_single_amount.

Theorem vector_is_pointwise_linear_average : forall s bases,
  s <> [] ->
  exists l, calc_linear_average s bases = Ok l
            /\ Forall2 (fun b v => calc_linear_average s [b] = Ok [v]) bases l.
Proof. exact calc_linear_average_pointwise. Qed.
Print Assumptions vector_is_pointwise_linear_average.

Theorem vector_is_pointwise_bracket_indices : forall eps factor round s bases,
  s <> [] -> bases <> [] ->
  exists l, bracket_indices eps factor round s bases = Ok l
            /\ Forall2 (fun b k => bracket_indices eps factor round s [b] = Ok [k]) bases l.
Proof. exact bracket_indices_pointwise. Qed.
Print Assumptions vector_is_pointwise_bracket_indices.

Theorem vector_is_pointwise_marginal_rates : forall eps factor round s bases,
  s <> [] -> bases <> [] ->
  exists l, marginal_rates eps factor round s bases = Ok l
            /\ Forall2 (fun b k => marginal_rates eps factor round s [b] = Ok [k]) bases l.
Proof. exact marginal_rates_pointwise. Qed.
Print Assumptions vector_is_pointwise_marginal_rates.

(* ------------------------------------------------------------------------- *)
(** * Non-vacuity: a concrete 3-bracket scale                                  *)
(* ------------------------------------------------------------------------- *)

(** brackets from 0 at 10 %, from 10 at 20 %, from 20 at 30 %, added out of order *)
Example s3_build :
  build [(20, 3 # 10); (0, 1 # 10); (10, 2 # 10)] = [(0, 1 # 10); (10, 2 # 10); (20, 3 # 10)].
Proof. reflexivity. Qed.

Example s3_sorted : sorted ([(0, 1 # 10)] ++ (10, 2 # 10) :: [(20, 3 # 10)]).
Proof. unfold sorted. cbn. repeat constructor. Qed.

(** merging: two calls on the same threshold sum their rates *)
Example s3_build_merge :
  seq (build [(10, 1 # 10); (0, 1 # 10); (10, 1 # 10)]) [(0, 1 # 10); (10, 2 # 10)].
Proof. cbn. repeat constructor. Qed.

(** 25 is taxed 10*0.1 + 10*0.2 + 5*0.3 = 4.5; 5 -> 0.5; -1 -> 0; 10 -> 1 *)
Example marginal_rate_def_ex :
  Forall2 Qeq (calc_marginal 0 1 None [(0, 1 # 10); (10, 2 # 10); (20, 3 # 10)] [25; 5; -1; 10])
              [9 # 2; 1 # 2; 0; 1].
Proof. cbn. repeat constructor. Qed.

Example marginal_tax_ex :
  map (fun b => Qred (marginal_tax b [(0, 1 # 10); (10, 2 # 10); (20, 3 # 10)])) [25; 5; -1; 10]
  = [9 # 2; 1 # 2; 0; 1].
Proof. reflexivity. Qed.

Example marginal_tax_is_piecewise_linear_ex :
  marginal_tax 15 ([(0, 1 # 10)] ++ (10, 2 # 10) :: [(20, 3 # 10)])
  == marginal_tax 10 ([(0, 1 # 10)] ++ (10, 2 # 10) :: [(20, 3 # 10)]) + (2 # 10) * (15 - 10).
Proof.
  apply marginal_tax_is_piecewise_linear; [exact s3_sorted|discriminate|discriminate].
Qed.

Example marginal_amount_def_ex :
  Forall2 Qeq (calc_marginal_amount [(0, 1); (10, 2); (20, 4)] [25; 10; 0; 11]) [7; 1; 0; 3].
Proof. cbn. repeat constructor. Qed.

Example single_amount_def_ex :
  calc_single_amount false ([(0, 1)] ++ (10, 2) :: [(20, 4)]) [10] = [2]
  /\ calc_single_amount true ([(0, 1)] ++ (10, 2) :: [(20, 4)]) [20] = [2].
Proof.
  split.
  - apply single_amount_def; [unfold sorted; cbn; repeat constructor|].
    split; [discriminate|reflexivity].
  - apply single_amount_def; [unfold sorted; cbn; repeat constructor|].
    split; [reflexivity|discriminate].
Qed.

Example single_amount_outside_ex : calc_single_amount false [(0, 1); (10, 2); (20, 4)] [-1] = [0].
Proof. apply single_amount_outside. repeat constructor. Qed.

Example linear_average_def_ex :
  exists v, calc_linear_average (to_escale ([(0, 0)] ++ (10, 1 # 10) :: (20, 2 # 10) :: [])) [15] = Ok [v]
            /\ v == 15 * ((1 # 10) + (15 - 10) * (((2 # 10) - (1 # 10)) / (20 - 10))).
Proof.
  apply linear_average_def; [unfold sorted; cbn; repeat constructor|].
  split; [discriminate|reflexivity].
Qed.

(** a base equal to a positive threshold is in the lower bracket when eps > 0, in the
    bracket starting there when eps = 0 *)
Example bracket_of_base_ex :
  bracket_indices 0 1 None ([(0, 1 # 10)] ++ (10, 2 # 10) :: [(20, 3 # 10)]) [10] = Ok [1%Z]
  /\ bracket_indices (1 # 1000) 1 None ([] ++ (0, 1 # 10) :: [(10, 2 # 10); (20, 3 # 10)]) [10] = Ok [0%Z].
Proof.
  split.
  - apply (bracket_of_base 0 1 [(0, 1 # 10)]); [exact s3_sorted|reflexivity|].
    split; [discriminate|reflexivity].
  - apply (bracket_of_base (1 # 1000) 1 []); [exact s3_sorted|reflexivity|].
    split; [discriminate|reflexivity].
Qed.

Example marginal_rate_of_base_ex :
  marginal_rates 0 1 None ([(0, 1 # 10)] ++ (10, 2 # 10) :: [(20, 3 # 10)]) [15] = Ok [2 # 10].
Proof.
  apply (marginal_rate_of_base 0 1 [(0, 1 # 10)]); [exact s3_sorted|reflexivity|].
  split; [discriminate|reflexivity].
Qed.

Example insertion_order_irrelevant_ex :
  seq (build [(20, 3 # 10); (0, 1 # 10); (10, 2 # 10)]) (build [(10, 2 # 10); (20, 3 # 10); (0, 1 # 10)]).
Proof.
  apply insertion_order_irrelevant.
  apply perm_trans with [(10, 2 # 10); (20, 3 # 10); (0, 1 # 10)]; [|apply Permutation_refl].
  apply Permutation_sym. apply (Permutation_cons_app [(20, 3 # 10); (0, 1 # 10)] []). apply Permutation_refl.
Qed.
