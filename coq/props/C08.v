(** C08 - Tax scales compute their mathematical definition for every base.
    Only statements here; proofs are in proofs/Scale*Proofs.v.

    Vocabulary (defined in proofs/ScaleProofs.v, section 4 "Specifications"):
      overlap lo hi b     = max(0, min(b, hi) - lo)    length of [lo, hi) ∩ (-inf, b); hi may be +inf
      upper_end rest      = threshold of the next bracket, +inf after the last one
      marginal_tax b s    = sum over the brackets (t_i, r_i) of s of r_i * overlap t_i t_i+1 b
      shift_thresholds m s = the scale with every threshold multiplied by m
      seq s s'            = same brackets up to [==] on the rationals
      sorted s            = thresholds strictly increasing
      lookup t calls      = sum of the rates of the calls whose threshold is == t *)
From Coq Require Import ZArith QArith Qminmax List Bool Permutation.
From Verif Require Import Base Scale ScaleProofs.
Import ListNotations.
Open Scope Q_scope.

(** ** a vector of bases gives the values of each base alone *)

Theorem vector_is_pointwise_marginal_rate : forall eps factor round s bases,
  calc_marginal eps factor round s bases
  = concat (map (fun b => calc_marginal eps factor round s [b]) bases).
Proof. exact calc_marginal_pointwise. Qed.
Print Assumptions vector_is_pointwise_marginal_rate.

(** ** marginal-rate scale: sum over brackets of rate times the part of the base inside the
    bracket; thresholds as the code shifts them, t' = t * (factor + eps).  Holds for every
    scale, sorted or not ([overlap] of an empty interval is 0). *)

Theorem marginal_rate_def : forall eps factor s bases,
  Forall2 Qeq (calc_marginal eps factor None s bases)
              (map (fun b => marginal_tax b (shift_thresholds (factor + eps) s)) bases).
Proof. exact calc_marginal_def. Qed.
Print Assumptions marginal_rate_def.

(** the statement of the property: no shift, factor 1 *)
Theorem marginal_rate_def_clean : forall s bases,
  Forall2 Qeq (calc_marginal 0 1 None s bases) (map (fun b => marginal_tax b s) bases).
Proof. exact calc_marginal_def_clean. Qed.
Print Assumptions marginal_rate_def_clean.

(** ** results do not depend on the order in which brackets were added *)

Theorem insertion_order_irrelevant : forall calls1 calls2,
  Permutation calls1 calls2 -> seq (build calls1) (build calls2).
Proof. exact build_perm. Qed.
Print Assumptions insertion_order_irrelevant.

(** canonical form: strictly increasing thresholds, exactly the thresholds of the calls,
    each with the sum of the rates given for it *)
Theorem build_canonical : forall calls,
  sorted (build calls)
  /\ (forall t, mem_thr t (build calls) = mem_thr t calls)
  /\ (forall t r, In (t, r) (build calls) -> r == lookup t calls).
Proof. exact build_canonical_form. Qed.
Print Assumptions build_canonical.
