(** C08 - Tax scales compute their mathematical definition for every base.
    Only statements here; proofs are in proofs/Scale*Proofs.v. *)
From Coq Require Import ZArith QArith Qminmax List Bool Permutation.
From Verif Require Import Base Scale ScaleProofs.
Import ListNotations.
Open Scope Q_scope.

Theorem vector_is_pointwise_marginal_rate : forall eps factor round s bases,
  calc_marginal eps factor round s bases
  = concat (map (fun b => calc_marginal eps factor round s [b]) bases).
Proof. exact calc_marginal_pointwise. Qed.
Print Assumptions vector_is_pointwise_marginal_rate.
