(** C11 - placeholder while the harness is built *)
From Coq Require Import ZArith List Bool Arith.
From Verif Require Import Base Np Group Engine Merge.
Import ListNotations.
Open Scope nat_scope.

Theorem gather_nil : forall (A : Type) (f : list nat), @gather A f [] = [].
Proof. intros A f. induction f as [|j f IH]; [reflexivity|]. unfold gather in *. cbn [flat_map]. rewrite IH. destruct j; reflexivity. Qed.
Print Assumptions gather_nil.
