(** C11 - Each entity's result is independent of the other entities simulated with it.
    Only statements here; proofs are in proofs/Merge{Lists,Emb,Eval,Proofs}.v.

    Vocabulary.  coq/model/Engine.v: [sem sy pp inp v p] is the meaning of variable [v] at
    period [p] of rule system [sy] on population [pp] and inputs [inp] (value or error
    kind); [calc] is the machine (Simulation.calculate).  coq/model/Merge.v:
    - a placement [f] gives element number i the new position [nth i f 0];
      [interleaving f1 f2 n1 n2]: [f1] (n1 positions) and [f2] (n2 positions) together are
      a permutation of 0 .. n1+n2-1 - ANY order of the merged entities, each situation's
      internal order kept or not;
    - [merge f1 f2 g1 g2 pp1 pp2]: the one population holding both situations, persons
      placed by [f1]/[f2], groups by [g1]/[g2] ([merge_population_spec] below);
      [merge_inputs]: the merged input arrays; [restrict f a]: the elements of the merged
      array [a] at the positions [f], i.e. the part of one situation in its own order;
    - [permute sp sg pp], [permute_inputs], [place f a]: the situation with its persons
      renumbered by [sp] and its groups by [sg]; the array whose element [nth i f 0] is
      element i of [a];
    - [pick (ent_of sy v) fp fg]: the person placement for a person variable, the group
      placement for a group variable;
    - [kinded sy]: every formula returns one value per entity of its variable
      (aggregations / nb_persons in group formulas over person-level arguments, projections
      in person formulas over group-level arguments); [inputs_wf]: every input array has one
      element per entity (what set_input checks).
    GroupSpec.v: [wf_pop]: every person belongs to a group of the simulation and has a role.
    [roles_unique p]: a role declared unique (max = 1) is held by at most one member of
    every group (what SimulationBuilder enforces).

    The expression language of Engine.v has the group operations sum / any / all /
    nb_persons / project, with and without role, and value_from_person for a unique role
    ([GFromPerson]); it has no position-dependent primitive
    (value_nth_person, first_person, get_rank), so the second sentence of the property
    holds for every rule system of the model.  Every situation has at least one person
    (SimulationBuilder refuses a situation without persons; group.all raises on one). *)
From Coq Require Import ZArith List Bool Arith String Lia.
From Verif Require Import Base Cal Period Np Group GroupSpec Engine EngineProofs Merge MergeProofs.
Import ListNotations.
Open Scope nat_scope.
Local Notation length := List.length.

(** Simulating two situations together, in any interleaved order of persons and of groups:
    every variable at every period, restricted to the entities of one situation, is what
    that situation gives alone - the same values, or the same error. *)
Theorem merge_independence : forall sy pp1 pp2 inp1 inp2 f1 f2 g1 g2,
  kinded sy = true ->
  wf_pop (grp pp1) -> wf_pop (grp pp2) -> g_entity (grp pp2) = g_entity (grp pp1) ->
  roles_unique (grp pp1) -> roles_unique (grp pp2) ->
  interleaving f1 f2 (npersons (grp pp1)) (npersons (grp pp2)) = true ->
  interleaving g1 g2 (g_count (grp pp1)) (g_count (grp pp2)) = true ->
  inputs_wf sy pp1 inp1 -> inputs_wf sy pp2 inp2 -> map fst inp1 = map fst inp2 ->
  forall v p,
    (0 < npersons (grp pp1) ->
     rmap (restrict (pick (ent_of sy v) f1 g1))
          (sem sy (merge f1 f2 g1 g2 pp1 pp2) (merge_inputs sy f1 f2 g1 g2 inp1 inp2) v p)
     = sem sy pp1 inp1 v p)
    /\
    (0 < npersons (grp pp2) ->
     rmap (restrict (pick (ent_of sy v) f2 g2))
          (sem sy (merge f1 f2 g1 g2 pp1 pp2) (merge_inputs sy f1 f2 g1 g2 inp1 inp2) v p)
     = sem sy pp2 inp2 v p).
Proof. exact merge_independence_lemma. Qed.
Print Assumptions merge_independence.

(** Reordering the persons and the groups of a situation permutes every result
    accordingly and changes no value (and no error). *)
Theorem permutation_equivariance : forall sy pp inp sp sg,
  kinded sy = true -> wf_pop (grp pp) -> 0 < npersons (grp pp) -> roles_unique (grp pp) ->
  is_perm_b sp (npersons (grp pp)) = true -> is_perm_b sg (g_count (grp pp)) = true ->
  inputs_wf sy pp inp ->
  forall v p,
    sem sy (permute sp sg pp) (permute_inputs sy sp sg inp) v p
    = rmap (place (pick (ent_of sy v) sp sg)) (sem sy pp inp v p).
Proof. exact permutation_equivariance_lemma. Qed.
Print Assumptions permutation_equivariance.

(** The same for the machine (cache, evaluation stack, spiral test, purge), for ranked rule
    systems, between any two top-level requests of the three simulations ([Top]: C01). *)
Theorem merge_independence_calculate : forall sy pp1 pp2 inp1 inp2 f1 f2 g1 g2,
  ranked sy = true -> 1 <= max_loops sy -> kinded sy = true ->
  wf_pop (grp pp1) -> wf_pop (grp pp2) -> g_entity (grp pp2) = g_entity (grp pp1) ->
  roles_unique (grp pp1) -> roles_unique (grp pp2) ->
  interleaving f1 f2 (npersons (grp pp1)) (npersons (grp pp2)) = true ->
  interleaving g1 g2 (g_count (grp pp1)) (g_count (grp pp2)) = true ->
  inputs_wf sy pp1 inp1 -> inputs_wf sy pp2 inp2 -> map fst inp1 = map fst inp2 ->
  0 < npersons (grp pp1) -> 0 < npersons (grp pp2) ->
  let ppM := merge f1 f2 g1 g2 pp1 pp2 in
  let inpM := merge_inputs sy f1 f2 g1 g2 inp1 inp2 in
  forall sM s1 s2 v p, Top sy ppM inpM sM -> Top sy pp1 inp1 s1 -> Top sy pp2 inp2 s2 ->
    rmap (restrict (pick (ent_of sy v) f1 g1)) (snd (calc (enough_fuel sy) sy ppM sM v p))
    = snd (calc (enough_fuel sy) sy pp1 s1 v p)
    /\
    rmap (restrict (pick (ent_of sy v) f2 g2)) (snd (calc (enough_fuel sy) sy ppM sM v p))
    = snd (calc (enough_fuel sy) sy pp2 s2 v p).
Proof. exact merge_independence_calc_lemma. Qed.
Print Assumptions merge_independence_calculate.

Theorem permutation_equivariance_calculate : forall sy pp inp sp sg,
  ranked sy = true -> 1 <= max_loops sy -> kinded sy = true ->
  wf_pop (grp pp) -> 0 < npersons (grp pp) -> roles_unique (grp pp) ->
  is_perm_b sp (npersons (grp pp)) = true -> is_perm_b sg (g_count (grp pp)) = true ->
  inputs_wf sy pp inp ->
  forall sP s v p, Top sy (permute sp sg pp) (permute_inputs sy sp sg inp) sP -> Top sy pp inp s ->
    snd (calc (enough_fuel sy) sy (permute sp sg pp) sP v p)
    = rmap (place (pick (ent_of sy v) sp sg)) (snd (calc (enough_fuel sy) sy pp s v p)).
Proof. exact permutation_equivariance_calc_lemma. Qed.
Print Assumptions permutation_equivariance_calculate.

(** What the merged population is: person i of situation k is the person [nth i f_k 0] of
    the merged population, member of group [nth (its group) g_k 0], with its role; the
    merged population has exactly these persons and groups. *)
Theorem merge_population_spec : forall p1 p2 f1 f2 g1 g2,
  wf_pop p1 -> wf_pop p2 ->
  interleaving f1 f2 (npersons p1) (npersons p2) = true ->
  interleaving g1 g2 (g_count p1) (g_count p2) = true ->
  let pM := merge_pop f1 f2 g1 g2 p1 p2 in
  wf_pop pM /\ npersons pM = npersons p1 + npersons p2 /\ g_count pM = g_count p1 + g_count p2
  /\ (forall i, i < npersons p1 ->
        group_of pM (nth i f1 0) = nth (group_of p1 i) g1 0 /\ role_of pM (nth i f1 0) = role_of p1 i)
  /\ (forall i, i < npersons p2 ->
        group_of pM (nth i f2 0) = nth (group_of p2 i) g2 0 /\ role_of pM (nth i f2 0) = role_of p2 i).
Proof. exact merge_pop_spec_lemma. Qed.
Print Assumptions merge_population_spec.

(** Merging two arrays and restricting gives them back; placing and restricting are inverse. *)
Theorem restrict_merge_arr : forall (f1 f2 : list nat) (a1 a2 : list Z),
  interleaving f1 f2 (length a1) (length a2) = true ->
  restrict f1 (merge_arr f1 f2 a1 a2) = a1 /\ restrict f2 (merge_arr f1 f2 a1 a2) = a2.
Proof. exact restrict_merge_arr_lemma. Qed.
Print Assumptions restrict_merge_arr.

Theorem place_restrict : forall (f : list nat) (a : list Z),
  is_perm_b f (length a) = true -> place f (restrict f a) = a /\ restrict f (place f a) = a.
Proof. exact place_restrict_lemma. Qed.
Print Assumptions place_restrict.

(** The interleavings that keep each situation's internal order (a list of booleans: whose
    turn it is) are interleavings. *)
Theorem bools_interleaving : forall il,
  let '(f1, f2) := placement_of_bools il 0 in
  interleaving f1 f2 (length f1) (length f2) = true.
Proof. exact bools_interleaving_lemma. Qed.
Print Assumptions bools_interleaving.

(** * Non-vacuity: two households and a half, every group operation, a shuffled merge *)

Definition ex_entity : gentity :=
  {| e_key := "household"%string;
     e_roles := [ {| r_key := "parent"%string; r_max := Some 2; r_subs := []; r_top := true |};
                  {| r_key := "child"%string; r_max := None; r_subs := []; r_top := true |};
                  {| r_key := "head"%string; r_max := Some 1; r_subs := []; r_top := true |} ];
     e_containing := [] |}.
(** household 0: a head and a child; household 1: a parent, no head *)
Definition ex_pop1 : popu :=
  {| grp := {| g_entity := ex_entity; g_count := 2; g_ids := [0; 1; 0]; g_roles := [2; 0; 1] |} |}.
(** the second situation has a trailing household without members *)
Definition ex_pop2 : popu :=
  {| grp := {| g_entity := ex_entity; g_count := 2; g_ids := [0; 0]; g_roles := [1; 2] |} |}.

Definition jan : period := (Month, (2018, 1, 1)%Z, 1%Z).
Definition ex_sys : sys :=
  {| vars := [ mk_var EPerson TInt Month None [] 0%Z false false;
               (* household: sum of the children's v0 + number of persons + 100 if all members have v0 > 6 *)
               mk_var EGroup TInt Month None
                 [((1, 1, 1)%Z,
                   EBin BAdd (EBin BAdd (EAgg GSum (Some 1) (EDep 0 PSame OPlain)) (ENb None))
                     (EBin BMul (EConst 100) (EAgg GAll None (EBin BLt (EConst 6) (EDep 0 PSame OPlain)))))]
                 0%Z false false;
               (* person: the household's v1 for parents (0 for the others) + own v0 + any(v0 > 25) *)
               mk_var EPerson TInt Month None
                 [((1, 1, 1)%Z,
                   EBin BAdd (EBin BAdd (EProject (Some 0) (EDep 1 PSame OPlain)) (EDep 0 PSame OPlain))
                     (EProject None (EAgg GAny None (EBin BLt (EConst 25) (EDep 0 PSame OPlain)))))]
                 0%Z false false;
               (* household: the head's v0 (0 without a head) *)
               mk_var EGroup TInt Month None
                 [((1, 1, 1)%Z, EAgg GFromPerson (Some 2) (EDep 0 PSame OPlain))] 0%Z false false ];
     params := []; switches := []; max_loops := 1 |}.
Definition ex_inp1 : inputs := [((0, jan), [10; 20; 30]%Z)].
Definition ex_inp2 : inputs := [((0, jan), [5; 7]%Z)].
(** merged persons: [s1p1; s2p0; s1p2; s2p1; s1p0], merged households: [s2h0; s1h1; s2h1; s1h0] *)
Definition ex_f1 := [4; 0; 2].  Definition ex_f2 := [1; 3].
Definition ex_g1 := [3; 1].     Definition ex_g2 := [0; 2].

Lemma ex_inputs_wf pp a : length a = npersons (grp pp) -> inputs_wf ex_sys pp [((0, jan), a)].
Proof.
  intros Ha v x p b Hv Hl. unfold lookup in Hl. cbn [find fst] in Hl.
  destruct (key_eqb (v, p) (0, jan)) eqn:Ek; [|discriminate]. cbn in Hl. inversion Hl; subst b.
  unfold key_eqb in Ek. apply andb_prop in Ek as [Ev _]. cbn [fst] in Ev. apply Nat.eqb_eq in Ev. subst v.
  cbn in Hv. inversion Hv; subst x. exact Ha.
Qed.

Lemma ex_unique1 : roles_unique (grp ex_pop1).
Proof.
  intros r Hr g Hg. destruct r as [|[|[|r]]]; cbn in Hr; try discriminate; [|destruct r; discriminate].
  destruct g as [|[|g]]; [vm_compute; lia|vm_compute; lia|cbn in Hg; lia].
Qed.
Lemma ex_unique2 : roles_unique (grp ex_pop2).
Proof.
  intros r Hr g Hg. destruct r as [|[|[|r]]]; cbn in Hr; try discriminate; [|destruct r; discriminate].
  destruct g as [|[|g]]; [vm_compute; lia|vm_compute; lia|cbn in Hg; lia].
Qed.

Lemma ex_wf1 : wf_pop (grp ex_pop1).
Proof. split; [repeat constructor|reflexivity]. Qed.
Lemma ex_wf2 : wf_pop (grp ex_pop2).
Proof. split; [repeat constructor|reflexivity]. Qed.

(** the hypotheses of [merge_independence] hold, so its conclusion does ... *)
Example merge_independence_applies : forall v p,
  rmap (restrict (pick (ent_of ex_sys v) ex_f1 ex_g1))
       (sem ex_sys (merge ex_f1 ex_f2 ex_g1 ex_g2 ex_pop1 ex_pop2)
            (merge_inputs ex_sys ex_f1 ex_f2 ex_g1 ex_g2 ex_inp1 ex_inp2) v p)
  = sem ex_sys ex_pop1 ex_inp1 v p
  /\
  rmap (restrict (pick (ent_of ex_sys v) ex_f2 ex_g2))
       (sem ex_sys (merge ex_f1 ex_f2 ex_g1 ex_g2 ex_pop1 ex_pop2)
            (merge_inputs ex_sys ex_f1 ex_f2 ex_g1 ex_g2 ex_inp1 ex_inp2) v p)
  = sem ex_sys ex_pop2 ex_inp2 v p.
Proof.
  intros v p.
  destruct (merge_independence ex_sys ex_pop1 ex_pop2 ex_inp1 ex_inp2 ex_f1 ex_f2 ex_g1 ex_g2
              eq_refl ex_wf1 ex_wf2 eq_refl ex_unique1 ex_unique2 eq_refl eq_refl
              (ex_inputs_wf ex_pop1 [10; 20; 30]%Z eq_refl) (ex_inputs_wf ex_pop2 [5; 7]%Z eq_refl) eq_refl v p) as [A B].
  split; [apply A|apply B]; cbn; repeat constructor.
Qed.

(** ... and it is not trivial: the values *)
Example merge_values :
  sem ex_sys (merge ex_f1 ex_f2 ex_g1 ex_g2 ex_pop1 ex_pop2)
      (merge_inputs ex_sys ex_f1 ex_f2 ex_g1 ex_g2 ex_inp1 ex_inp2) 1 jan
  = Ok [7; 101; 100; 132]%Z
  /\ sem ex_sys ex_pop1 ex_inp1 1 jan = Ok [132; 101]%Z
  /\ sem ex_sys ex_pop2 ex_inp2 1 jan = Ok [7; 100]%Z
  /\ sem ex_sys (merge ex_f1 ex_f2 ex_g1 ex_g2 ex_pop1 ex_pop2)
         (merge_inputs ex_sys ex_f1 ex_f2 ex_g1 ex_g2 ex_inp1 ex_inp2) 2 jan
     = Ok [121; 5; 31; 7; 11]%Z
  /\ sem ex_sys ex_pop1 ex_inp1 2 jan = Ok [11; 121; 31]%Z
  /\ sem ex_sys ex_pop2 ex_inp2 2 jan = Ok [5; 7]%Z
  /\ sem ex_sys (merge ex_f1 ex_f2 ex_g1 ex_g2 ex_pop1 ex_pop2)
         (merge_inputs ex_sys ex_f1 ex_f2 ex_g1 ex_g2 ex_inp1 ex_inp2) 3 jan
     = Ok [7; 0; 0; 10]%Z
  /\ sem ex_sys ex_pop1 ex_inp1 3 jan = Ok [10; 0]%Z
  /\ sem ex_sys ex_pop2 ex_inp2 3 jan = Ok [7; 0]%Z.
Proof. vm_compute. repeat split. Qed.

(** errors too: an unknown variable, a period of the wrong unit *)
Example merge_errors :
  sem ex_sys (merge ex_f1 ex_f2 ex_g1 ex_g2 ex_pop1 ex_pop2)
      (merge_inputs ex_sys ex_f1 ex_f2 ex_g1 ex_g2 ex_inp1 ex_inp2) 2 (Year, (2018, 1, 1)%Z, 1%Z)
  = Err EValue
  /\ sem ex_sys ex_pop1 ex_inp1 2 (Year, (2018, 1, 1)%Z, 1%Z) = Err EValue.
Proof. vm_compute. split; reflexivity. Qed.

Example permutation_applies : forall v p,
  sem ex_sys (permute [2; 0; 1] [1; 0] ex_pop1) (permute_inputs ex_sys [2; 0; 1] [1; 0] ex_inp1) v p
  = rmap (place (pick (ent_of ex_sys v) [2; 0; 1] [1; 0])) (sem ex_sys ex_pop1 ex_inp1 v p).
Proof.
  intros v p.
  apply (permutation_equivariance ex_sys ex_pop1 ex_inp1 [2; 0; 1] [1; 0] eq_refl ex_wf1);
    [cbn; repeat constructor|exact ex_unique1|reflexivity|reflexivity|apply ex_inputs_wf; reflexivity].
Qed.

Example permutation_values :
  sem ex_sys (permute [2; 0; 1] [1; 0] ex_pop1) (permute_inputs ex_sys [2; 0; 1] [1; 0] ex_inp1) 2 jan
  = Ok [121; 31; 11]%Z
  /\ sem ex_sys (permute [2; 0; 1] [1; 0] ex_pop1) (permute_inputs ex_sys [2; 0; 1] [1; 0] ex_inp1) 1 jan
  = Ok [101; 132]%Z
  /\ sem ex_sys (permute [2; 0; 1] [1; 0] ex_pop1) (permute_inputs ex_sys [2; 0; 1] [1; 0] ex_inp1) 3 jan
  = Ok [0; 10]%Z.
Proof. vm_compute. repeat split; reflexivity. Qed.

(** the machine instance: fresh simulations holding the inputs *)
Example machine_applies : forall v p,
  rmap (restrict (pick (ent_of ex_sys v) ex_f1 ex_g1))
       (snd (calc (enough_fuel ex_sys) ex_sys (merge ex_f1 ex_f2 ex_g1 ex_g2 ex_pop1 ex_pop2)
                  (init (merge_inputs ex_sys ex_f1 ex_f2 ex_g1 ex_g2 ex_inp1 ex_inp2)) v p))
  = snd (calc (enough_fuel ex_sys) ex_sys ex_pop1 (init ex_inp1) v p).
Proof.
  intros v p.
  refine (proj1 (merge_independence_calculate ex_sys ex_pop1 ex_pop2 ex_inp1 ex_inp2 ex_f1 ex_f2 ex_g1 ex_g2
              eq_refl (le_n 1) eq_refl ex_wf1 ex_wf2 eq_refl ex_unique1 ex_unique2 eq_refl eq_refl
              (ex_inputs_wf ex_pop1 [10; 20; 30]%Z eq_refl) (ex_inputs_wf ex_pop2 [5; 7]%Z eq_refl) eq_refl _ _
              _ _ (init ex_inp2) v p (Top_init _ _ _) (Top_init _ _ _) (Top_init _ _ _)));
    cbn; repeat constructor.
Qed.

Example bools_example :
  placement_of_bools [false; true; true; false; false] 0 = ([0; 3; 4], [1; 2]).
Proof. reflexivity. Qed.
