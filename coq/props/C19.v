(** C19 - A dumped simulation restores to the same values and entity structure.
    Only statements here; proofs are in proofs/DumpProofs.v.

    Vocabulary (coq/model/Dump.v over coq/model/Engine.v).  A simulation [simu] is the
    machine state [st] of the engine (holders = [cache], evaluation stack, invalidated
    entries) plus what the populations hold: person ids and count, group ids and count,
    members_entity_id, members_role, members_position.  [dump_simulation show sy og u dir]
    writes it into the directory [dir] of a file system (association list path -> content):
    the entity arrays and, for every array a holder knows, a file named
    [file_name show p] = str(period) ++ ".npy" in the variable's directory.
    [restore_simulation parse sy og f] rebuilds a simulation from such a directory; the
    period of an array is obtained by PARSING the file name.  [og] is the group entity of
    the tax-benefit system ([None]: persons only).

    The printing function [show] (Period.__str__) and the parsing function [parse]
    (periods.period) are parameters, related by the explicit hypothesis
        forall p, storable p -> parse (show p) = Ok p
    which is C05's theorem period_roundtrip ([storable]: unit-aligned periods).  The
    correspondence check runs the model with the total injective encoding
    [show_enc] / [parse_enc] of corr/Corr_C19.v, for which the hypothesis is proved here
    for every period ([correspondence_encoding_roundtrips]).

    [dumpable storable sy og u]: every array the holders know belongs to a declared, not
    neutralised variable, has one element per member of the variable's entity, sits under
    the eternity period (eternal variable) or one period of the definition unit, and that
    period is storable; counts are the lengths of the id arrays; every member's role is one
    of the entity's flattened roles, whose keys are pairwise distinct; members_position is
    computable.  [dumpable_b] is its decidable form (without storability), evaluated by the
    correspondence on every generated state. *)
From Coq Require Import ZArith List Bool Arith String.
From Verif Require Import Base Cal Period Group Engine EngineProofs Dump CorrEng Corr_C19 DumpProofs.
Import ListNotations.
Open Scope nat_scope.
Local Notation length := List.length.

(** Restoring a dump gives a simulation that holds, for every variable and period, the
    array the original held (same lookup for every key, hence nothing more and nothing
    less), an empty evaluation stack, and the same ids, counts, memberships, roles and
    positions; the engine computes on the same population. *)
Theorem restore_dump_identity :
  forall (show : period -> string) (parse : string -> res period) (storable : period -> Prop),
  (forall p, storable p -> parse (show p) = Ok p) ->
  forall sy og u, dumpable storable sy og u ->
  exists f u', dump_simulation show sy og u [] = Ok f
    /\ restore_simulation parse sy og f = Ok u'
    /\ (forall k, lookup k (cache (u_st u')) = lookup k (cache (u_st u)))
    /\ stack (u_st u') = [] /\ invalid (u_st u') = []
    /\ same_structure og u u'
    /\ pop_of og u' = pop_of og u.
Proof. exact restore_dump_identity_proof. Qed.
Print Assumptions restore_dump_identity.

(** What [same_structure] says. *)
Theorem same_structure_unfolds : forall og u u', same_structure og u u' <->
  u_pcount u' = u_pcount u /\ u_pids u' = u_pids u /\
  match og with
  | Some _ => u_gcount u' = u_gcount u /\ u_gids u' = u_gids u /\ u_members u' = u_members u
              /\ u_roles u' = u_roles u /\ positions u' = positions u
  | None => True
  end.
Proof. intros og u u'. exact (iff_refl _). Qed.
Print Assumptions same_structure_unfolds.

(** Calculations only see the holders as a finite map: two states with the same lookup
    for every key, the same stack and the same invalidated entries give the same answers
    to EVERY request list (calculate, calculate_add, calculate_divide, set_input,
    delete_arrays, get_array), for every rule system - ranked or not - and stay related. *)
Theorem restored_calculates_same : forall pp fuel rs sy s s', same_state s s' ->
  same_state (fst (Engine.run fuel sy pp s rs)) (fst (Engine.run fuel sy pp s' rs))
  /\ snd (Engine.run fuel sy pp s rs) = snd (Engine.run fuel sy pp s' rs).
Proof. exact run_same. Qed.
Print Assumptions restored_calculates_same.

(** Dump, restore, then any requests: same answers as on the original. *)
Theorem dump_restore_then_requests :
  forall (show : period -> string) (parse : string -> res period) (storable : period -> Prop),
  (forall p, storable p -> parse (show p) = Ok p) ->
  forall sy og u, dumpable storable sy og u -> stack (u_st u) = [] -> invalid (u_st u) = [] ->
  exists f u', dump_simulation show sy og u [] = Ok f
    /\ restore_simulation parse sy og f = Ok u'
    /\ forall fuel rs,
         snd (Engine.run fuel sy (pop_of og u') (u_st u') rs)
         = snd (Engine.run fuel sy (pop_of og u) (u_st u) rs).
Proof. exact dump_restore_run_proof. Qed.
Print Assumptions dump_restore_then_requests.

(** For ranked systems (C01): a state that holds the inputs and otherwise only meanings
    ([Top]) keeps that property through dump and restore, so the restored simulation
    answers every calculation request with the meaning of the rule system. *)
Theorem restored_calculates_meaning : forall sy pp inp, ranked sy = true -> 1 <= max_loops sy ->
  forall s s', Top sy pp inp s -> same_state s s' ->
  forall rs, forallb is_calc_request rs = true ->
  snd (Engine.run (enough_fuel sy) sy pp s' rs) = map (sem_answer sy pp inp) rs
  /\ snd (Engine.run (enough_fuel sy) sy pp s' rs) = snd (Engine.run (enough_fuel sy) sy pp s rs).
Proof. exact restored_answers_meaning. Qed.
Print Assumptions restored_calculates_meaning.

(** Two distinct storable periods never share a file name. *)
Theorem dump_is_injective_on_periods :
  forall (show : period -> string) (parse : string -> res period) (storable : period -> Prop),
  (forall p, storable p -> parse (show p) = Ok p) ->
  forall p q, storable p -> storable q -> file_name show p = file_name show q -> p = q.
Proof. exact file_name_injective. Qed.
Print Assumptions dump_is_injective_on_periods.

(** The file-name functions the correspondence runs satisfy the hypothesis, for all periods. *)
Theorem correspondence_encoding_roundtrips : forall p, parse_enc (show_enc p) = Ok p.
Proof. exact enc_roundtrip. Qed.
Print Assumptions correspondence_encoding_roundtrips.

(** The hypotheses are decidable (up to storability), and this is the statement about
    exactly the functions that corr/Corr_C19.v evaluates. *)
Theorem hypotheses_decidable : forall sy og u,
  dumpable_b sy og u = true -> dumpable (fun _ => True) sy og u.
Proof. exact dumpable_b_sound. Qed.
Print Assumptions hypotheses_decidable.

Theorem restore_dump_identity_as_run : forall sy og u, dumpable_b sy og u = true ->
  exists f u', dump_simulation show_enc sy og u [] = Ok f
    /\ restore_simulation parse_enc sy og f = Ok u'
    /\ (forall k, lookup k (cache (u_st u')) = lookup k (cache (u_st u)))
    /\ stack (u_st u') = [] /\ invalid (u_st u') = []
    /\ same_structure og u u'
    /\ pop_of og u' = pop_of og u.
Proof. exact restore_dump_identity_corr. Qed.
Print Assumptions restore_dump_identity_as_run.

(** Role keys: decoding the text written for a flattened role gives the role back. *)
Theorem roles_roundtrip : forall e r,
  NoDup (map (role_key e) (flattened_roles e)) -> In r (flattened_roles e) ->
  decode_role e (encode_role e r) = r.
Proof. exact decode_encode. Qed.
Print Assumptions roles_roundtrip.

(** History of finding F18: before the fix the number of groups was recomputed as
    max(members_entity_id) + 1, which is not the number of stored ids when trailing
    groups have no member. *)
Theorem group_count_from_members_refuted :
  exists (gids members : list nat), length gids <> group_count_before_fix members
                                    /\ Forall (fun m => m < length gids) members.
Proof. exact group_count_before_fix_refuted. Qed.
Print Assumptions group_count_from_members_refuted.

(** * Non-vacuity *)

(** persons 5, 2, 9 in households 4, 7, 1 (the last one without members); a monthly
    input, an eternal input, a household sum. *)
Definition ex_sys : sys :=
  {| vars := [ mk_var EPerson TInt Month None [] 0%Z false false;
               mk_var EPerson TBool Eternity None [] 0%Z false false;
               mk_var EGroup TInt Month None [((1, 1, 1)%Z, EAgg GSum None (EDep 0 PSame OPlain))] 0%Z false false ];
     params := []; switches := []; max_loops := 1 |}.
Definition ex_og : option gentity := Some std_entity.
Definition ex_u0 : simu := mk_simu0 true 3 [1; 0; 1] [0; 1; 1] [5; 2; 9] [4; 7; 1].
Definition march : period := (Month, (2018, 3, 1)%Z, 1%Z).
Definition ex_before : list request :=
  [ RSetInput 0 march [10; 20; 30]%Z; RSetInput 1 eternity_period [1; 0; 1]%Z; RCalc 2 march ].
Definition ex_u : simu :=
  with_st ex_u0 (fst (Engine.run (enough_fuel ex_sys) ex_sys (pop_of ex_og ex_u0) (init []) ex_before)).

Example ex_before_answers :
  snd (Engine.run (enough_fuel ex_sys) ex_sys (pop_of ex_og ex_u0) (init []) ex_before)
  = [ANone; ANone; AVal [20; 40; 0]%Z].
Proof. vm_compute. reflexivity. Qed.

Example ex_dumpable : dumpable_b ex_sys ex_og ex_u = true.
Proof. vm_compute. reflexivity. Qed.

Example ex_top : stack (u_st ex_u) = [] /\ invalid (u_st ex_u) = [].
Proof. vm_compute. auto. Qed.

(** three arrays -> three files in three variable directories, five entity files *)
Example ex_dump_files :
  match dump_simulation show_enc ex_sys ex_og ex_u [] with
  | Ok f => (length f, listdir_top f, map (fun v => length (listdir_var v f)) [0; 1; 2])
  | Err _ => (0, [], [])
  end = (8, [0; 1; 2], [1; 1; 1]).
Proof. vm_compute. reflexivity. Qed.

Example ex_restore :
  match dump_simulation show_enc ex_sys ex_og ex_u [] with
  | Ok f =>
      match restore_simulation parse_enc ex_sys ex_og f with
      | Ok u' => u_gcount u' = 3 /\ u_gids u' = [4; 7; 1] /\ u_pids u' = [5; 2; 9]
                 /\ u_roles u' = [0; 1; 1] /\ positions u' = Ok [0; 0; 1]
                 /\ lookup (2, march) (cache (u_st u')) = Some [20; 40; 0]%Z
                 /\ lookup (1, eternity_period) (cache (u_st u')) = Some [1; 0; 1]%Z
                 /\ snd (Engine.run (enough_fuel ex_sys) ex_sys (pop_of ex_og u') (u_st u')
                           [RCalc 2 (Month, (2018, 4, 1)%Z, 1%Z); RGet 1 march])
                    = [AVal [0; 0; 0]%Z; AVal [1; 0; 1]%Z]
      | Err _ => False
      end
  | Err _ => False
  end.
Proof. vm_compute. repeat split; reflexivity. Qed.

(** a directory that already holds something is refused *)
Example ex_dirty : dump_simulation show_enc ex_sys ex_og ex_u junk = Err EValue.
Proof. reflexivity. Qed.

(** the rule system is ranked and a fresh simulation is [Top] for its inputs (C01) *)
Example ex_ranked : ranked ex_sys = true /\ 1 <= max_loops ex_sys.
Proof. split; [reflexivity|apply le_n]. Qed.

(** injectivity is about something: the encoding separates a month from the year that
    starts on the same day, and the role table of the harness has distinct keys *)
Example ex_names_differ :
  file_name show_enc (Month, (2018, 1, 1)%Z, 1%Z) <> file_name show_enc (Year, (2018, 1, 1)%Z, 1%Z).
Proof. vm_compute. discriminate. Qed.
Example ex_roles : flattened_roles std_entity = [0; 1; 2]
  /\ NoDup (map (role_key std_entity) (flattened_roles std_entity))
  /\ decode_role std_entity "0"%string = no_role std_entity.
Proof. vm_compute. repeat split. repeat constructor; cbn; intuition discriminate. Qed.

(** the hypothesis [Top] of restored_calculates_meaning is inhabited by a state that holds
    a computed value, and the restored holders may be another LIST than the original's
    (same finite map): this is why the statements speak of lookups *)
Definition ex_inp : inputs :=
  [((0, march), [10; 20; 30]%Z); ((1, eternity_period), [1; 0; 1]%Z)].
Example ex_top_state :
  Top ex_sys (pop_of ex_og ex_u0) ex_inp
      (fst (Engine.run (enough_fuel ex_sys) ex_sys (pop_of ex_og ex_u0) (init ex_inp) [RCalc 2 march])).
Proof.
  apply run_refines_meaning; [reflexivity|apply le_n|reflexivity|apply Top_init].
Qed.
Definition april : period := (Month, (2018, 4, 1)%Z, 1%Z).
Definition ex_u2 : simu :=
  with_st ex_u0 (fst (Engine.run (enough_fuel ex_sys) ex_sys (pop_of ex_og ex_u0) (init [])
                        [RSetInput 0 march [1; 2; 3]%Z; RSetInput 0 april [4; 5; 6]%Z])).
Example ex_order_differs :
  match dump_simulation show_enc ex_sys ex_og ex_u2 [] with
  | Ok f => match restore_simulation parse_enc ex_sys ex_og f with
            | Ok u' => map fst (cache (u_st ex_u2)) = [(0, april); (0, march)]
                       /\ map fst (cache (u_st u')) = [(0, march); (0, april)]
            | Err _ => False
            end
  | Err _ => False
  end.
Proof. vm_compute. split; reflexivity. Qed.

(** * The real file names

    From here on [show] / [parse] are the models of Period.__str__ and periods.period that
    C05's correspondence runs against the implementation (model/PeriodStr.v), through
    [show_real] (model/DumpNames.v), and the round trip is no longer a hypothesis: it is
    C05's theorem period_roundtrip.  [storable_real p]: [p] is in the domain of that theorem
    ([claimed]: the eternity period, or a real date with a four-digit year and a start
    aligned to the unit) and has size one - what a holder keeps - so the one case in which
    the text does not give the period back (twelve months print as a year) cannot occur.
    The eternity period is written as ETERNITY.npy and "ETERNITY" parses back to it. *)
From Coq Require Import Lia.
From Verif Require Import PeriodStr PeriodStrSpec DumpNames DumpNamesProofs.
Open Scope nat_scope.

Theorem real_names_roundtrip : forall p, storable_real p -> parse_period (show_real p) = Ok p.
Proof. exact real_roundtrip. Qed.
Print Assumptions real_names_roundtrip.

Theorem restore_dump_identity_real_names :
  forall sy og u, dumpable storable_real sy og u ->
  exists f u', dump_simulation show_real sy og u [] = Ok f
    /\ restore_simulation parse_period sy og f = Ok u'
    /\ (forall k, lookup k (cache (u_st u')) = lookup k (cache (u_st u)))
    /\ stack (u_st u') = [] /\ invalid (u_st u') = []
    /\ same_structure og u u'
    /\ pop_of og u' = pop_of og u.
Proof. exact restore_dump_identity_real. Qed.
Print Assumptions restore_dump_identity_real_names.

Theorem dump_restore_then_requests_real_names :
  forall sy og u, dumpable storable_real sy og u -> stack (u_st u) = [] -> invalid (u_st u) = [] ->
  exists f u', dump_simulation show_real sy og u [] = Ok f
    /\ restore_simulation parse_period sy og f = Ok u'
    /\ forall fuel rs,
         snd (Engine.run fuel sy (pop_of og u') (u_st u') rs)
         = snd (Engine.run fuel sy (pop_of og u) (u_st u) rs).
Proof. exact dump_restore_run_real. Qed.
Print Assumptions dump_restore_then_requests_real_names.

Theorem dump_is_injective_on_periods_real_names : forall p q, storable_real p -> storable_real q ->
  file_name show_real p = file_name show_real q -> p = q.
Proof. exact file_name_injective_real. Qed.
Print Assumptions dump_is_injective_on_periods_real_names.

(** Non-vacuity: the example simulation above is dumpable with the real names; its files
    are called as the implementation calls them; restoring gives the arrays back. *)
Example ex_storable_real : storable_real march /\ storable_real eternity_period
                           /\ storable_real (Week, (2020, 12, 28)%Z, 1%Z)
                           /\ storable_real (Year, (2018, 3, 1)%Z, 1%Z).
Proof. unfold storable_real, claimed, Cal.valid. cbn. repeat split; auto; try lia; try reflexivity. Qed.

Example ex_dumpable_real : dumpable storable_real ex_sys ex_og ex_u.
Proof.
  apply (dumpable_change_storable (fun _ => True)); [apply dumpable_b_sound; vm_compute; reflexivity|].
  intros k a Hl. apply lookup_in in Hl. vm_compute in Hl.
  destruct ex_storable_real as [Hm [He _]].
  destruct Hl as [<-|[<-|[<-|[]]]]; assumption.
Qed.

Example ex_real_names :
  match dump_simulation show_real ex_sys ex_og ex_u [] with
  | Ok f =>
      listdir_var 0 f = ["2018-03.npy"%string] /\ listdir_var 1 f = ["ETERNITY.npy"%string]
      /\ match restore_simulation parse_period ex_sys ex_og f with
         | Ok u' => lookup (2, march) (cache (u_st u')) = Some [20; 40; 0]%Z
                    /\ lookup (1, eternity_period) (cache (u_st u')) = Some [1; 0; 1]%Z
                    /\ u_gcount u' = 3
         | Err _ => False
         end
  | Err _ => False
  end.
Proof. vm_compute. repeat split; reflexivity. Qed.

Example ex_real_name_forms :
  map (file_name show_real)
      [ (Year, (2018, 1, 1)%Z, 1%Z); (Year, (2018, 3, 1)%Z, 1%Z); (Day, (2018, 3, 5)%Z, 1%Z);
        (Week, (2020, 12, 28)%Z, 1%Z); (Weekday, (2021, 1, 1)%Z, 1%Z) ]
  = [ "2018.npy"; "year:2018-03.npy"; "2018-03-05.npy"; "2020-W53.npy"; "2020-W53-5.npy" ]%string.
Proof. vm_compute. reflexivity. Qed.
