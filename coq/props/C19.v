(** C19 - A dumped simulation restores to the same values and entity structure.
    Only statements here; proofs are in proofs/DumpProofs.v. *)
From Coq Require Import ZArith List Bool Arith String.
From Verif Require Import Base Cal Period Group Engine EngineProofs Dump DumpProofs.
Import ListNotations.

(** Two distinct storable periods never share a file name. *)
Theorem dump_is_injective_on_periods :
  forall (show : period -> string) (parse : string -> res period) (storable : period -> Prop),
  (forall p, storable p -> parse (show p) = Ok p) ->
  forall p q, storable p -> storable q -> file_name show p = file_name show q -> p = q.
Proof. exact file_name_injective. Qed.
Print Assumptions dump_is_injective_on_periods.
