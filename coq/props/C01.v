(** C01 - A calculated value equals the rule system's meaning on the given inputs.
    Only statements here; proofs are in proofs/EngineProofs.v.

    Vocabulary (coq/model/Engine.v): [calc] is the machine (Simulation.calculate with its
    cache, evaluation stack, cycle and spiral tests and purge); [sem sy pp inp v p] is the
    meaning of variable [v] at period [p] in rule system [sy] on population [pp] and
    inputs [inp]: defined by recursion on the rule system only - no cache, no stack.
    [ranked sy]: every formula of variable number v only reads variables of number < v (or
    unknown variables), and eternal variables have no formula.  [Top sy pp inp s]: [s] is a
    state between two top-level requests (empty stack, nothing marked invalid) whose
    cache holds the inputs and otherwise only meanings. *)
From Coq Require Import ZArith List Bool Arith String.
From Verif Require Import Base Cal Period Engine EngineProofs.
Import ListNotations.
Open Scope nat_scope.
Local Notation length := List.length.

(** The value returned by a request is the meaning of the rule system, and the
    simulation stays in a state where that is true of the next request. *)
Theorem calculate_refines_den : forall sy pp inp, ranked sy = true -> 1 <= max_loops sy ->
  forall s v p, Top sy pp inp s ->
  snd (calc (enough_fuel sy) sy pp s v p) = sem sy pp inp v p
  /\ Top sy pp inp (fst (calc (enough_fuel sy) sy pp s v p)).
Proof. exact calculate_refines_meaning. Qed.
Print Assumptions calculate_refines_den.

Theorem fresh_simulation_is_top : forall sy pp inp, Top sy pp inp (init inp).
Proof. exact Top_init. Qed.
Print Assumptions fresh_simulation_is_top.

(** calculate, calculate_add and calculate_divide in any sequence *)
Theorem requests_refine_den : forall sy pp inp, ranked sy = true -> 1 <= max_loops sy ->
  forall rs s, forallb is_calc_request rs = true -> Top sy pp inp s ->
  snd (run (enough_fuel sy) sy pp s rs) = map (sem_answer sy pp inp) rs
  /\ Top sy pp inp (fst (run (enough_fuel sy) sy pp s rs)).
Proof. exact run_refines_meaning. Qed.
Print Assumptions requests_refine_den.

(** What the meaning is: inputs first, then the formula in force, else the default. *)
Theorem meaning_unfolds : forall sy pp inp, ranked sy = true ->
  forall v p x, nth_error (vars sy) v = Some x ->
  D sy pp inp v p =
    match check_consistency x p with
    | Err e => Err e
    | Ok _ =>
        if v_neutral x then Ok (default_array pp x)
        else match lookup (v, norm x p) inp with
             | Some a => Ok a
             | None =>
                 match formula_at x p with
                 | Err e => Err e
                 | Ok None => Ok (default_array pp x)
                 | Ok (Some e) => rmap (cast x) (snd (eval (den v sy pp inp) sy pp (v_ent x) tt p e))
                 end
             end
    end.
Proof. intros sy pp inp _. exact (D_unfold sy pp inp). Qed.
Print Assumptions meaning_unfolds.

Theorem meaning_is_D : forall sy pp inp, ranked sy = true -> 1 <= max_loops sy ->
  forall v p, sem sy pp inp v p = D sy pp inp v p.
Proof. exact sem_D. Qed.
Print Assumptions meaning_is_D.

(** The formula in force is the last one (formulas are kept in ascending start order)
    whose start date is on or before the period's start. *)
Theorem formula_in_force : forall fs d e,
  latest_formula fs d None = Some e ->
  exists l1 s l2, fs = l1 ++ (s, e) :: l2 /\ date_leb s d = true
                  /\ forall s' e', In (s', e') l2 -> date_leb s' d = false.
Proof.
  intros fs d e H. destruct (latest_formula_last fs d None e H) as [[H1 _]|H1]; [discriminate|exact H1].
Qed.
Print Assumptions formula_in_force.

Theorem no_formula_before_first_start : forall fs d,
  latest_formula fs d None = None -> forall s e, In (s, e) fs -> date_leb s d = false.
Proof. exact latest_formula_none. Qed.
Print Assumptions no_formula_before_first_start.

Theorem bool_results_are_bool : forall x a, v_type x = TBool ->
  Forall (fun z => z = 0%Z \/ z = 1%Z) (cast x a).
Proof. exact cast_bool_01. Qed.
Print Assumptions bool_results_are_bool.

(** A request that re-enters (v, p) while (v, p) is being computed is refused with a
    circular-definition error and records nothing. *)
Theorem cycle_refused : forall fuel sy pp s v p x,
  nth_error (vars sy) v = Some x -> check_consistency x p = Ok tt ->
  get_array pp x s v p = None -> In (v, p) (stack s) ->
  calc (S fuel) sy pp s v p = (s, Err ECycle).
Proof. exact calc_cycle. Qed.
Print Assumptions cycle_refused.

(** Non-vacuity: a ranked system with two entities, dated formulas, ADD and a group sum;
    and two circular systems refused from the top. *)
Definition ex_pop : popu :=
  {| grp := {| Group.g_entity := {| Group.e_key := "household"%string; Group.e_roles := []; Group.e_containing := [] |};
               Group.g_count := 2; Group.g_ids := [0; 1; 0]; Group.g_roles := [0; 0; 0] |} |}.
Definition ex_sys : sys :=
  {| vars := [ mk_var EPerson TInt Month None [] 0%Z false false;
               mk_var EPerson TInt Year None
                 [((1, 1, 1)%Z, EDep 0 PSame OAdd); ((2019, 1, 1)%Z, EBin BAdd (EDep 0 PFirstMonth OPlain) (EConst 1))]
                 0%Z false false;
               mk_var EGroup TInt Year None [((1, 1, 1)%Z, EAgg GSum None (EDep 1 PSame OPlain))] 0%Z false false ];
     params := []; switches := []; max_loops := 1 |}.
Definition ex_inp : inputs := [((0, (Month, (2018, 3, 1)%Z, 1%Z)), [10; 20; 30]%Z)].

Example ex_ranked : ranked ex_sys = true /\ 1 <= max_loops ex_sys.
Proof. split; [reflexivity|apply le_n]. Qed.
Example ex_value :
  snd (calc (enough_fuel ex_sys) ex_sys ex_pop (init ex_inp) 2 (Year, (2018, 1, 1)%Z, 1%Z)) = Ok [40; 20]%Z.
Proof. vm_compute. reflexivity. Qed.

Definition ex_cycle : sys :=
  {| vars := [ mk_var EPerson TInt Month None [((1, 1, 1)%Z, EDep 1 PSame OPlain)] 0%Z false false;
               mk_var EPerson TInt Month None [((1, 1, 1)%Z, EBin BAdd (EDep 0 PSame OPlain) (EConst 1))] 0%Z false false ];
     params := []; switches := []; max_loops := 1 |}.
Example ex_cycle_refused :
  calc (enough_fuel ex_cycle) ex_cycle ex_pop (init []) 0 (Month, (2018, 1, 1)%Z, 1%Z)
  = (init [], Err ECycle).
Proof. vm_compute. reflexivity. Qed.

(** Termination: the fuel used by every request is never exhausted, for EVERY rule system
    (statements and explanation in props/EngineFuel.v, re-checked with this file). *)
From Verif Require EngineFuel.
Theorem fuel_never_exhausted : forall sy pp s v p, stack s = [] ->
  snd (calc (enough_fuel sy) sy pp s v p) <> Err EFuel.
Proof. exact EngineFuel.enough_fuel_suffices. Qed.
Print Assumptions fuel_never_exhausted.

Theorem more_fuel_changes_nothing : forall sy pp f s rs, stack s = [] -> enough_fuel sy <= f ->
  run f sy pp s rs = run (enough_fuel sy) sy pp s rs.
Proof. exact EngineFuel.run_fuel_irrelevant. Qed.
Print Assumptions more_fuel_changes_nothing.

(** ** Tie to the regenerated structure of Variable.get_formula

    coq/gen/GuardsFormula.v is re-emitted on every run from the Python text of
    Variable.get_formula (harness/gen_tables.py, fail-closed): the tests before the scan
    ([gen_formula_guard]: no formulas -> None; no period -> the oldest; no instant -> None;
    [end] set and the instant after it -> None) and the scan ([gen_formula_scan]: over the
    reversed start dates, the first one <= the instant).  coq/model/GuardsFormulaSem.v
    re-assembles the function from these pieces ([run_scan], [first_match]); it is the
    [formula_at] of the evaluator the theorems above are about, whose [latest_formula] scans
    the ascending list and keeps the last match. *)
From Verif Require Import GuardsTypes GuardsFormula GuardsFormulaSem GuardsFormulaProofs.

Theorem source_get_formula_is_model_formula_at :
  (forall x p,
     formula_at x p
     = let fs := v_formulas x in
       let d := p_start p in
       let has := match fs with [] => false | _ => true end in
       let answer :=
         match gen_formula_guard has false false
                 (match v_end x with Some _ => true | None => false end)
                 (match v_end x with Some e => date_ltb e d | None => false end) with
         | FNone => None
         | FOldest => option_map snd (hd_error fs)
         | FScan => run_scan gen_formula_scan fs d
         end in
       if has && negb (validb d) then Err EValue else Ok answer)
  /\ (forall fs d acc,
        latest_formula fs d acc
        = match first_match CmpLe (rev fs) d with Some e => Some e | None => acc end).
Proof. exact (conj formula_at_is_source latest_is_first_of_reversed). Qed.
Print Assumptions source_get_formula_is_model_formula_at.
