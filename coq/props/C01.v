(** C01 - A calculated value equals the rule system's meaning on the given inputs.
    Only statements here; proofs are in proofs/EngineProofs.v. *)
From Coq Require Import ZArith List Bool.
From Verif Require Import Base Cal Period Engine.
Import ListNotations.
