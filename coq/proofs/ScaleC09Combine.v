(** C09: add_tax_scale / combine_bracket / combine_tax_scales add taxes.

    Plan (DESIGN.md section 7, C09):
      A. inserting a threshold with the rate of the bracket that contains it (rate 0 below
         the first threshold) does not change the tax;
      B. the loop of add_bracket calls adds [rate] to the brackets i .. i+cnt-1, which adds
         rate * (max(0, b - t_i) - max(0, b - t_(i+cnt))) to the tax;
      C. combine_bracket rate lo hi adds rate * |[lo, hi) /\ (-inf, b)| to the tax;
      D. add_tax_scale adds the tax of the other scale; sequences; combine_tax_scales. *)
From Coq Require Import ZArith QArith Qminmax List Bool Lia Lqa Setoid Morphisms Sorted.
From Verif Require Import Base Scale ScaleOps ScaleProofs ScaleC09Proofs.
Import ListNotations.
Open Scope Q_scope.

(* ------------------------------------------------------------------------- *)
(** * A. Splitting a bracket                                                   *)
(* ------------------------------------------------------------------------- *)

(** rate of the last bracket whose threshold is <= x, [prev] when there is none *)
Fixpoint rate_before (prev : Q) (s : scale) (x : Q) : Q :=
  match s with
  | [] => prev
  | (t, r) :: rest => if Qle_bool t x then rate_before r rest x else prev
  end.

Lemma bisect_rate_before : forall s prev x,
  match bisect_right (thresholds s) x with
  | O => prev
  | S k => nth k (rates s) 0
  end = rate_before prev s x.
Proof.
  induction s as [|[t r] s IH]; intros prev x; [reflexivity|].
  cbn [thresholds rates map fst snd bisect_right rate_before].
  destruct (Qle_bool t x); [|reflexivity].
  fold (thresholds s). fold (rates s). rewrite <- (IH r x).
  destruct (bisect_right (thresholds s) x); reflexivity.
Qed.

Lemma py_nth_pred : forall l k, py_nth l (Z.of_nat (S k) - 1) = nth k l 0.
Proof.
  intros l k. unfold py_nth. replace (Z.of_nat (S k) - 1)%Z with (Z.of_nat k) by lia.
  destruct (Z.ltb_spec (Z.of_nat k) 0); [lia|]. rewrite Nat2Z.id. reflexivity.
Qed.

(** the rate combine_bracket gives to an inserted low threshold (F5 repair: 0 when the
    threshold is below all existing ones) *)
Definition low_rate (s : scale) (lo : Q) : Q :=
  let index := (Z.of_nat (bisect_right (thresholds s) lo) - 1)%Z in
  if (0 <=? index)%Z then py_nth (rates s) index else 0.

Lemma low_rate_spec : forall s lo, low_rate s lo = rate_before 0 s lo.
Proof.
  intros s lo. rewrite <- bisect_rate_before. unfold low_rate.
  destruct (bisect_right (thresholds s) lo) as [|k].
  - reflexivity.
  - rewrite py_nth_pred. destruct (Z.leb_spec 0 (Z.of_nat (S k) - 1)); [reflexivity|lia].
Qed.

Lemma insert_jumps : forall s prev x b, mem_thr x s = false ->
  jumps prev (insert_left x (rate_before prev s x) s) b == jumps prev s b.
Proof.
  induction s as [|[t r] s IH]; intros prev x b Hm.
  - cbn [insert_left rate_before jumps]. ring.
  - cbn [mem_thr] in Hm. apply orb_false_iff in Hm. destruct Hm as [Htx Hm].
    cbn [insert_left rate_before].
    destruct (Qlt_bool t x) eqn:E1; destruct (Qle_bool t x) eqn:E2; qcases.
    + cbn [jumps]. rewrite IH by assumption. reflexivity.
    + exfalso. lra.
    + exfalso. apply Htx. lra.
    + cbn [jumps]. ring.
Qed.

(** first step of combine_bracket *)
Definition ins_lo (lo : Q) (s : scale) : scale :=
  if mem_thr lo s then s else add_bracket lo (low_rate s lo) s.

Lemma ins_lo_sorted : forall lo s, sorted s -> sorted (ins_lo lo s).
Proof. intros. unfold ins_lo. destruct (mem_thr lo s); [assumption|apply add_bracket_sorted; assumption]. Qed.

Lemma ins_lo_mem : forall x lo s, mem_thr x (ins_lo lo s) = Qeq_bool lo x || mem_thr x s.
Proof.
  intros. unfold ins_lo. destruct (mem_thr lo s) eqn:E.
  - destruct (Qeq_bool lo x) eqn:E1; [|reflexivity]. qcases.
    rewrite <- (mem_thr_compat _ _ s E1), E. reflexivity.
  - apply mem_thr_add_bracket.
Qed.

Lemma ins_lo_jumps : forall lo s b, jumps 0 (ins_lo lo s) b == jumps 0 s b.
Proof.
  intros. unfold ins_lo. destruct (mem_thr lo s) eqn:E; [reflexivity|].
  unfold add_bracket. rewrite E, low_rate_spec. apply insert_jumps. assumption.
Qed.

(** second step *)
Definition ins_hi (h : Q) (s : scale) : scale :=
  if mem_thr h s then s
  else add_bracket h (py_nth (rates s) (Z.of_nat (bisect_right (thresholds s) h) - 1)) s.

Lemma mem_above_lt : forall t x s, above t s -> mem_thr x s = true -> t < x.
Proof.
  intros t x s Ha Hm. apply mem_thr_true_iff in Hm. destruct Hm as [y [Hin Hy]].
  unfold above in Ha. rewrite Forall_forall in Ha. specialize (Ha y Hin). lra.
Qed.

Lemma first_le_member : forall t r s x, sorted ((t, r) :: s) -> mem_thr x ((t, r) :: s) = true -> t <= x.
Proof.
  intros t r s x Hs Hm. cbn [mem_thr] in Hm. apply orb_true_iff in Hm. destruct Hm as [Hm|Hm].
  - qcases. lra.
  - apply Qlt_le_weak. eapply mem_above_lt; [eapply sorted_above; exact Hs|exact Hm].
Qed.

Lemma bisect_pos : forall s lo h, sorted s -> mem_thr lo s = true -> lo < h ->
  exists k, bisect_right (thresholds s) h = S k.
Proof.
  intros [|[t r] s] lo h Hs Hm Hlt; [discriminate|].
  cbn [thresholds map fst bisect_right].
  pose proof (first_le_member _ _ _ _ Hs Hm) as Hle.
  destruct (Qle_bool t h) eqn:E; qcases; [eexists; reflexivity|exfalso; lra].
Qed.

Lemma ins_hi_sorted : forall h s, sorted s -> sorted (ins_hi h s).
Proof. intros. unfold ins_hi. destruct (mem_thr h s); [assumption|apply add_bracket_sorted; assumption]. Qed.

Lemma ins_hi_mem : forall x h s, mem_thr x (ins_hi h s) = Qeq_bool h x || mem_thr x s.
Proof.
  intros. unfold ins_hi. destruct (mem_thr h s) eqn:E.
  - destruct (Qeq_bool h x) eqn:E1; [|reflexivity]. qcases.
    rewrite <- (mem_thr_compat _ _ s E1), E. reflexivity.
  - apply mem_thr_add_bracket.
Qed.

Lemma ins_hi_jumps : forall lo h s b, sorted s -> mem_thr lo s = true -> lo < h ->
  jumps 0 (ins_hi h s) b == jumps 0 s b.
Proof.
  intros lo h s b Hs Hm Hlt. unfold ins_hi. destruct (mem_thr h s) eqn:E; [reflexivity|].
  destruct (bisect_pos s lo h Hs Hm Hlt) as [k Hk].
  pose proof (bisect_rate_before s 0 h) as Hr. rewrite Hk in Hr.
  rewrite Hk, py_nth_pred, Hr. unfold add_bracket. rewrite E. apply insert_jumps. assumption.
Qed.

(* ------------------------------------------------------------------------- *)
(** * B. The loop of add_bracket calls                                         *)
(* ------------------------------------------------------------------------- *)

Fixpoint add_at (rate : Q) (i : nat) (s : scale) : scale :=
  match s with
  | [] => []
  | (t, r) :: s' => match i with
                    | O => (t, r + rate) :: s'
                    | S i' => (t, r) :: add_at rate i' s'
                    end
  end.

Fixpoint add_run (rate : Q) (i cnt : nat) (s : scale) : scale :=
  match s with
  | [] => []
  | (t, r) :: s' =>
      match i with
      | S i' => (t, r) :: add_run rate i' cnt s'
      | O => match cnt with
             | O => (t, r) :: s'
             | S c => (t, r + rate) :: add_run rate 0 c s'
             end
      end
  end.

Lemma add_at_thresholds : forall rate s i, thresholds (add_at rate i s) = thresholds s.
Proof.
  induction s as [|[t r] s IH]; intros [|i]; cbn [add_at thresholds map fst]; try reflexivity.
  f_equal. apply IH.
Qed.

Lemma add_run_thresholds : forall rate s i cnt, thresholds (add_run rate i cnt s) = thresholds s.
Proof.
  induction s as [|[t r] s IH]; intros [|i] [|cnt]; cbn [add_run thresholds map fst]; try reflexivity;
    f_equal; apply IH.
Qed.

Lemma add_at_sorted : forall rate s i, sorted s -> sorted (add_at rate i s).
Proof. intros. unfold sorted. rewrite add_at_thresholds. assumption. Qed.

Lemma add_run_sorted : forall rate s i cnt, sorted s -> sorted (add_run rate i cnt s).
Proof. intros. unfold sorted. rewrite add_run_thresholds. assumption. Qed.

Lemma thresholds_length : forall s : scale, length (thresholds s) = length s.
Proof. intro. apply map_length. Qed.

Lemma add_at_length : forall rate s i, length (add_at rate i s) = length s.
Proof. intros. rewrite <- !thresholds_length, add_at_thresholds. reflexivity. Qed.

Lemma add_run_0 : forall rate s i, add_run rate i 0 s = s.
Proof. induction s as [|[t r] s IH]; intros [|i]; cbn [add_run]; try reflexivity. rewrite IH. reflexivity. Qed.

Lemma add_run_S : forall rate s i c, add_run rate (S i) c (add_at rate i s) = add_run rate i (S c) s.
Proof.
  induction s as [|[t r] s IH]; intros [|i] c; cbn [add_at add_run]; try reflexivity.
  rewrite IH. reflexivity.
Qed.

Lemma above_nth : forall t s i, above t s -> (i < length s)%nat -> t < nth i (thresholds s) 0.
Proof.
  induction s as [|[u q] s IH]; intros i Ha Hi; cbn [length] in Hi; [lia|].
  inversion Ha; subst. destruct i; cbn [thresholds map fst nth]; [assumption|].
  apply IH; [assumption|lia].
Qed.

Lemma merge_nth : forall rate s i, sorted s -> (i < length s)%nat ->
  mem_thr (nth i (thresholds s) 0) s = true
  /\ merge_first (nth i (thresholds s) 0) rate s = add_at rate i s.
Proof.
  induction s as [|[t r] s IH]; intros i Hs Hi; cbn [length] in Hi; [lia|].
  destruct i as [|i]; cbn [thresholds map fst nth mem_thr merge_first add_at].
  - rewrite Qeq_bool_refl. split; reflexivity.
  - fold (thresholds s).
    assert (Hlt : t < nth i (thresholds s) 0).
    { apply above_nth; [eapply sorted_above; exact Hs|lia]. }
    assert (E : Qeq_bool t (nth i (thresholds s) 0) = false).
    { apply Qeq_bool_false_iff. lra. }
    rewrite E. destruct (IH i (sorted_tail _ _ Hs) ltac:(lia)) as [H1 H2].
    rewrite H1, H2. split; reflexivity.
Qed.

Lemma add_bracket_nth : forall rate s i, sorted s -> (i < length s)%nat ->
  add_bracket (nth i (thresholds s) 0) rate s = add_at rate i s.
Proof.
  intros rate s i Hs Hi. destruct (merge_nth rate s i Hs Hi) as [H1 H2].
  unfold add_bracket. rewrite H1. exact H2.
Qed.

Lemma combine_loop_run : forall rate cnt i s, sorted s -> (i + cnt <= length s)%nat ->
  combine_loop rate i cnt s = add_run rate i cnt s.
Proof.
  induction cnt as [|c IH]; intros i s Hs Hb; cbn [combine_loop].
  - rewrite add_run_0. reflexivity.
  - rewrite add_bracket_nth by (assumption || lia).
    rewrite IH; [apply add_run_S|apply add_at_sorted; assumption|rewrite add_at_length; lia].
Qed.

(** max(0, b - t_k), 0 beyond the last threshold *)
Definition posn (s : scale) (k : nat) (b : Q) : Q :=
  match nth_error (thresholds s) k with
  | Some t => pos b t
  | None => 0
  end.

Lemma posn_cons_S : forall x s k b, posn (x :: s) (S k) b = posn s k b.
Proof. reflexivity. Qed.

Lemma posn_0 : forall s b, posn s 0 b = head_pos s b.
Proof. intros [|[t r] s] b; reflexivity. Qed.

Lemma posn_nil : forall k b, posn [] k b = 0.
Proof. intros [|k] b; reflexivity. Qed.

Lemma head_pos_add_run : forall rate s cnt b, head_pos (add_run rate 0 cnt s) b = head_pos s b.
Proof. intros rate [|[t r] s] [|cnt] b; reflexivity. Qed.

Lemma jumps_add_run : forall rate s i cnt prev b,
  jumps prev (add_run rate i cnt s) b
  == jumps prev s b + rate * (posn s i b - posn s (i + cnt) b).
Proof.
  induction s as [|[t r] s IH]; intros i cnt prev b.
  - cbn [add_run jumps]. rewrite !posn_nil. ring.
  - destruct i as [|i].
    + destruct cnt as [|c].
      * cbn [add_run plus]. ring.
      * cbn [add_run jumps plus]. rewrite posn_cons_S.
        rewrite (jumps_prev (add_run rate 0 c s) (r + rate) r b), IH, head_pos_add_run.
        cbn [plus]. rewrite posn_0. unfold posn at 2. cbn [thresholds map fst nth_error]. ring.
    + cbn [add_run jumps plus]. rewrite !posn_cons_S, IH. ring.
Qed.

(* ------------------------------------------------------------------------- *)
(** * C. combine_bracket                                                       *)
(* ------------------------------------------------------------------------- *)

Lemma index_of_mem : forall x s, mem_thr x s = true ->
  exists t, nth_error (thresholds s) (index_of x (thresholds s)) = Some t /\ t == x.
Proof.
  induction s as [|[t r] s IH]; intro Hm; [discriminate|].
  cbn [mem_thr] in Hm. cbn [thresholds map fst index_of].
  destruct (Qeq_bool t x) eqn:E.
  - exists t. qcases. split; [reflexivity|assumption].
  - cbn [orb] in Hm. destruct (IH Hm) as [u [H1 H2]]. exists u. split; assumption.
Qed.

Lemma index_of_lt_length : forall x s, mem_thr x s = true ->
  (index_of x (thresholds s) < length s)%nat.
Proof.
  intros x s Hm. destruct (index_of_mem x s Hm) as [t [H _]].
  rewrite <- thresholds_length. apply nth_error_Some. congruence.
Qed.

Lemma posn_index_of : forall x s b, mem_thr x s = true ->
  posn s (index_of x (thresholds s)) b == pos b x.
Proof.
  intros x s b Hm. destruct (index_of_mem x s Hm) as [t [H1 H2]].
  unfold posn. rewrite H1, H2. reflexivity.
Qed.

Lemma posn_length : forall s b, posn s (length s) b = 0.
Proof.
  intros. unfold posn. replace (nth_error (thresholds s) (length s)) with (@None Q); [reflexivity|].
  symmetry. apply nth_error_None. rewrite thresholds_length. lia.
Qed.

Lemma index_of_order : forall s lo h, sorted s -> mem_thr lo s = true -> mem_thr h s = true ->
  lo < h -> (index_of lo (thresholds s) < index_of h (thresholds s))%nat.
Proof.
  induction s as [|[t r] s IH]; intros lo h Hs Hlo Hh Hlt; [discriminate|].
  pose proof (sorted_above _ _ _ Hs) as Ha.
  cbn [mem_thr] in Hlo, Hh. cbn [thresholds map fst index_of].
  destruct (Qeq_bool t lo) eqn:E1; destruct (Qeq_bool t h) eqn:E2; cbn [orb] in Hlo, Hh; qcases.
  - exfalso. lra.
  - lia.
  - exfalso. pose proof (mem_above_lt _ _ _ Ha Hlo). lra.
  - apply -> Nat.succ_lt_mono. apply IH; try assumption. eapply sorted_tail; exact Hs.
Qed.

Lemma truthy_some : forall h, ~ h == 0 -> truthy (Some h) = Some h.
Proof. intros h H. unfold truthy. apply Qeq_bool_false_iff in H. rewrite H. reflexivity. Qed.

(** combine_bracket in terms of the pieces above *)
Lemma combine_bracket_none : forall rate lo s,
  combine_bracket rate lo None s
  = let s2 := ins_lo lo s in
    combine_loop rate (index_of lo (thresholds s2))
                 (length s2 - index_of lo (thresholds s2)) s2.
Proof.
  intros. unfold combine_bracket. cbn [truthy]. fold (low_rate s lo). fold (ins_lo lo s).
  cbv zeta. f_equal; lia.
Qed.

Lemma combine_bracket_some : forall rate lo h s, ~ h == 0 ->
  combine_bracket rate lo (Some h) s
  = let s2 := ins_hi h (ins_lo lo s) in
    combine_loop rate (index_of lo (thresholds s2))
                 (index_of h (thresholds s2) - index_of lo (thresholds s2)) s2.
Proof.
  intros rate lo h s Hh. unfold combine_bracket. rewrite (truthy_some h Hh).
  fold (low_rate s lo). fold (ins_lo lo s). fold (ins_hi h (ins_lo lo s)).
  cbv zeta. f_equal; lia.
Qed.

Definition pos_opt (b : Q) (hi : option Q) : Q :=
  match hi with Some h => pos b h | None => 0 end.

Lemma combine_bracket_jumps : forall rate lo hi s b, sorted s ->
  match hi with Some h => lo < h /\ ~ h == 0 | None => True end ->
  sorted (combine_bracket rate lo hi s)
  /\ jumps 0 (combine_bracket rate lo hi s) b
     == jumps 0 s b + rate * (pos b lo - pos_opt b hi).
Proof.
  intros rate lo hi s b Hs Hhi.
  pose proof (ins_lo_sorted lo s Hs) as Hs1.
  assert (Hm1 : mem_thr lo (ins_lo lo s) = true).
  { rewrite ins_lo_mem, Qeq_bool_refl. reflexivity. }
  destruct hi as [h|].
  - destruct Hhi as [Hlt Hnz]. rewrite combine_bracket_some by assumption. cbv zeta.
    set (s2 := ins_hi h (ins_lo lo s)).
    assert (Hs2 : sorted s2) by (apply ins_hi_sorted; assumption).
    assert (Hmlo : mem_thr lo s2 = true).
    { unfold s2. rewrite ins_hi_mem, Hm1. apply orb_true_r. }
    assert (Hmh : mem_thr h s2 = true).
    { unfold s2. rewrite ins_hi_mem, Qeq_bool_refl. reflexivity. }
    pose proof (index_of_order s2 lo h Hs2 Hmlo Hmh Hlt) as Hord.
    pose proof (index_of_lt_length h s2 Hmh) as Hlen.
    rewrite combine_loop_run by (assumption || lia).
    split; [apply add_run_sorted; assumption|].
    rewrite jumps_add_run.
    replace (index_of lo (thresholds s2) + (index_of h (thresholds s2) - index_of lo (thresholds s2)))%nat
      with (index_of h (thresholds s2)) by lia.
    rewrite !posn_index_of by assumption.
    unfold s2. rewrite (ins_hi_jumps lo h) by assumption. rewrite ins_lo_jumps.
    cbn [pos_opt]. reflexivity.
  - rewrite combine_bracket_none. cbv zeta.
    set (s2 := ins_lo lo s) in *.
    pose proof (index_of_lt_length lo s2 Hm1) as Hlen.
    rewrite combine_loop_run by (assumption || lia).
    split; [apply add_run_sorted; assumption|].
    rewrite jumps_add_run.
    replace (index_of lo (thresholds s2) + (length s2 - index_of lo (thresholds s2)))%nat
      with (length s2) by lia.
    rewrite posn_length, posn_index_of by assumption.
    unfold s2. rewrite ins_lo_jumps. cbn [pos_opt]. reflexivity.
Qed.

Lemma combine_bracket_tax : forall rate lo hi s b, sorted s ->
  match hi with Some h => lo < h /\ ~ h == 0 | None => True end ->
  sorted (combine_bracket rate lo hi s)
  /\ marginal_tax b (combine_bracket rate lo hi s)
     == marginal_tax b s + rate * (pos b lo - pos_opt b hi).
Proof.
  intros rate lo hi s b Hs Hhi.
  destruct (combine_bracket_jumps rate lo hi s b Hs Hhi) as [H1 H2].
  split; [assumption|]. rewrite !marginal_tax_jumps by assumption. exact H2.
Qed.

(* ------------------------------------------------------------------------- *)
(** * D. add_tax_scale, sequences, combine_tax_scales                          *)
(* ------------------------------------------------------------------------- *)

(** thresholds are non-negative (the quantifier of the property) *)
Definition nonneg (s : scale) : Prop := Forall (fun t => 0 <= t) (thresholds s).

Definition first_nonneg (s : scale) : Prop :=
  match s with [] => True | (t, _) :: _ => 0 <= t end.

Lemma nonneg_first : forall s, nonneg s -> first_nonneg s.
Proof. intros [|[t r] s] H; [exact I|]. inversion H; subst. assumption. Qed.

Lemma add_tax_scale_loop_tax : forall other self b,
  sorted self -> sorted other -> first_nonneg other ->
  sorted (add_tax_scale_loop self other)
  /\ marginal_tax b (add_tax_scale_loop self other) == marginal_tax b self + marginal_tax b other.
Proof.
  induction other as [|[t r] rest IH]; intros self b Hself Hother Hnn.
  - cbn [add_tax_scale_loop marginal_tax]. split; [assumption|ring].
  - destruct rest as [|[t2 r2] rest'].
    + cbn [add_tax_scale_loop].
      destruct (combine_bracket_tax r t None self b Hself I) as [H1 H2].
      split; [assumption|]. rewrite H2. cbn [marginal_tax upper_end pos_opt].
      rewrite overlap_inf_pos. ring.
    + cbn [add_tax_scale_loop].
      pose proof (sorted_cons2 _ _ _ _ _ Hother) as Hlt. cbn [first_nonneg] in Hnn.
      assert (Hhi : t < t2 /\ ~ t2 == 0) by (split; [assumption|lra]).
      destruct (combine_bracket_tax r t (Some t2) self b Hself Hhi) as [H1 H2].
      destruct (IH (combine_bracket r t (Some t2) self) b H1 (sorted_tail _ _ Hother)) as [H3 H4].
      { cbn [first_nonneg]. lra. }
      split; [assumption|]. rewrite H4, H2.
      change (marginal_tax b ((t, r) :: (t2, r2) :: rest'))
        with (r * overlap t (Fin t2) b + marginal_tax b ((t2, r2) :: rest')).
      rewrite overlap_pos by lra. cbn [pos_opt]. ring.
Qed.

Lemma add_tax_scale_calc : forall s1 s2 b, sorted s1 -> sorted s2 -> nonneg s2 ->
  calc (add_tax_scale s1 s2) b == calc s1 b + calc s2 b.
Proof.
  intros s1 s2 b H1 H2 H3. rewrite !calc_marginal_tax. unfold add_tax_scale.
  apply add_tax_scale_loop_tax; try assumption. apply nonneg_first. assumption.
Qed.

Lemma add_tax_scale_sorted : forall s1 s2, sorted s1 -> sorted s2 -> nonneg s2 ->
  sorted (add_tax_scale s1 s2).
Proof.
  intros s1 s2 H1 H2 H3. unfold add_tax_scale.
  apply (add_tax_scale_loop_tax s2 s1 0); try assumption. apply nonneg_first. assumption.
Qed.

(** sum of the taxes of several scales *)
Fixpoint calc_sum (l : list scale) (b : Q) : Q :=
  match l with [] => 0 | s :: l' => calc s b + calc_sum l' b end.

Lemma add_tax_scales_calc : forall others self b,
  sorted self -> Forall (fun o => sorted o /\ nonneg o) others ->
  sorted (add_tax_scales self others)
  /\ calc (add_tax_scales self others) b == calc self b + calc_sum others b.
Proof.
  induction others as [|o others IH]; intros self b Hs Ho; unfold add_tax_scales; cbn [fold_left calc_sum].
  - split; [assumption|ring].
  - inversion Ho as [|? ? [Ho1 Ho2] Hrest]; subst.
    fold (add_tax_scales (add_tax_scale self o) others).
    destruct (IH (add_tax_scale self o) b (add_tax_scale_sorted _ _ Hs Ho1 Ho2) Hrest) as [H1 H2].
    split; [assumption|]. rewrite H2, add_tax_scale_calc by assumption. ring.
Qed.

Lemma fold_children : forall node start,
  fold_left (fun acc child => match child with Some c => add_tax_scale acc c | None => acc end) node start
  = add_tax_scales start (marginal_children node).
Proof.
  induction node as [|[c|] node IH]; intro start; cbn [fold_left marginal_children]; [reflexivity| |apply IH].
  rewrite IH. reflexivity.
Qed.

Lemma combine_tax_scales_calc : forall node combined b,
  node <> [] ->
  match combined with Some c => sorted c | None => True end ->
  Forall (fun o => sorted o /\ nonneg o) (marginal_children node) ->
  exists r, combine_tax_scales node combined = Some r
            /\ sorted r
            /\ calc r b == match combined with Some c => calc c b | None => 0 end
                           + calc_sum (marginal_children node) b.
Proof.
  intros node combined b Hne Hc Hn. unfold combine_tax_scales.
  destruct node as [|x node]; [contradiction|].
  rewrite fold_children. eexists. split; [reflexivity|].
  destruct combined as [c|].
  - apply add_tax_scales_calc; assumption.
  - assert (Hs0 : sorted (add_bracket 0 0 [])) by (apply add_bracket_sorted, sorted_nil).
    destruct (add_tax_scales_calc (marginal_children (x :: node)) _ b Hs0 Hn) as [H1 H2].
    split; [assumption|]. rewrite H2.
    assert (E : calc (add_bracket 0 0 []) b == 0).
    { rewrite calc_marginal_tax. cbn. ring. }
    rewrite E. reflexivity.
Qed.

Lemma combine_tax_scales_empty : forall combined, combine_tax_scales [] combined = combined.
Proof. reflexivity. Qed.

(* ------------------------------------------------------------------------- *)
(** * Witness of finding F5                                                    *)
(* ------------------------------------------------------------------------- *)

(** combine_bracket(rate, lo) as it was before the F5 repair (no high threshold): the rate
    of an inserted low threshold is rates[index] even when index = -1, i.e. the LAST rate.
    Not part of the model; kept for the refutation example of props/C09.v. *)
Definition combine_bracket_F5 (rate lo : Q) (s : scale) : scale :=
  let s1 :=
    if mem_thr lo s then s
    else add_bracket lo (py_nth (rates s) (Z.of_nat (bisect_right (thresholds s) lo) - 1)) s in
  combine_loop rate (index_of lo (thresholds s1)) (length s1 - index_of lo (thresholds s1)) s1.
