(** Calendar side of C16: for a long period tiled exactly by the definition unit (same
    family, aligned start) the walk of the set-input helpers visits exactly
    [Period.get_subperiods(definition_period)], so that [calculate_add] over the same
    period sums exactly the sub-periods the rule has filled.
    Uses the tiling theorem of C04 (PeriodProofs.subperiods_tile). *)
From Coq Require Import ZArith QArith List Bool Lia.
From Verif Require Import Base Cal Tables Period PeriodSpec SetInput CalProofs PeriodProofs SetInputProofs.
Import ListNotations.
Open Scope Z_scope.

Lemma end_excl_is_offset p : p_unit p <> Eternity ->
  instant_offset (p_start p) (p_size p) (p_unit p) = Ok (end_excl p).
Proof. destruct p as [[u s] n]. destruct u; cbn; congruence. Qed.

Lemma tiles_length l : forall lo hi, tiles l lo hi -> Z.of_nat (length l) <= hi + 1 - lo.
Proof.
  induction l as [|q l IH]; intros lo hi H; cbn [tiles length] in *; [lia|].
  destruct H as [H1 [H2 H3]]. specialize (IH _ _ H3). lia.
Qed.

(** the walk reproduces any list of unit-long pieces that tile [start, after) *)
Lemma walk_follows_tiles u after : u <> Eternity -> valid after ->
  forall l fuel s,
  Forall (fun q => p_unit q = u /\ p_size q = 1 /\ wf q) l ->
  tiles l (ord s) (ord after - 1) -> valid s -> (length l < fuel)%nat ->
  walk fuel (u, s, 1) after = Ok l.
Proof.
  intros Hu Va. induction l as [|q l IH]; intros fuel s HF HT Vs Hfuel.
  - cbn [tiles] in HT. destruct fuel as [|f]; [cbn in Hfuel; lia|]. cbn [walk].
    unfold p_start; cbn [fst snd].
    assert (E : date_ltb s after = false).
    { destruct (date_ltb s after) eqn:E; [|reflexivity].
      apply (ord_lt_iff s after Vs Va) in E. lia. }
    rewrite E. reflexivity.
  - cbn [tiles] in HT. destruct HT as [H1 [H2 H3]].
    pose proof (Forall_inv HF) as [Qu [Qs Qw]]. pose proof (Forall_inv_tail HF) as HF'.
    assert (Eq : q = (u, s, 1)).
    { destruct q as [[qu qs] qn]. unfold p_unit, p_size, first_ord, p_start in *; cbn [fst snd] in *.
      subst qu qn. destruct Qw as [_ [Vq _]]. unfold p_start in Vq; cbn [fst snd] in Vq.
      rewrite (ord_inj qs s Vq Vs H1). reflexivity. }
    subst q.
    destruct fuel as [|f]; [cbn in Hfuel; lia|]. cbn [walk].
    unfold p_start at 1; cbn [fst snd].
    pose proof (tiles_le _ _ _ H3) as Hle.
    assert (E : date_ltb s after = true) by (apply (ord_lt_iff s after Vs Va); lia).
    rewrite E.
    pose proof (end_excl_is_offset (u, s, 1) Hu) as Eo. unfold p_start, p_size, p_unit in Eo; cbn [fst snd] in Eo.
    unfold offset. rewrite Eo. cbn [bind].
    destruct (end_excl_later (u, s, 1) Qw) as [Ve _].
    unfold last_ord in H3. replace (ord (end_excl (u, s, 1)) - 1 + 1) with (ord (end_excl (u, s, 1))) in H3 by lia.
    rewrite (IH f (end_excl (u, s, 1)) HF' H3 Ve ltac:(cbn [length] in Hfuel; lia)).
    reflexivity.
Qed.

Lemma same_family_dated pu u : same_family pu u = true -> pu <> Eternity /\ u <> Eternity.
Proof. destruct pu, u; cbn; intros H; try discriminate; split; discriminate. Qed.

Theorem walk_eq_subperiods v P :
  wf P -> same_family (p_unit P) (v_def v) = true -> aligned (v_def v) (p_start P) ->
  exists T, subperiods P (v_def v) = Ok T /\ walk_tiles v P = Ok T.
Proof.
  intros Hwf Hfam Hal.
  destruct (subperiods_tile P (v_def v) Hwf Hfam Hal) as [l [Hs [Ht [HF Hlen]]]].
  exists l. split; [assumption|].
  destruct (same_family_dated _ _ Hfam) as [Hp Hu].
  destruct (end_excl_later P Hwf) as [Ve Hlt].
  unfold walk_tiles. rewrite (end_excl_is_offset P Hp). cbn [bind].
  destruct Hwf as [_ [Vs _]].
  apply walk_follows_tiles; try assumption.
  pose proof (tiles_length _ _ _ Ht) as Hl. unfold first_ord, last_ord in Hl. lia.
Qed.

(** [calculate_add] right after the divide rule returns the amount *)
Lemma calculate_add_unfold v n h P T :
  same_family (p_unit P) (v_def v) = true -> subperiods P (v_def v) = Ok T ->
  calculate_add v n h P = Ok (sum_tiles v n h T).
Proof.
  intros Hfam Hs. destruct (same_family_dated _ _ Hfam) as [Hp Hu].
  unfold calculate_add.
  assert (W : unit_weight (p_unit P) <? unit_weight (v_def v) = false)
    by (destruct (p_unit P), (v_def v); try discriminate Hfam; reflexivity).
  rewrite W. rewrite (unit_eqb_neq _ _ Hp). unfold eternal. rewrite (unit_eqb_neq _ _ Hu).
  rewrite Hs. reflexivity.
Qed.

Definition divide_then_calculate_add_statement : Prop :=
  forall (v : var) (n : Z) (steps : list (period * arr)) (P : period) (a : arr),
  v_rule v = RDivide -> not_after_end v P ->
  wf P -> same_family (p_unit P) (v_def v) = true -> aligned (v_def v) (p_start P) ->
  Z.of_nat (length a) = n ->
  let h := run_steps v n [] steps in
  let a' := map (cast (v_type v)) a in
  exists T, subperiods P (v_def v) = Ok T /\ walk_tiles v P = Ok T
    /\ (0 < n_unknown v h T ->
          exists h' s, sim_set_input v n h P a = Ok h' /\ calculate_add v n h' P = Ok s
            /\ forall i, (i < length a)%nat ->
                 (cast (v_type v) (share v n h T a' i) == share v n h T a' i)%Q ->
                 (ent i s == ent i a')%Q)
    /\ (n_unknown v h T = 0 ->
          (forall i, (i < length a)%nat -> (remainder v n h T a' i == 0)%Q) ->
          exists s, sim_set_input v n h P a = Ok h /\ calculate_add v n h P = Ok s
            /\ forall i, (i < length a)%nat -> (ent i s == ent i a')%Q).

Lemma divide_then_calculate_add_proof : divide_then_calculate_add_statement.
Proof.
  intros v n steps P a Hr Hend Hwf Hfam Hal Ha h a'.
  destruct (walk_eq_subperiods v P Hwf Hfam Hal) as [T [Hs Hw]].
  exists T. split; [assumption|]. split; [assumption|].
  destruct (same_family_dated _ _ Hfam) as [Hp Hu].
  assert (He : eternal v = false) by (unfold eternal; apply unit_eqb_neq; assumption).
  destruct (divide_conserves_proof v n steps P a T Hr He Hend Hp Ha Hw) as [C1 C2].
  fold h in C1, C2. fold a' in C1, C2. split.
  - intros Hk. destruct (C1 Hk) as [h' [E [W [_ [_ [_ S]]]]]].
    exists h', (sum_tiles v n h' T). split; [assumption|].
    split; [apply calculate_add_unfold; assumption|].
    intros i Hi Hex. rewrite (sum_tiles_ent v n h' He W T i). apply S; assumption.
  - intros Hk Hz. destruct (C2 Hk) as [[E S] _]; [assumption|].
    exists (sum_tiles v n h T). split; [assumption|].
    split; [apply calculate_add_unfold; assumption|].
    intros i Hi. rewrite (sum_tiles_ent v n h He (history_wf_proof v n steps) T i). apply S; assumption.
Qed.

Lemma dispatch_on_subperiods_proof :
  forall (v : var) (n : Z) (steps : list (period * arr)) (P : period) (a : arr),
  v_rule v = RDispatch -> not_after_end v P ->
  wf P -> same_family (p_unit P) (v_def v) = true -> aligned (v_def v) (p_start P) ->
  Z.of_nat (length a) = n ->
  let h := run_steps v n [] steps in
  exists T h', subperiods P (v_def v) = Ok T /\ sim_set_input v n h P a = Ok h'
    /\ (forall q x, get h q = Some x -> get h' q = Some x)
    /\ (forall q, ~ In q T -> get h' q = get h q)
    /\ (forall t, In t T -> get h t = None -> get h' t = Some (map (cast (v_type v)) a)).
Proof.
  intros v n steps P a Hr Hend Hwf Hfam Hal Ha h.
  destruct (walk_eq_subperiods v P Hwf Hfam Hal) as [T [Hs Hw]].
  destruct (same_family_dated _ _ Hfam) as [Hp Hu].
  assert (He : eternal v = false) by (unfold eternal; apply unit_eqb_neq; assumption).
  destruct (dispatch_repeats_proof v n steps P a T Hr He Hend Hp Ha Hw) as [h' [E [_ [F1 [F2 F3]]]]].
  exists T, h'. repeat split; assumption.
Qed.
